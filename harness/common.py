"""Shared machinery of the correspondence harness: paths, seeded PRNG, the Lean driver client,
evidence writing, violation/known-finding reporting.  Run with /venv/bin/python."""
from __future__ import annotations

import json
import os
import random
import subprocess
import sys
import time

VERIF = os.path.dirname(os.path.dirname(os.path.abspath(__file__)))
REPO = os.environ.get("WD_REPO", "/repo")
LEAN_DIR = os.path.join(VERIF, "lean")
DRIVER = os.path.join(LEAN_DIR, ".lake", "build", "bin", "wd")
EVID_DIR = os.path.join(VERIF, "evidence")
REPLAY_DIR = os.path.join(EVID_DIR, "replays")

TRUSTED_BASE_COMMON = [
    "Lean 4.33.0 kernel; axioms of every property theorem audited per run to be within "
    "{propext, Classical.choice, Quot.sound} (no sorry/admit/native_decide/bv_decide/own axioms)",
    "Lean compiler+runtime executing the model definitions in the line-protocol driver "
    "(lean/Main.lean; execution is not kernel-checked)",
    "the correspondence harness (harness/*.py): generators, canonicalisation, comparison",
    "CPython 3.12 semantics of dict/set/list/str/bytes and the standard library",
]


def use_repo() -> None:
    """Make `import watchdog` resolve to the current working tree of the repository."""
    src = os.path.join(REPO, "src")
    if sys.path[0] != src:
        sys.path.insert(0, src)
    os.environ.setdefault("WATCHDOG_VERIF", "1")


def seed() -> int:
    try:
        return int(os.environ.get("VERIF_SEED", "0"))
    except ValueError:
        return 0


def rng(tag: str = "") -> random.Random:
    return random.Random(f"{seed()}:{tag}")


def enc(s: str | bytes) -> str:
    """percent-encode everything outside a safe ASCII set so a token never contains a space"""
    if isinstance(s, str):
        b = s.encode("utf-8", "surrogateescape")
    else:
        b = s
    out = []
    for c in b:
        ch = chr(c)
        if 33 <= c < 127 and ch not in "%,>|":
            out.append(ch)
        else:
            out.append("%%%02x" % c)
    return "".join(out) if out else "%%"  # "%%" = empty string


class Lean:
    """Batch client of the compiled model driver: one request line -> one response line."""

    def __init__(self) -> None:
        if not os.path.exists(DRIVER):
            raise RuntimeError(f"model driver not built: {DRIVER} (run setup.sh)")
        self.lines_sent = 0

    def run(self, lines: list[str]) -> list[str]:
        if not lines:
            return []
        data = "\n".join(lines) + "\n"
        p = subprocess.run([DRIVER], input=data.encode(), stdout=subprocess.PIPE, stderr=subprocess.PIPE)
        if p.returncode != 0:
            raise RuntimeError(f"model driver failed rc={p.returncode}: {p.stderr.decode()[:2000]}")
        out = p.stdout.decode().split("\n")
        if out and out[-1] == "":
            out.pop()
        if len(out) != len(lines):
            raise RuntimeError(f"driver returned {len(out)} lines for {len(lines)} requests")
        self.lines_sent += len(lines)
        return out


class Result:
    """Accumulates what a check run covered, its violations and known findings."""

    def __init__(self, prop: str, tier: str) -> None:
        self.prop = prop
        self.tier = tier
        self.t0 = time.time()
        self.cov: dict = {"evaluations": 0, "samples": []}
        self.distinct: set = set()
        self.violations: list[dict] = []
        self.known: list[str] = []
        self.assumptions: list[str] = []
        self.notes: dict = {}
        self.harness_errors: list[str] = []

    def count(self, n: int = 1) -> None:
        self.cov["evaluations"] += n

    def nontrivial(self, key) -> None:
        self.distinct.add(key)

    def sample(self, s, cap: int = 6) -> None:
        if len(self.cov["samples"]) < cap:
            self.cov["samples"].append(s)

    def bump(self, key: str, n: int = 1) -> None:
        d = self.cov.setdefault("distribution", {})
        d[key] = d.get(key, 0) + n

    def violation(self, what: str, replay: dict, *, no_input: bool = False, signature: str | None = None) -> None:
        self.violations.append({"what": what, "replay": replay, "no_input": no_input, "signature": signature})


def load_known() -> list[dict]:
    p = os.path.join(VERIF, "known_findings.json")
    if not os.path.exists(p):
        return []
    with open(p) as f:
        return json.load(f).get("findings", [])


def write_replay(prop: str, idx: int, payload: dict) -> str:
    os.makedirs(REPLAY_DIR, exist_ok=True)
    path = os.path.join(REPLAY_DIR, f"{prop}-{seed()}-{idx}.json")
    with open(path, "w") as f:
        json.dump(payload, f, indent=1, sort_keys=True, default=repr)
    return os.path.relpath(path, VERIF)
