"""C15 correspondence: the three real handler classes and watchdog.utils.patterns against the Lean
model (WD.Model.Events), with pathlib / re supplying the matchers the model is parametric in."""
from __future__ import annotations

import itertools
import os
import re
from pathlib import PurePosixPath, PureWindowsPath

import common
from common import enc

CALLBACKS = ["on_any_event", "on_moved", "on_created", "on_deleted", "on_modified", "on_closed",
             "on_closed_no_write", "on_opened"]

PATHS = ["a.py", "A.PY", "d/a.py", "b.txt", "d", "", "d/Maße.py"]      # ß: lower() keeps it, casefold() expands it
PATTERNS = ["*.py", "*.PY", "*", "a.*", "d/*", "*.txt", "**", "*/maße.*"]
REGEXES = [".*", "^$", r".*\.py", "a", "$", "d/.*", "B", r".*\.txt$"]


def recorder(base, **kw):
    class Rec(base):
        def __init__(self):
            super().__init__(**kw)
            self.calls = []

    for name in CALLBACKS:
        def mk(name):
            def f(self, event):
                self.calls.append(name)
            return f
        setattr(Rec, name, mk(name))
    return Rec()


def run_dispatch(h, event):
    try:
        h.dispatch(event)
    except Exception as e:  # noqa: BLE001
        if type(event).__name__ == "FileSystemEvent" and not isinstance(e, ValueError):
            return "error:AttributeError"  # abstract base: any failure after on_any_event is the modelled one
        return "error:" + type(e).__name__
    return "calls:" + ",".join(h.calls)


def instance_recorder(base, **kw):
    """callbacks assigned on a stock instance (handler.on_created = fn), a common usage pattern"""
    h = base(**kw)
    h.calls = []
    for name in CALLBACKS:
        setattr(h, name, (lambda n: (lambda event: h.calls.append(n)))(name))
    return h


def tok_list(l):
    if l is None:
        return "-"
    return " ".join([str(len(l))] + [enc(x) for x in l])


def pat_tables(paths, inc, exc, cs):
    pats = set((inc if inc is not None else ["*"]) + (exc or []))
    low = [(p, p.lower()) for p in sorted(pats)]
    eff = sorted({p if cs else p.lower() for p in pats})
    cls = PurePosixPath if cs else PureWindowsPath
    m = []
    for path in sorted(set(paths)):
        for q in eff:
            if cls(path).match(q):
                m.append((path, q))
    return low, m


def make_event(ev, cname, src, dest, as_bytes):
    cls = getattr(ev, cname)
    s = os.fsencode(src) if as_bytes else src
    d = os.fsencode(dest) if as_bytes else dest
    return cls(s, d) if dest or as_bytes else cls(s)


def run(res, tier, lean, proof_breaks=(), build_log=""):
    import watchdog.events as ev
    from watchdog.utils import patterns as pt

    r = common.rng("c15")
    thorough = tier == "thorough"
    res.cov["rule"] = ("every event class x src/dest over a 6-path alphabet (incl. empty) x include/exclude pattern "
                       "lists (None, singles, pairs) x case_sensitive x ignore_directories, str and bytes paths, for the "
                       "base, pattern and regex handlers + filter_paths; exhaustive over that scope in thorough, "
                       "deterministically sampled in quick; non-trivial = at least one callback called or an error raised")
    classes = sorted(n for n, c in vars(ev).items() if isinstance(c, type) and issubclass(c, ev.FileSystemEvent))
    lines, impl, meta = [], [], []

    # history: stock instances of every library handler class dispatch first (a parent class having
    # dispatched before must not influence what a subclass or another instance does later)
    import logging
    for stock in (ev.FileSystemEventHandler(), ev.PatternMatchingEventHandler(), ev.RegexMatchingEventHandler(),
                  ev.LoggingEventHandler(logger=logging.getLogger("wdverif.null"))):
        for c in classes:
            if c != "FileSystemEvent":
                stock.dispatch(getattr(ev, c)("x", "y"))

    # base dispatch: exhaustive over all classes, via subclass overrides and via instance attributes
    for c in classes:
        for mk in (recorder, instance_recorder):
            h = mk(ev.FileSystemEventHandler)
            e = getattr(ev, c)("x", "y")
            lines.append(f"basedisp {c}")
            impl.append(run_dispatch(h, e))
            meta.append(("base", c))
        h = recorder(ev.LoggingEventHandler, logger=logging.getLogger("wdverif.null"))
        lines.append(f"basedisp {c}")
        impl.append(run_dispatch(h, getattr(ev, c)("x", "y")))
        meta.append(("base", c))
    for c in []:
        h = recorder(ev.FileSystemEventHandler)
        e = getattr(ev, c)("x", "y")
        lines.append(f"basedisp {c}")
        impl.append(run_dispatch(h, e))
        meta.append(("base", c))

    events = []
    for c in classes:
        moved = issubclass(getattr(ev, c), ev.FileSystemMovedEvent)
        for src in PATHS:
            for dest in (PATHS if moved else [""]):
                if src or dest:  # an event without any path does not occur
                    events.append((c, src, dest))
    incs = [None] + [[p] for p in PATTERNS] + [["*.py", "*.txt"], ["a.*", "d/*"], ["*.PY", "*.py"], []]
    excs = [None] + [[p] for p in PATTERNS] + [["*.py", "d/*"]]
    combos = list(itertools.product(events, incs, excs, [False, True], [False, True]))
    if not thorough:
        combos = r.sample(combos, 25000)
    for (c, src, dest), inc, exc, cs, ign in combos:
        as_bytes = r.random() < 0.15
        h = (recorder if r.random() < 0.8 else instance_recorder)(ev.PatternMatchingEventHandler, patterns=inc, ignore_patterns=exc, ignore_directories=ign,
                     case_sensitive=cs)
        e = make_event(ev, c, src, dest, as_bytes)
        paths = [p for p in (dest, src) if p]
        low, m = pat_tables(paths, inc, exc, cs)
        lines.append(f"patdisp {c} {enc(src)} {enc(dest)} {int(ign)} {int(cs)} P {tok_list(inc)} I {tok_list(exc)} "
                     f"L {len(low)} {' '.join(enc(a) + ' ' + enc(b) for a, b in low)} "
                     f"M {len(m)} {' '.join(enc(a) + ' ' + enc(b) for a, b in m)}")
        impl.append(run_dispatch(h, e))
        meta.append(("pattern", c, src, dest, inc, exc, cs, ign, as_bytes))

    rincs = [None] + [[x] for x in REGEXES] + [[r".*\.py", r".*\.txt$"]]
    rexcs = [None] + [[x] for x in REGEXES]
    combos = list(itertools.product(events, rincs, rexcs, [False, True], [False, True]))
    if not thorough:
        combos = r.sample(combos, 25000)
    for (c, src, dest), inc, exc, cs, ign in combos:
        as_bytes = r.random() < 0.15
        as_str = inc is not None and len(inc) == 1 and r.random() < 0.3
        h = recorder(ev.RegexMatchingEventHandler, regexes=(inc[0] if as_str else inc), ignore_regexes=exc,
                     ignore_directories=ign, case_sensitive=cs)
        e = make_event(ev, c, src, dest, as_bytes)
        paths = [p for p in (dest, src) if p]
        regs = inc if inc is not None else [".*"]
        igs = exc or []
        flags = 0 if cs else re.IGNORECASE
        m = [(x, p) for x in sorted(set(regs + igs)) for p in sorted(set(paths)) if re.compile(x, flags).match(p)]
        lines.append(f"redisp {c} {enc(src)} {enc(dest)} {int(ign)} R {tok_list(regs)} I {tok_list(igs)} "
                     f"M {len(m)} {' '.join(enc(a) + ' ' + enc(b) for a, b in m)}")
        impl.append(run_dispatch(h, e))
        meta.append(("regex", c, src, dest, inc, exc, cs, ign, as_bytes))

    # filter_paths / match_any_paths
    plists = [[], ["a.py"], ["a.py", "b.txt", "A.PY"], ["d/a.py", "d", "a.py", "a.py"], ["b.txt", "d"], ["d/Maße.py", "d/MASSE.py", "a.py"]]
    combos = list(itertools.product(plists, incs, excs, [False, True]))
    for paths, inc, exc, cs in combos:
        low, m = pat_tables(paths, inc, exc, cs)
        lines.append(f"filterpaths {int(cs)} N {tok_list(paths)} P {tok_list(inc)} I {tok_list(exc)} "
                     f"L {len(low)} {' '.join(enc(a) + ' ' + enc(b) for a, b in low)} "
                     f"M {len(m)} {' '.join(enc(a) + ' ' + enc(b) for a, b in m)}")
        try:
            out = list(pt.filter_paths(paths, included_patterns=inc, excluded_patterns=exc, case_sensitive=cs))
            o = "paths:" + ",".join(enc(x) for x in out)
            anyp = pt.match_any_paths(paths, included_patterns=inc, excluded_patterns=exc, case_sensitive=cs)
            if anyp != bool(out):
                o += " MATCH_ANY_DISAGREES"
        except ValueError:
            o = "error:ValueError"
        impl.append(o)
        meta.append(("filter", paths, inc, exc, cs))

    outs = lean.run(lines)
    bad = []
    for line, o, i, mt in zip(lines, outs, impl, meta):
        res.count()
        res.bump(mt[0])
        if i not in ("calls:", "paths:"):
            res.nontrivial(line)
            res.bump(mt[0] + "_nontrivial")
        if i.startswith("error"):
            res.bump("errors")
        if o != i:
            bad.append((line, i, o, mt))
    for k in (0, len(classes) + 5, len(lines) - 3):
        res.sample({"request": lines[k], "implementation": impl[k], "model": outs[k]})
    res.cov["exhaustive"] = thorough
    if bad:
        bad.sort(key=lambda b: len(b[0]))
        # classify: the known D8 shape = non-move event, empty dest_path took part in regex matching
        groups = {}
        for b in bad:
            mt = b[3]
            sig = "c15-mismatch-" + mt[0]
            if mt[0] in ("regex", "pattern") and mt[3] == "":
                sig = "c15-empty-dest-path-matched-" + mt[0]
            groups.setdefault(sig, []).append(b)
        for sig, bs in groups.items():
            line, i, o, mt = bs[0]
            res.violation(
                f"handler dispatch differs from the specified rule ({sig}): implementation {i!r}, rule {o!r}",
                {"request": line, "implementation": i, "model": o, "case": mt, "mismatching_cases": len(bs)},
                signature=sig)


def replay(res, path, lean):
    run(res, "quick", lean)
