#!/bin/sh
# usage: try_mutant.sh <prop> <patch.diff> [tier]  — apply a seeded change to /repo, run the check, undo it;
# the evidence file written by that run describes the CHANGED tree: it is put back to the committed one afterwards
prop=$1; patch=$2; tier=${3:-quick}
cd /repo || exit 2
git diff --quiet || { echo "repo dirty"; exit 2; }
git apply "$patch" || { echo "PATCH-DOES-NOT-APPLY"; exit 3; }
cd /verif && ./check "$prop" --tier "$tier" 2>&1 | grep -E "^VIOLATION|^KNOWN|^C[0-9]+:|HARNESS" | head -8
git -C /repo checkout -- . ; git -C /repo clean -fdq
git -C /verif checkout -- "evidence/$prop.json" 2>/dev/null
cd /verif && /venv/bin/python harness/tables.py >/dev/null 2>&1
