"""Generates MANIFEST.json from lean/props.json + harness/manifest_meta.json (kept valid at all times)."""
import json, os
HERE = os.path.dirname(os.path.dirname(os.path.abspath(__file__)))
props = json.load(open(os.path.join(HERE, "lean", "props.json")))
meta = json.load(open(os.path.join(HERE, "harness", "manifest_meta.json")))
allp = [json.loads(l)["id"] for l in open(os.path.join(HERE, "properties.jsonl"))]
checks = []
for pid in allp:
    if pid not in props or pid not in meta["checks"]:
        continue
    m = meta["checks"][pid]
    checks.append({
        "property_id": pid,
        "quick_cmd": f"./check {pid} --tier quick",
        "thorough_cmd": f"./check {pid} --tier thorough",
        "evidence_file": f"evidence/{pid}.json",
        "replay_cmd_template": f"./check {pid} --replay {{path}}",
        "engine": "lean4-proof+correspondence",
        "level_claimed": {"category": "proof", "text": m["text"], "design_ref": m.get("design_ref", "DESIGN.md §4")},
        "level_note": m["note"],
        "technique": m["technique"],
    })
na = [{"property_id": p, "reason": meta["not_applicable"].get(p, "not yet built in this round: no model/theorem/tie committed for it yet (see DESIGN.md §8 work order)")}
      for p in allp if p not in {c["property_id"] for c in checks}]
man = {
    "version": 1,
    "setup_cmd": "./setup.sh",
    "hooks": {
        "guard": "WATCHDOG_VERIF",
        "enable": "no source hooks: all instrumentation is installed by the harness process (module-level substitution before import); checks set WATCHDOG_VERIF=1 for documentation only",
        "baseline_off_cmd": "cd /repo && /venv/bin/python -m pytest -ra -q -p no:cacheprovider --timeout=900 --continue-on-collection-errors",
        "source_commits": meta.get("hook_commits", []),
        "add_only": True,
    },
    "engines": [{
        "name": "lean4-proof+correspondence",
        "path": "check",
        "serves_properties": [c["property_id"] for c in checks],
        "kind_free_text": "Lean 4 theorems over hand-written executable models (lean/WD), tied to /repo's current source on every run by differential correspondence through a compiled line-protocol driver (lean/Main.lean) and by tables regenerated from the source (lean/WD/Generated)",
    }],
    "checks": checks,
    "not_applicable": na,
    "notes": meta.get("notes", ""),
}
json.dump(man, open(os.path.join(HERE, "MANIFEST.json"), "w"), indent=1)
print("checks:", [c["property_id"] for c in checks], "n/a:", [x["property_id"] for x in na])
