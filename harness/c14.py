"""C14 correspondence: generate_sub_moved_events / generate_sub_created_events on real scratch
trees (names chosen to collide with the prefix being rewritten) against WD.subMovedEvents /
WD.subCreatedEvents; plus the watch-map re-keying rule against `rekeyPath`."""
from __future__ import annotations

import itertools
import os
import shutil
import tempfile

import common
from common import enc

NAMES = ["d", "s", "dd"]
OUTSIDE = [""]      # a populated directory outside every scratch tree (target of symbolic links)


def scratch_base():
    base = os.environ.get("TMPDIR") or ("/dev/shm" if os.path.isdir("/dev/shm") else None)
    return tempfile.mkdtemp(prefix="wdverif-c14-", dir=base)


def level_combos(names):
    # each name: absent / file / dir
    return list(itertools.product(["-", "f", "d"], repeat=len(names)))


def all_trees(depth):
    """trees as nested dicts name -> None (file) | dict (dir), over NAMES, nesting <= depth"""
    if depth == 0:
        return [{}]
    subs = all_trees(depth - 1)
    out = []
    for combo in level_combos(NAMES):
        dirs = [n for n, k in zip(NAMES, combo) if k == "d"]
        files = [n for n, k in zip(NAMES, combo) if k == "f"]
        for subsel in itertools.product(subs, repeat=len(dirs)):
            t = {n: None for n in files}
            for n, s in zip(dirs, subsel):
                t[n] = s
            out.append(t)
    return out


def random_tree(r, depth, names):
    t = {}
    for n in names:
        k = r.random()
        if k < 0.35:
            continue
        if k < 0.42:
            # a symbolic link that does not resolve (dangling, self-referential, or valid only through the directory's
            # old name): still an entry of the directory, so it gets its event like any file
            t[n] = r.choice(["L:nowhere", "L:" + n, "L:../s/gone", "L:/nonexistent-wdverif/x"])
        elif k < 0.50:
            # a symbolic link that resolves to a directory - the directory it sits in, or a populated one outside the tree:
            # os.walk lists it among the directories but never enters it; it is ONE descendant (of the Dir flavour)
            t[n] = r.choice(["L:.", "L:@OUT", "L:@OUT/sub"])
        elif k < 0.7 or depth == 0:
            t[n] = None
        else:
            t[n] = random_tree(r, depth - 1, names)
    return t


def build(path, tree):
    os.mkdir(path)
    for n, sub in tree.items():
        p = os.path.join(path, n)
        if sub is None:
            open(p, "w").close()
        elif isinstance(sub, str):
            os.symlink(sub[2:].replace("@OUT", OUTSIDE[0]), p)
        else:
            build(p, sub)


def serialise(path):
    """tree tokens in os.scandir order (the order os.walk will see)"""
    toks = []
    with os.scandir(path) as it:
        entries = list(it)
    def link_to_dir(e):
        try:
            return e.is_symlink() and e.is_dir()
        except OSError:          # ELOOP: a link to itself
            return False

    for e in entries:
        if link_to_dir(e):
            toks += ["D", enc(e.name), "0"]       # a link to a directory: listed as a directory, never entered
        elif e.is_dir(follow_symlinks=False):
            sub, k = serialise(e.path)
            toks += ["D", enc(e.name), str(k)] + sub
        else:
            toks += ["F", enc(e.name)]
    return toks, len(entries)


def count(tree):
    return sum(1 + (count(s) if isinstance(s, dict) else 0) for s in tree.values())


CAP = 5000


def capped(gen):
    """the events of a generator, at most CAP of them (a walk that follows a link into its own directory never ends)"""
    return list(itertools.islice(gen, CAP))


def show(events, kind):
    out = []
    problems = []
    for e in events:
        cname = type(e).__name__
        exp = ("Dir" if e.is_directory else "File") + ("MovedEvent" if kind == "moved" else "CreatedEvent")
        if cname != exp:
            problems.append(f"class {cname}")
        if not e.is_synthetic:
            problems.append("not-synthetic")
        out.append(("D:" if e.is_directory else "F:") + enc(e.src_path) + ">" + enc(e.dest_path))
    return ",".join(out) + ("" if not problems else " PROBLEMS=" + "/".join(sorted(set(problems))))


def run(res, tier, lean, proof_breaks=(), build_log=""):
    from watchdog.events import generate_sub_created_events, generate_sub_moved_events

    r = common.rng("c14")
    thorough = tier == "thorough"
    res.cov["rule"] = ("real scratch trees over the colliding name universe {d,s,dd} (exhaustive to nesting depth 1 in "
                       "quick, 2 in thorough; random deeper/wider trees incl. non-ASCII and path-repeating names beyond), "
                       "each run with relative/absolute, str/bytes, unknown-source spellings of (old,new); non-trivial = "
                       "tree has a descendant; distinct = distinct request")
    trees = all_trees(2 if thorough else 1)
    if not thorough:
        trees += r.sample(all_trees(2), 700)
    extra_names = ["d", "s", "x y", "é", "tmp", "w"]
    for _ in range(600 if thorough else 150):
        trees.append(random_tree(r, r.choice([2, 3, 4]), r.sample(extra_names, 4)))
    base = scratch_base()
    cwd = os.getcwd()
    lines, impl, meta = [], [], []
    try:
        os.chdir(base)
        OUTSIDE[0] = os.path.join(base, "outside")
        os.makedirs(os.path.join(OUTSIDE[0], "sub", "dd"))
        for f_ in ("secret", "sub/x", "sub/dd/y"):
            open(os.path.join(OUTSIDE[0], f_), "w").close()
        # a tree that literally repeats the absolute destination path inside itself
        rel_of_base = base.strip("/").split("/")
        nested = {}
        cur = nested
        for comp in rel_of_base + ["d"]:
            cur[comp] = {}
            cur = cur[comp]
        cur["f"] = None
        trees.append(nested)
        trees.append({"a": None, "l1": "L:nowhere", "s": {"loop": "L:loop", "via_old": "L:../../s/s/f", "f": None, "dd": {"l2": "L:gone"}}})
        trees.append({"f1": None, "d1": {"f2": None, "d2": {}}, "lnk": "L:d1", "out": "L:@OUT", "dd": {"self": "L:.", "up": "L:.."}})
        for i, tree in enumerate(trees):
            if os.path.exists("d"):
                shutil.rmtree("d")
            build("d", tree)
            toks, k = serialise("d")
            ttok = f"T {k} " + " ".join(toks)
            spellings = [("s", "d"), (os.path.join(base, "s"), os.path.join(base, "d")), ("", "d"),
                         (b"s", b"d"), ("d", "d"), ("d/d", "d"), ("x/s", "./d")]
            # old-directory paths that are not in normal form (what an emitter reports for a watch on "." or on a
            # path with a doubled slash): the source must be the old path EXACTLY AS GIVEN followed by the relative path
            odd = [("./s", "./d"), ("x//s", "d"), ("x/../s", "d"), (b"./s", b"./d")]
            if not thorough and i > 40:
                spellings = r.sample(spellings, 3) + r.sample(odd, 1)
            else:
                spellings = spellings + odd
            for src, dst in spellings:
                evs = capped(generate_sub_moved_events(src, dst))
                lines.append(f"submoved {enc(src)} {enc(dst)} {ttok}")
                impl.append(show(evs, "moved"))
                meta.append((tree, src, dst))
            for d in (["d", os.path.join(base, "d"), b"d"] if (thorough or i <= 40) else ["d"]):
                evs = capped(generate_sub_created_events(d))
                lines.append(f"subcreated {enc(d)} {ttok}")
                impl.append(show(evs, "created"))
                meta.append((tree, None, d))
    finally:
        os.chdir(cwd)
        shutil.rmtree(base, ignore_errors=True)
    outs = lean.run(lines)
    bad = []
    for line, o, i, mt in zip(lines, outs, impl, meta):
        res.count()
        if count(mt[0]) > 0:
            res.nontrivial(line)
        res.bump("moved" if mt[1] is not None else "created")
        res.bump("descendants_%s" % min(count(mt[0]), 8))
        if o != i:
            bad.append((line, i, o, mt))
    res.sample({"request": lines[5], "implementation": impl[5], "model": outs[5]})
    res.sample({"request": lines[-2], "implementation": impl[-2], "model": outs[-2]})
    res.cov["exhaustive"] = True
    res.notes["exhaustive_scope"] = "all trees over {d,s,dd} to nesting depth %d" % (2 if thorough else 1)

    # watch-map re-keying (Inotify.read_events): the real dict manipulation on a stub instance
    rk_bad = rekey_cases(res, lean, r)

    # emitter level: the synthetic events of a renamed / arrived directory under event filters that accept only one
    # flavour - every descendant of the accepted flavour must still get its event
    fv = filtered_emitter_cases(res)
    if fv:
        res.violation(fv[0], fv[1], signature="c14-filtered-sub-events")

    if bad:
        bad.sort(key=lambda b: len(b[0]))
        line, i, o, mt = bad[0]
        res.violation(
            "synthetic sub-events differ from 'one event per descendant, old path ++ same relative path': "
            f"implementation {i[:160]!r} expected {o[:160]!r}",
            {"request": line, "implementation": i, "model": o, "tree": mt[0], "src_dir": repr(mt[1]),
             "dest_dir": repr(mt[2]), "mismatching_cases": len(bad)},
            signature="c14-sub-events")
    if rk_bad:
        line, i, o = rk_bad[0]
        res.violation(
            f"watch-map re-keying after a directory rename differs from the prefix rewrite: {i!r} expected {o!r}",
            {"request": line, "implementation": i, "model": o, "mismatching_cases": len(rk_bad)},
            signature="c14-rekey")


def filtered_emitter_cases(res):
    import tempfile
    import time

    from watchdog.events import (DirCreatedEvent, DirMovedEvent, FileCreatedEvent, FileMovedEvent,
                                 FileSystemEventHandler)
    from watchdog.observers.inotify import InotifyObserver

    for flt, want_cls in (([FileMovedEvent, FileCreatedEvent], ("FileMovedEvent", "FileCreatedEvent")),
                          ([DirMovedEvent, DirCreatedEvent], ("DirMovedEvent", "DirCreatedEvent"))):
        base = os.path.realpath(tempfile.mkdtemp(prefix="wdverif-c14-", dir=os.environ.get("TMPDIR") or None))
        obs = InotifyObserver()
        try:
            w, o = os.path.join(base, "W"), os.path.join(base, "O")
            for d in (w, o, os.path.join(w, "d"), os.path.join(w, "d", "dd"), os.path.join(o, "x"), os.path.join(o, "x", "dd")):
                os.mkdir(d)
            for f in (os.path.join(w, "d", "a"), os.path.join(w, "d", "dd", "b"), os.path.join(o, "x", "a"), os.path.join(o, "x", "dd", "b")):
                open(f, "w").close()
            got = []

            class H(FileSystemEventHandler):
                def on_any_event(self, e):
                    got.append((type(e).__name__, os.path.relpath(e.src_path, base) if e.src_path else "",
                                os.path.relpath(e.dest_path, base) if e.dest_path else "", e.is_synthetic))

            obs.schedule(H(), w, recursive=True, event_filter=flt)
            obs.start()
            time.sleep(0.1)
            os.rename(os.path.join(w, "d"), os.path.join(w, "e"))          # renamed inside the tree
            os.rename(os.path.join(o, "x"), os.path.join(w, "y"))          # arrives from outside
            res.count()
            res.bump("filtered_emitter_runs")
            if want_cls[0].startswith("File"):
                need = {("FileMovedEvent", "W/d/a", "W/e/a"), ("FileMovedEvent", "W/d/dd/b", "W/e/dd/b"),
                        ("FileCreatedEvent", "W/y/a", ""), ("FileCreatedEvent", "W/y/dd/b", "")}
            else:
                need = {("DirMovedEvent", "W/d/dd", "W/e/dd"), ("DirCreatedEvent", "W/y/dd", "")}
            # give the emitter time (a fixed pause is not enough on a loaded machine): until everything required has
            # arrived, at most 10 s, and at least the pairing delay
            time.sleep(0.9)
            deadline = time.monotonic() + 10
            while True:
                have = {(c, s_, d_) for c, s_, d_, syn in list(got) if syn}
                missing = need - have
                if not missing or time.monotonic() > deadline:
                    break
                time.sleep(0.05)
            if missing:
                return (f"under the event filter {[c.__name__ for c in flt]} the synthetic events of a renamed / arrived directory "
                        f"lack {sorted(missing)} (one event per descendant of the accepted flavour is required)",
                        {"filter": [c.__name__ for c in flt], "delivered": got, "missing": sorted(missing)})
        finally:
            obs.stop()
            obs.join(5)
            shutil.rmtree(base, ignore_errors=True)
    return None


def rekey_cases(res, lean, r):
    """drive the re-keying branch of Inotify.read_events with a crafted MOVED_FROM/MOVED_TO buffer on
    an Inotify object created without __init__ (no kernel involved)."""
    import struct
    import threading

    from watchdog.observers import inotify_c
    from watchdog.observers.inotify_c import Inotify, InotifyConstants

    keys_universe = [b"w/a", b"w/a/a", b"w/ab", b"w/a/w/a", b"w/a/b/c", b"w/b", b"w/ab/a", b"w/a/a/a"]
    lines, impl = [], []
    for _ in range(300):
        keys = [b"w"] + r.sample(keys_universe, r.randint(1, 6))
        old = r.choice([k for k in keys if k != b"w" and k.count(b"/") == 1] or [None])
        if old is None:
            continue
        newname = r.choice([b"a", b"x", b"ab", b"w"])
        new = b"w/" + newname
        ino = Inotify.__new__(Inotify)
        ino._lock = threading.Lock()
        ino._closed = False
        ino._is_reading = True
        ino._wd_for_path = {k: i + 1 for i, k in enumerate(keys)}
        ino._path_for_wd = {i + 1: k for i, k in enumerate(keys)}
        ino._moved_from_events = {}
        ino._moved_from_wds = {}
        ino._is_recursive = True
        ino._path = b"w"
        ino._event_mask = 0
        ino._inotify_fd = -1

        def rec(wd, mask, cookie, name):
            name += b"\0" * (16 - len(name) % 16)
            return struct.pack("iIII", wd, mask, cookie, len(name)) + name

        buf = rec(1, InotifyConstants.IN_MOVED_FROM | InotifyConstants.IN_ISDIR, 7, old[2:]) + \
            rec(1, InotifyConstants.IN_MOVED_TO | InotifyConstants.IN_ISDIR, 7, newname)
        ino._check_inotify_fd = lambda: True
        orig_read = inotify_c.os.read
        try:
            inotify_c.os.read = lambda fd, n, _b=buf: _b  # the one kernel call of this path
            ino.read_events()
        finally:
            inotify_c.os.read = orig_read
        after = {wd: p for p, wd in ino._wd_for_path.items()}
        for i, k in enumerate(keys):
            if k == new and k != old:
                continue  # key overwritten by the destination itself
            wd = i + 1
            got = after.get(wd)
            if got is None:
                continue
            if k == old:
                if got != new:
                    lines.append(f"rekey {enc(old)} {enc(new)} {enc(k)}")
                    impl.append("MOVED-DIR-ITSELF-NOT-REKEYED:" + enc(got))
                continue
            lines.append(f"rekey {enc(old)} {enc(new)} {enc(k)}")
            impl.append(enc(got))
    outs = lean.run(lines)
    bad = []
    for line, o, i in zip(lines, outs, impl):
        res.count()
        res.bump("rekey")
        if o != i:
            bad.append((line, i, o))
        else:
            res.nontrivial(line)
    if lines:
        res.sample({"request": lines[0], "implementation": impl[0], "model": outs[0]})
    return bad


def replay(res, path, lean):
    run(res, "quick", lean)
