"""C18: (a) the real EventDebouncer under the deterministic scheduler against WD.Deb (same scripts,
same schedule: enabled sets, batches with virtual times); (b) AutoRestartTrick / ProcessWatcher /
ShellCommandTrick with subprocess.Popen and kill_process replaced by a simulated process table on the
virtual clock, explored over schedules and judged by the property's trace predicates."""
from __future__ import annotations

import re

import detsched

detsched.install()

import common  # noqa: E402
import explore  # noqa: E402

TICK = 0.125
BASE = 1000.0
INTERVAL_TICKS = 4


def ticks(clock):
    t = (clock - BASE) / TICK
    assert abs(t - round(t)) < 1e-9, clock
    return int(round(t))


# ------------------------------------------------------------------ (a) debouncer

def tokens(script):
    out = []
    for op in script:
        out.append({"event": lambda: f"e{op[1]}", "stop": lambda: "stop", "join": lambda: "join",
                    "sleep": lambda: f"s{op[1]}"}[op[0]]())
    return out


def request(scripts, schedule):
    toks = [f"deb {INTERVAL_TICKS} T {len(scripts)}"]
    for s in scripts:
        t = tokens(s)
        toks += [str(len(t))] + t
    toks += [f"S {len(schedule)}"] + [str(x) for x in schedule]
    return " ".join(toks)


def make_deb_run(scripts, line_preempt=False):
    from watchdog.utils.event_debouncer import EventDebouncer

    def run_one(chooser):
        import time

        sched = detsched.Scheduler(chooser, max_steps=40000 if line_preempt else 2000, line_preempt=line_preempt)
        hist = []

        def cb(events):
            hist.append("batch:[" + ",".join(str(e) for e in events) + f"]@{ticks(time.time())}")

        def mk():
            d = EventDebouncer(INTERVAL_TICKS * TICK, cb)
            d._det_name = "0"
            d.start()
            return d

        deb = sched.create(mk)

        def body(i, script):
            def fn():
                for op in script:
                    if op[0] == "event":
                        deb.handle_event(op[1])
                        hist.append(f"handed:{i}:{op[1]}@{ticks(time.time())}")
                    elif op[0] == "stop":
                        deb.stop()
                        hist.append(f"stopped:{i}@{ticks(time.time())}")
                    elif op[0] == "join":
                        deb.join()
                        hist.append(f"joined:{i}@{ticks(time.time())}")
                    elif op[0] == "sleep":
                        time.sleep(op[1] * TICK)
            return fn

        failure = None
        try:
            sched.run_threads([body(i + 1, s) for i, s in enumerate(scripts)], [str(i + 1) for i in range(len(scripts))])
        except (detsched.Deadlock, detsched.StepLimit) as e:
            failure = e
        steps = " ".join(f"{ticks(clk)}:{','.join(en)}>{ch}" for _n, clk, en, ch, _l in sched.trace)
        alldone = failure is None and all(t.status == "done" for t in sched.order)
        result = {"line": f"{steps} | {' '.join(hist)} | pending={len(deb._events)} done={int(alldone)} clock={ticks(sched.clock)}",
                  "schedule": [int(t[3]) for t in sched.trace], "failure": failure, "uncaught": list(sched.uncaught),
                  "hist": hist, "stuck": list(sched.stuck), "stuck_labels": dict(sched.stuck_labels)}
        return sched, result

    return run_one


def judge_deb(scripts, result):
    """batches concatenated = what was handed in, in order, each once (a suffix may be discarded at
    stop); a batch closes no earlier than `interval` after its last event; nothing delivered after
    stop() returned; the thread exits on stop (join returns)"""
    handed, delivered = [], []
    last_handed_t = {}
    stopped_at = None
    for h in result["hist"]:
        kind, _, rest = h.partition(":")
        body, _, t = rest.rpartition("@")
        t = int(t)
        if kind == "handed":
            v = int(body.split(":")[1])
            handed.append(v)
            last_handed_t[v] = t
        elif kind == "batch":
            vs = [int(x) for x in body.strip("[]").split(",") if x]
            if stopped_at is not None:
                return f"batch {vs} delivered at {t} after stop() had returned at {stopped_at}"
            for v in vs:
                if t < last_handed_t.get(v, 0) + INTERVAL_TICKS:
                    return f"batch {vs} delivered at {t}, less than the interval after event {v} arrived at {last_handed_t[v]}"
            delivered += vs
        elif kind == "stopped":
            stopped_at = t
    if delivered != handed[:len(delivered)]:
        return f"delivered {delivered} is not a prefix of the events handed in {handed}"
    if isinstance(result["failure"], detsched.Deadlock):
        return f"a thread never finished: {result['failure']}"
    if result["uncaught"]:
        return f"uncaught: {result['uncaught']!r}"
    return None


def deb_scenarios(r, thorough):
    S = [
        ("stop-races-start", [[("stop",), ("join",)]]),
        ("event-races-start", [[("event", 1), ("sleep", 9), ("stop",), ("join",)]]),
        ("burst", [[("event", 1), ("sleep", 2), ("event", 2), ("sleep", 4), ("event", 3), ("sleep", 9), ("stop",), ("join",)]]),
        ("two-producers", [[("event", 1), ("sleep", 5), ("event", 2)], [("event", 7), ("sleep", 12), ("stop",), ("join",)]]),
        ("stop-mid-debounce", [[("event", 1), ("sleep", 2), ("stop",), ("join",)]]),
        ("stop-twice", [[("event", 1), ("stop",)], [("sleep", 1), ("stop",), ("join",)]]),
        # stop() arrives at the very instant the debounce interval runs out (batch delivery and stop() race)
        ("stop-at-deadline", [[("event", 1), ("sleep", INTERVAL_TICKS), ("stop",), ("join",)]]),
        ("stop-at-deadline-2", [[("event", 1), ("sleep", 2), ("event", 2)], [("sleep", 2 + INTERVAL_TICKS), ("stop",), ("join",)]]),
    ]
    for i in range(30 if thorough else 8):
        scripts = []
        v = iter(range(1, 100))
        for _ in range(r.randint(1, 2)):
            s = []
            for _ in range(r.randint(1, 4)):
                if r.random() < 0.6:
                    s.append(("event", next(v)))
                else:
                    s.append(("sleep", r.choice([0, 1, 3, 4, 5, 9])))
            scripts.append(s)
        scripts[-1] += [("sleep", r.choice([0, 2, 6, 12])), ("stop",), ("join",)]
        S.append((f"random{i}", scripts))
    return S


# ------------------------------------------------------------------ (b) auto-restart / shell command on a process table

class ProcTable:
    """simulated processes: spawn, self-exit at a scripted virtual time, signals"""

    def __init__(self, sched, log, lifetimes, kill_delay=0):
        self.sched, self.log = sched, log
        self.lifetimes = list(lifetimes)   # lifetime (ticks) of successive children; None = runs until killed
        self.kill_delay = kill_delay       # ticks a child takes to die of a signal other than 9 (it handles the signal)
        self.procs = {}
        self.next_pid = 1000

    def clock(self):
        """virtual time in milliseconds (the tricks poll with 0.1 s / 0.25 s sleeps)"""
        return int(round((self.sched.clock - BASE) * 1000))

    def spawn(self):
        pid = self.next_pid
        self.next_pid += 1
        life = self.lifetimes.pop(0) if self.lifetimes else None
        self.procs[pid] = {"start": self.clock(), "dies": None if life is None else self.clock() + int(life * TICK * 1000),
                           "killed": None}
        self.log.append(f"spawn:{pid}@{self.clock()}")
        return pid

    def alive(self, pid):
        p = self.procs[pid]
        if p["killed"] is not None and self.clock() >= p["killed"]:
            return False
        return p["dies"] is None or self.clock() < p["dies"]

    def alive_all(self):
        return [pid for pid in self.procs if self.alive(pid)]

    def kill(self, pid, sig):
        if not self.alive(pid):
            raise ProcessLookupError(3, "No such process")
        at = self.clock() if sig == 9 else self.clock() + int(self.kill_delay * TICK * 1000)
        old = self.procs[pid]["killed"]
        self.procs[pid]["killed"] = at if old is None else min(old, at)
        self.log.append(f"kill:{pid}:{sig}@{self.clock()}")


def make_trick_run(kind, plan, line_preempt=False):
    """kind 'restart': plan = {'lifetimes': [...], 'threads': [[ops]], 'debounce': ticks};
    ops: ('event',), ('sleep', d), ('stop',), ('start',)"""
    import watchdog.tricks as tricks
    from watchdog.events import FileModifiedEvent

    def run_one(chooser):
        import time

        sched = detsched.Scheduler(chooser, max_steps=60000 if line_preempt else 6000, line_preempt=line_preempt)
        log = []
        table = ProcTable(sched, log, plan.get("lifetimes", []), plan.get("kill_delay", 0))

        class FakePopen:
            def __init__(self, *a, **k):
                self.pid = table.spawn()

            def poll(self):
                return None if table.alive(self.pid) else 0

            def wait(self, timeout=None):
                # Popen.wait(): one visible operation, enabled once the child is dead
                p = table.procs[self.pid]
                ends = [x for x in (p["dies"], p["killed"]) if x is not None]
                dl = None if not ends else detsched._q(BASE + min(ends) / 1000.0)
                sched.block("pred", lambda: not table.alive(self.pid), dl, f"Popen.wait {self.pid}")
                return 0

        def fake_kill(pid, sig):
            table.kill(pid, sig)

        saved = (tricks.subprocess.Popen, tricks.kill_process)
        tricks.subprocess.Popen = FakePopen
        tricks.kill_process = fake_kill
        failure = None
        try:
            if kind == "restart":
                trick = sched.create(lambda: tricks.AutoRestartTrick(
                    ["cmd"], debounce_interval_seconds=plan.get("debounce", 0) * TICK, kill_after=1,
                    restart_on_command_exit=plan.get("restart_on_exit", True)))
            else:
                trick = sched.create(lambda: tricks.ShellCommandTrick(
                    "cmd", wait_for_process=plan.get("wait", False), drop_during_process=plan.get("drop", False)))

            in_stop, workers, tid_of = set(), set(), {}
            helpers_at_stop = []
            if kind == "restart":
                orig_stop_process = trick._stop_process

                def stop_process_probe():
                    me = tid_of.get(detsched._real["get_ident"]())
                    if me in in_stop:
                        workers.add(me)
                    return orig_stop_process()

                trick._stop_process = stop_process_probe

            def body(i, ops):
                def fn():
                    tid_of[detsched._real["get_ident"]()] = i
                    for op in ops:
                        if op[0] == "start":
                            trick.start()
                            log.append(f"started:{i}@{table.clock()}")
                        elif op[0] == "event":
                            trick.dispatch(FileModifiedEvent("/x/f.py"))
                            log.append(f"event-returned:{i}@{table.clock()}")
                        elif op[0] == "stop":
                            # a stop() that finds the trick already stopping returns at once ("the body is only run
                            # once"): the property's obligations attach to the call that does the work, recognised by
                            # its call of _stop_process
                            in_stop.add(i)
                            trick.stop()
                            in_stop.discard(i)
                            worker = i in workers
                            workers.discard(i)
                            if worker and kind == "restart":
                                # "with all its helper threads gone": the library threads (debouncer, process watchers) that
                                # have not ended at the instant the working stop() returns - exact under the scheduler
                                clients = {str(k) for k in range(len(plan["threads"]))}
                                helpers_at_stop.extend(t.name for t in sched.order if t.status != "done" and t.name not in clients)
                            log.append(f"{'stop-returned' if worker or kind != 'restart' else 'stop-noop'}:{i}@{table.clock()}")
                        elif op[0] == "sleep":
                            time.sleep(op[1] * TICK)
                return fn

            try:
                sched.run_threads([body(i, ops) for i, ops in enumerate(plan["threads"])],
                                  [str(i) for i in range(len(plan["threads"]))])
            except (detsched.Deadlock, detsched.StepLimit) as e:
                failure = e
        finally:
            tricks.subprocess.Popen, tricks.kill_process = saved
        result = {"log": log, "failure": failure, "uncaught": list(sched.uncaught), "alive_end": table.alive_all(),
                  "procs": dict(table.procs), "schedule": [t[3] for t in sched.trace], "stuck": list(sched.stuck),
                  "end_clock": table.clock(), "in_stop": sorted(in_stop), "helpers_at_stop": list(helpers_at_stop)}
        if kind == "shell" and not line_preempt and len(plan["threads"]) == 1:
            idx = {t.name: k for k, t in enumerate(sched.order)}
            ms = lambda clk: int(round((clk - BASE) * 1000))
            steps = " ".join(f"{ms(clk)}:{','.join(str(idx[n]) for n in en)}>{idx[ch]}" for _n, clk, en, ch, _l in sched.trace)
            hist = " ".join(re.sub(r"^(spawn|kill):(\d+)", lambda m: f"{m.group(1)}:{int(m.group(2)) - 1000}", e) for e in log)
            alldone = failure is None and all(t.status == "done" for t in sched.order)
            result["line"] = (f"{steps} | {hist} | alive=[{','.join(str(p - 1000) for p in table.alive_all())}] "
                              f"threads={len(sched.order)} done={int(alldone)} clock={ms(sched.clock)}")
            result["sched_idx"] = [idx[t[3]] for t in sched.trace]
        if kind == "restart" and not line_preempt:
            # the same run in the vocabulary of WD.Rst: threads by creation order, pids from 0, times in ms
            idx = {t.name: k for k, t in enumerate(sched.order)}
            ms = lambda clk: int(round((clk - BASE) * 1000))
            steps = " ".join(f"{ms(clk)}:{','.join(str(idx[n]) for n in en)}>{idx[ch]}" for _n, clk, en, ch, _l in sched.trace)
            hist = " ".join(re.sub(r"^(spawn|kill):(\d+)", lambda m: f"{m.group(1)}:{int(m.group(2)) - 1000}", e) for e in log)
            alldone = failure is None and all(t.status == "done" for t in sched.order)
            result["line"] = (f"{steps} | {hist} | alive=[{','.join(str(p - 1000) for p in table.alive_all())}] "
                              f"restarts={trick.restart_count} threads={len(sched.order)} done={int(alldone)} clock={ms(sched.clock)}")
            result["sched_idx"] = [idx[t[3]] for t in sched.trace]
        return sched, result

    return run_one


def rst_request(plan, schedule):
    """the plan and the observed schedule as one line for the Lean driver (`rst`, WD.Driver.Rst)"""
    ms = lambda ticks_: int(round(ticks_ * TICK * 1000))
    toks = [f"rst {ms(plan.get('debounce', 0))} 1000 {ms(plan.get('kill_delay', 0))} {int(plan.get('restart_on_exit', True))}"]
    lifes = plan.get("lifetimes", [])
    toks += [f"L {len(lifes)}"] + ["-" if x is None else str(ms(x)) for x in lifes]
    toks.append(f"T {len(plan['threads'])}")
    for ops in plan["threads"]:
        toks.append(str(len(ops)))
        toks += [f"s{ms(op[1])}" if op[0] == "sleep" else op[0] for op in ops]
    toks += [f"S {len(schedule)}"] + [str(x) for x in schedule]
    return " ".join(toks)


def shell_request(plan, schedule):
    ms = lambda ticks_: int(round(ticks_ * TICK * 1000))
    lifes = plan.get("lifetimes", [])
    ops = plan["threads"][0]
    toks = [f"shell {int(plan.get('wait', False))} {int(plan.get('drop', False))} L {len(lifes)}"]
    toks += ["-" if x is None else str(ms(x)) for x in lifes]
    toks += [f"T {len(ops)}"] + [f"s{ms(op[1])}" if op[0] == "sleep" else op[0] for op in ops]
    toks += [f"S {len(schedule)}"] + [str(x) for x in schedule]
    return " ".join(toks)


def judge_restart(plan, result):
    """never two children alive at once; after stop() returned no child is alive, none is spawned later,
    helper threads are gone (no thread left)"""
    procs = result["procs"]

    def interval(p):
        end = p["killed"] if p["killed"] is not None else p["dies"]
        if p["dies"] is not None and p["killed"] is not None:
            end = min(p["dies"], p["killed"])
        return p["start"], end

    ivs = sorted((interval(p) for p in procs.values()), key=lambda iv: iv[0])
    for (s1, e1), (s2, e2) in zip(ivs, ivs[1:]):
        if e1 is None or s2 < e1:
            return f"two children alive at once: lifetimes {ivs}"
    stop_t = None
    for entry in result["log"]:
        if entry.startswith("stop-returned"):
            stop_t = int(entry.rsplit("@", 1)[1])
            break
    if stop_t is not None:
        for pid, p in procs.items():
            s, e = interval(p)
            if s > stop_t or (s == stop_t and result["log"].index(f"spawn:{pid}@{s}") > result["log"].index(
                    next(x for x in result["log"] if x.startswith("stop-returned")))):
                return f"child {pid} spawned at {s} after stop() had returned at {stop_t}"
            if e is None or e > stop_t:
                return f"child {pid} still alive after stop() returned at {stop_t} (lifetime {s}..{e})"
        if isinstance(result["failure"], detsched.Deadlock):
            return f"threads left after stop(): {result['stuck']}"
    if isinstance(result["failure"], detsched.Deadlock) and result.get("in_stop"):
        # "stop ends all": a stop() that can never return (every thread blocked for good, nothing left to wait for)
        return f"stop() of thread(s) {result['in_stop']} never returns: deadlock, blocked threads {result['stuck']}"
    if result["uncaught"]:
        return f"uncaught: {result['uncaught']!r}"
    return None


def judge_shell(plan, result):
    procs = result["procs"]
    ivs = sorted((p["start"], p["dies"] if p["dies"] is not None else 10**9) for p in procs.values())
    if plan.get("wait") or plan.get("drop"):
        for (s1, e1), (s2, e2) in zip(ivs, ivs[1:]):
            if s2 < e1:
                return f"commands overlap although wait/drop was requested: {ivs}"
    return None


def run(res, tier, lean, proof_breaks=(), build_log=""):
    r = common.rng("c18")
    thorough = tier == "thorough"
    res.cov["rule"] = ("(a) EventDebouncer: producer/stopper scripts with virtual gaps around the debounce interval, all schedules "
                       "within a preemption bound (DFS, capped) + random, each run replayed in WD.Deb and judged; (b) "
                       "AutoRestartTrick and ShellCommandTrick over a simulated process table (children with scripted "
                       "lifetimes) on the virtual clock, schedules explored and judged (one child at a time, nothing after "
                       "stop, no overlap with wait/drop); non-trivial = a batch was delivered / a child was restarted")
    bound = 3 if thorough else 2
    cap = 800 if thorough else 150
    lines, impl, meta = [], [], []
    for name, scripts in deb_scenarios(r, thorough):
        run_one = make_deb_run(scripts)
        info = {}
        runs = list(explore.dfs(run_one, bound, cap, info)) + list(explore.random_runs(run_one, r, 30 if thorough else 8))
        for sched, result in runs:
            lines.append(request(scripts, result["schedule"]))
            impl.append(result["line"])
            meta.append((name, scripts, result))
            res.bump("debouncer_runs")
    outs = lean.run(lines)
    bad, judged = [], []
    for line, o, i, (name, scripts, result) in zip(lines, outs, impl, meta):
        res.count()
        if "batch:" in i:
            res.nontrivial(line)
        v = judge_deb(scripts, result)
        if v:
            judged.append((line, i, o, name, v))
        if o != i:
            bad.append((line, i, o, name))
    res.cov["traces_validated_against_impl"] = len(lines)
    res.sample({"request": lines[0], "implementation": impl[0], "model": outs[0]})

    # (b) tricks
    tjudged = []
    stragglers = []      # runs in which the working stop() returned with a helper thread not yet ended (repaired defect D29)
    plans = [
        ("restart", {"lifetimes": [None, None, None, None], "threads": [[("start",), ("event",), ("event",), ("stop",)]]}),
        ("restart", {"lifetimes": [3, None, None, None], "threads": [[("start",), ("sleep", 3), ("event",), ("sleep", 2), ("stop",)]]}),
        ("restart", {"lifetimes": [2, 2, None, None], "threads": [[("start",), ("sleep", 8), ("stop",)], [("sleep", 2), ("event",)]]}),
        ("restart", {"lifetimes": [None] * 5, "debounce": 2,
                     "threads": [[("start",), ("event",), ("event",), ("sleep", 6), ("stop",)]]}),
        ("restart", {"lifetimes": [None] * 5, "threads": [[("start",), ("sleep", 2), ("stop",)], [("sleep", 1), ("event",), ("event",)]]}),
        ("restart", {"lifetimes": [None] * 5, "threads": [[("start",), ("sleep", 2), ("stop",)], [("sleep", 2), ("event",)]]}),
        ("restart", {"lifetimes": [2, None, None, None], "threads": [[("start",), ("sleep", 2), ("event",), ("sleep", 3), ("stop",)]]}),
        ("restart", {"lifetimes": [2, None, None, None], "threads": [[("start",), ("sleep", 2), ("stop",)]]}),
        # the child exits by itself at the very instant an event arrives (the watcher's 0.1 s poll and the event meet at
        # t = 0.5 s on the quantised virtual clock): the watcher's restart and the event's restart run concurrently
        ("restart", {"lifetimes": [4, None, None, None, None], "threads": [[("start",), ("sleep", 12), ("stop",)], [("sleep", 4), ("event",)]]}),
        ("restart", {"lifetimes": [4, None, None, None, None], "debounce": 2,
                     "threads": [[("start",), ("sleep", 12), ("stop",)], [("sleep", 2), ("event",)]]}),
        ("restart", {"lifetimes": [4, 4, None, None, None, None], "threads": [[("start",), ("sleep", 4), ("event",), ("sleep", 4), ("event",), ("sleep", 4), ("stop",)]]}),
        # an event while start() is still running; stop() while an event's restart is waiting for a slow-dying child
        ("restart", {"lifetimes": [None] * 4, "threads": [[("start",), ("sleep", 4), ("stop",)], [("event",)]]}),
        ("restart", {"lifetimes": [None] * 4, "kill_delay": 3, "threads": [[("start",), ("sleep", 2), ("stop",)], [("sleep", 2), ("event",)]]}),
        ("restart", {"lifetimes": [None] * 4, "kill_delay": 3, "threads": [[("start",), ("sleep", 3), ("stop",)], [("sleep", 2), ("event",)]]}),
        ("restart", {"lifetimes": [None] * 4, "kill_delay": 12, "threads": [[("start",), ("sleep", 3), ("stop",)], [("sleep", 2), ("event",)]]}),
        # stop() at the very instant the watcher notices that the child has exited by itself (both at t = 0.5 s): the
        # watcher's restart and stop() compete for the restart lock
        ("restart", {"lifetimes": [4, None, None, None], "threads": [[("start",), ("sleep", 4), ("stop",)]]}),
        ("restart", {"lifetimes": [4, None, None, None], "debounce": 2, "threads": [[("start",), ("sleep", 4), ("stop",)]]}),
        ("restart", {"lifetimes": [4, 4, None, None], "threads": [[("start",), ("sleep", 8), ("stop",)], [("sleep", 4), ("event",)]]}),
        # start() after stop(), start() racing stop(), start() twice: no helper thread may outlive the stop() that did the work
        ("restart", {"lifetimes": [None] * 4, "debounce": 2, "threads": [[("start",), ("sleep", 2), ("stop",), ("start",), ("sleep", 6)]]}),
        ("restart", {"lifetimes": [None] * 4, "debounce": 2, "threads": [[("start",), ("sleep", 4)], [("stop",)]]}),
        ("restart", {"lifetimes": [None] * 4, "debounce": 2, "threads": [[("start",), ("start",), ("sleep", 2), ("stop",), ("sleep", 6)]]}),
        ("restart", {"lifetimes": [None] * 4, "threads": [[("start",), ("sleep", 4)], [("stop",)], [("event",)]]}),
        ("shell", {"lifetimes": [3, 3, 3], "wait": True, "threads": [[("event",), ("event",), ("sleep", 1), ("event",)]]}),
        ("shell", {"lifetimes": [4, 4, 4], "wait": True, "drop": True,
                   "threads": [[("event",), ("event",)], [("sleep", 1), ("event",), ("sleep", 1), ("event",)]]}),
        ("shell", {"lifetimes": [3, 3, 3], "drop": True, "threads": [[("event",), ("sleep", 1), ("event",), ("sleep", 4), ("event",)]]}),
        # an event in the gap between a command's exit (0.375 s) and its watcher's next poll (0.4 s), then another while the
        # next command runs
        ("shell", {"lifetimes": [3, 3, 3, 3], "drop": True,
                   "threads": [[("event",), ("sleep", 3), ("event",), ("sleep", 1), ("event",), ("sleep", 3), ("event",)]]}),
        ("shell", {"lifetimes": [3, 7, 3, 3], "drop": True,
                   "threads": [[("event",), ("sleep", 3), ("event",), ("sleep", 1), ("event",), ("sleep", 3), ("event",), ("sleep", 8)]]}),
    ]
    # random plans: thread 0 starts, sleeps and finally stops; the others deliver events (and may stop too) at random times
    for _ in range(40 if thorough else 12):
        n_other = r.randint(1, 2)
        t0 = [("start",)]
        for _k in range(r.randint(0, 2)):
            t0.append(r.choice([("event",), ("sleep", r.choice([1, 2, 4, 5]))]))
        t0 += [("sleep", r.choice([2, 4, 8, 12])), ("stop",)]
        threads = [t0]
        for _k in range(n_other):
            ops = [("sleep", r.choice([0, 1, 2, 4]))] if r.random() < 0.8 else []
            for _j in range(r.randint(1, 3)):
                ops.append(r.choice([("event",), ("event",), ("sleep", r.choice([1, 2, 4, 8]))]))
            if r.random() < 0.25:
                ops += [("sleep", r.choice([1, 4, 8])), ("stop",)]
            threads.append(ops)
        plans.append(("restart", {"lifetimes": [r.choice([None, None, 2, 4, 8]) for _k in range(8)],
                                  "debounce": r.choice([0, 0, 2, 4]), "kill_delay": r.choice([0, 0, 2, 3, 12]),
                                  "restart_on_exit": r.random() < 0.85, "threads": threads, "random": True}))
    for _ in range(30 if thorough else 10):
        ops = []
        for _k in range(r.randint(2, 6)):
            ops.append(r.choice([("event",), ("event",), ("sleep", r.choice([0, 1, 2, 3, 4, 8]))]))
        w, d = r.choice([(True, False), (False, True), (True, True), (False, False)])
        plans.append(("shell", {"lifetimes": [r.choice([1, 2, 3, 4, 8]) for _k in range(8)], "wait": w, "drop": d,
                                "threads": [ops + [("sleep", 10)]], "random": True}))
    rlines, rimpl, rmeta = [], [], []
    for kind, plan in plans:
        run_one = make_trick_run(kind, plan)
        info = {}
        if plan.get("random"):
            runs = list(explore.dfs(run_one, 1, 60 if thorough else 15, info)) + list(explore.random_runs(run_one, r, 30 if thorough else 10))
        else:
            runs = list(explore.dfs(run_one, 2, 600 if thorough else 150, info)) + list(explore.random_runs(run_one, r, 100 if thorough else 30))
        for sched, result in runs:
            if "line" in result:
                rlines.append((rst_request if kind == "restart" else shell_request)(plan, result["sched_idx"]))
                rimpl.append(result["line"])
                rmeta.append((plan, result))
        # line-level preemption: interleavings inside the tricks' own (lock-free) check-then-act sequences
        runs += list(explore.random_runs(make_trick_run(kind, plan, line_preempt=True), r,
                                         (30 if thorough else 6) if plan.get("random") else (150 if thorough else 40), 0.15))
        for sched, result in runs:
            res.count()
            res.bump(f"{kind}_runs")
            if len(result["procs"]) > 1:
                res.nontrivial((kind, tuple(result["schedule"])))
            v = (judge_restart if kind == "restart" else judge_shell)(plan, result)
            if v:
                tjudged.append((kind, plan, result, v))
            elif kind == "restart" and result.get("helpers_at_stop"):
                stragglers.append((plan, result))
    # tie of WD.Rst: every run explored without line-level preemption is replayed in the model on the same schedule
    routs = lean.run(rlines) if rlines else []
    rbad = [(l, i, o, plan) for l, i, o, (plan, _res) in zip(rlines, rimpl, routs, rmeta) if i != o]
    res.cov["shell_runs_replayed_in_model"] = sum(1 for l in rlines if l.startswith("shell"))
    res.cov["restart_runs_replayed_in_model"] = len(rlines)
    if rlines:
        res.sample({"request": rlines[0], "implementation": rimpl[0], "model": routs[0]})
    for which, pref, name in (("restart", "rst", "WD.Rst <-> AutoRestartTrick"), ("shell", "shell", "WD.Shell <-> ShellCommandTrick")):
        mine = [b for b in rbad if b[0].startswith(pref + " ")]
        if mine and not any(k == which for k, *_ in tjudged):
            # correspondence broken, no explored run violated the property: search the real class for a failing schedule
            # (one thread parked at every point while the others run on; long sticky stretches; then the same with every
            # source line as a scheduling point), the judge as oracle
            found = None
            for kind, plan in plans:
                if kind != which or plan.get("random"):
                    continue
                for lp in (False, True):
                    run_s = make_trick_run(kind, plan, line_preempt=lp)
                    cand = list(explore.park_runs(run_s, 120 if lp else 200)) + list(explore.random_runs(run_s, r, 40, 0.03))
                    for _sched, result in cand:
                        res.bump("failing_input_search_runs")
                        v = (judge_restart if kind == "restart" else judge_shell)(plan, result)
                        if v:
                            found = (kind, plan, result, v)
                            break
                    if found:
                        break
                if found:
                    break
            if found:
                tjudged.append(found)
                continue
            mine.sort(key=lambda b: len(b[0]))
            l, i, o, plan = mine[0]
            res.violation(f"correspondence {name} broken (the C18 theorems about it are no longer tied to the code); every "
                          "explored run (schedules within the preemption bound, random, line-level preemption) was judged "
                          "against the property's trace predicates and none failed",
                          {"correspondence": f"harness/c18.py vs lean {name.split(' ')[0]}", "plan": plan, "request": l,
                           "implementation": i, "model": o, "mismatching_runs": len(mine)}, no_input=True,
                          signature=f"c18-{pref}-model-mismatch")
    if bad and not judged:
        # correspondence broken, no explored run violated the property: search on the real code with the judge as oracle
        searched = 0
        for name, scripts in deb_scenarios(common.rng("c18"), thorough):
            if not any(b[3] == name for b in bad):
                continue
            runs = list(explore.dfs(make_deb_run(scripts), 3, 400, {})) + \
                list(explore.random_runs(make_deb_run(scripts, line_preempt=True), r, 120, 0.15)) + \
                list(explore.random_runs(make_deb_run(scripts, line_preempt=True), r, 200, 0.02)) + \
                list(explore.park_runs(make_deb_run(scripts, line_preempt=True), 200))
            for sched, result in runs:
                searched += 1
                v = judge_deb(scripts, result)
                if v:
                    judged.append((request(scripts, result["schedule"]), result["line"], "(not replayed)", name, v))
            if judged:
                break
        res.notes["failing_input_search_runs"] = searched
    if judged:
        judged.sort(key=lambda b: len(b[0]))
        line, i, o, name, v = judged[0]
        res.violation(f"EventDebouncer run violates the property: {v}",
                      {"scenario": name, "request": line, "implementation": i, "model": o, "violating_runs": len(judged)},
                      signature="c18-debouncer-judge")
    elif bad:
        bad.sort(key=lambda b: len(b[0]))
        line, i, o, name = bad[0]
        res.violation("correspondence WD.Deb <-> EventDebouncer broken (theorems C18.* no longer tied to the code); every "
                      "explored run was judged against the property's trace predicates and none failed",
                      {"correspondence": "harness/c18.py vs lean WD.Deb", "scenario": name, "request": line,
                       "implementation": i, "model": o, "mismatching_runs": len(bad)}, no_input=True,
                      signature="c18-model-mismatch")
    groups = {}
    for kind, plan, result, v in tjudged:
        if kind == "restart" and v.startswith("two children alive"):
            sig = "c18-autorestart-overlapping-restarts"
        elif kind == "restart" and "after stop()" in v:
            sig = "c18-autorestart-spawn-or-alive-after-stop"
        else:
            sig = f"c18-{kind}-judge"
        groups.setdefault(sig, []).append((kind, plan, result, v))
    for sig, js in groups.items():
        kind, plan, result, v = min(js, key=lambda j: len(j[2]["schedule"]))
        res.violation(f"{'AutoRestartTrick' if kind == 'restart' else 'ShellCommandTrick'} run violates the property: {v}",
                      {"plan": plan, "schedule": result["schedule"], "process_log": result["log"], "violating_runs": len(js)},
                      signature=sig)
    res.cov["runs_with_a_helper_thread_alive_at_stop_return"] = len(stragglers)
    if stragglers:
        # last: other reports look at res.violations
        plan, result = min(stragglers, key=lambda j: len(j[1]["schedule"]))
        res.violation("AutoRestartTrick.stop() returned while helper thread(s) of the trick had not ended yet: "
                      f"{sorted(set(result['helpers_at_stop']))} (\"with all its helper threads gone\")",
                      {"plan": plan, "schedule": result["schedule"], "process_log": result["log"],
                       "helpers_alive_at_stop_return": result["helpers_at_stop"], "such_runs": len(stragglers)},
                      signature="c18-d29-stop-returns-before-a-replaced-watcher-ended")


def replay(res, path, lean):
    run(res, "quick", lean)
