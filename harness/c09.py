"""C09 correspondence: real DirectorySnapshot/DirectorySnapshotDiff (through the injectable
stat/listdir) against the Lean model `WD.diff` and the brute-force spec `WD.Spec.*`."""
from __future__ import annotations

import itertools
import stat as statmod

import common
from common import enc


class VTree:
    """virtual tree: path -> (ino, dev, isdir, mtime, size); children listed in insertion order"""

    def __init__(self, root: str, entries: dict):
        self.root = root
        self.e = entries
        self.stat_calls: list[str] = []

    def stat(self, path):
        self.stat_calls.append(path)
        if path not in self.e:
            raise FileNotFoundError(2, "No such file", path)
        ino, dev, isdir, mtime, size = self.e[path]

        class St:
            st_ino = ino
            st_dev = dev
            st_mode = (statmod.S_IFDIR | 0o755) if isdir else (statmod.S_IFREG | 0o644)
            st_mtime = mtime
            st_size = size

        return St

    def listdir(self, path):
        if path not in self.e:
            raise FileNotFoundError(2, "No such file", path)
        if not self.e[path][2]:
            raise NotADirectoryError(20, "Not a directory", path)
        pre = path + "/"

        class Ent:
            def __init__(self, name):
                self.name = name

        return [Ent(p[len(pre):]) for p in self.e if p.startswith(pre) and "/" not in p[len(pre):]]


def snapshot(tree: VTree, recursive=True):
    from watchdog.utils.dirsnapshot import DirectorySnapshot

    tree.stat_calls = []
    s = DirectorySnapshot(tree.root, recursive=recursive, stat=tree.stat, listdir=tree.listdir)
    order = [p for p in tree.stat_calls]  # root first, then every walked entry, in walk order
    return s, order


def entry_tokens(tree: VTree, order):
    toks = []
    for p in order:
        ino, dev, isdir, mtime, size = tree.e[p]
        toks += [enc(p), str(ino), str(dev), "1" if isdir else "0", str(mtime), str(size)]
    return toks


def fmt_list(l):
    return "[" + ",".join(sorted(enc(x) for x in l)) + "]"


def fmt_pairs(l):
    return "[" + ",".join(sorted(enc(a) + ">" + enc(b) for a, b in l)) + "]"


def impl_line(diff, ref, snap):
    return (f"fc={fmt_list(diff.files_created)} fd={fmt_list(diff.files_deleted)} fm={fmt_list(diff.files_modified)} "
            f"fv={fmt_pairs(diff.files_moved)} dc={fmt_list(diff.dirs_created)} dd={fmt_list(diff.dirs_deleted)} "
            f"dm={fmt_list(diff.dirs_modified)} dv={fmt_pairs(diff.dirs_moved)} "
            f"rp={fmt_list(ref.paths)} sp={fmt_list(snap.paths)}")


def has_dups(diff):
    for name in ("files_created", "files_deleted", "files_modified", "files_moved",
                 "dirs_created", "dirs_deleted", "dirs_modified", "dirs_moved"):
        l = getattr(diff, name)
        if len(l) != len(set(l)):
            return name
    return None


# ---------------------------------------------------------------- generators

PATHS = ["r/a", "r/b", "r/a/a", "r/a/b"]


def small_trees(max_entries: int, inode_pool, data_vals):
    """all trees over PATHS with <= max_entries entries below the root, distinct inodes from the
    pool (the root has inode 100), kinds, and (mtime,size) from data_vals"""
    out = []
    for k in range(0, max_entries + 1):
        for paths in itertools.combinations(PATHS, k):
            # a child needs its parent present
            if any(p.count("/") == 2 and "r/a" not in paths for p in paths):
                continue
            for inos in itertools.permutations(inode_pool, k):
                for kinds in itertools.product([False, True], repeat=k):
                    if any(p.count("/") == 2 for p in paths) and not kinds[paths.index("r/a")]:
                        continue
                    for datas in itertools.product(data_vals, repeat=k):
                        e = {"r": (100, 1, True, 1, 0)}
                        for p, i, kd, d in zip(paths, inos, kinds, datas):
                            e[p] = (i, 1, kd, d[0], d[1])
                        out.append(e)
    return out


def random_tree(r, n, inode_pool, wf=True, dev_choices=(1,)):
    names = ["a", "b", "c", "dd", "e"]
    e = {"r": (r.choice(inode_pool[:3]) + 1000, r.choice(dev_choices), True, r.randint(1, 3), 0)}
    dirs = ["r"]
    used = set()
    for _ in range(n):
        parent = r.choice(dirs)
        p = parent + "/" + r.choice(names)
        if p in e:
            continue
        ino = r.choice(inode_pool)
        if wf and ino in used:
            continue
        used.add(ino)
        isdir = r.random() < 0.4
        e[p] = (ino, r.choice(dev_choices), isdir, r.randint(1, 3), r.randint(0, 2))
        if isdir:
            dirs.append(p)
    return e


def run_cases(res, lean, cases, label):
    """cases: list of (ign, ref_entries, snap_entries, recursive).  Returns mismatches."""
    from watchdog.utils.dirsnapshot import DirectorySnapshotDiff

    lines, impl, metas = [], [], []
    for ign, re_, se_, rec in cases:
        tr, ts = VTree("r", re_), VTree("r", se_)
        ref, ro = snapshot(tr, rec)
        snap, so = snapshot(ts, rec)
        d = DirectorySnapshotDiff(ref, snap, ignore_device=ign)
        line = "snapdiff %d R %d %s S %d %s" % (ign, len(ro), " ".join(entry_tokens(tr, ro)), len(so),
                                                " ".join(entry_tokens(ts, so)))
        lines.append(line)
        out = impl_line(d, ref, snap)
        dup = has_dups(d)
        if dup:
            out += f" DUP={dup}"
        impl.append(out)
        metas.append((ign, re_, se_, rec))
        res.count()
        nontriv = any(getattr(d, n) for n in ("files_created", "files_deleted", "files_modified", "files_moved",
                                               "dirs_created", "dirs_deleted", "dirs_modified", "dirs_moved"))
        if nontriv:
            res.nontrivial(line)
        res.bump(label)
        for n in ("files_moved", "dirs_moved", "files_modified", "dirs_modified", "files_created", "dirs_deleted"):
            if getattr(d, n):
                res.bump("has_" + n)
    outs = lean.run(lines)
    bad = []
    for line, o, i, meta in zip(lines, outs, impl, metas):
        # driver answers "<model lists> | <spec lists or 'nospec'> | wf=<0/1>"
        parts = o.split(" | ")
        model = parts[0]
        spec = parts[1] if len(parts) > 1 else "nospec"
        if model != i:
            bad.append(("model", line, i, model, spec, meta))
        elif spec != "nospec" and spec != i:
            bad.append(("spec", line, i, model, spec, meta))
    if cases:
        res.sample({"request": lines[0], "implementation": impl[0], "model|spec": outs[0]})
    return bad


def run(res, tier, lean, proof_breaks=(), build_log=""):
    r = common.rng("c09")
    res.cov["rule"] = ("pairs of virtual trees fed to the real DirectorySnapshot via stat/listdir; exhaustive small scope "
                       "(4 paths, distinct inodes from a pool, both kinds, 2 data values) + random WF trees + random "
                       "hard-link (non-WF) trees + ignore_device cases; non-trivial = diff non-empty, distinct = distinct "
                       "request line")
    thorough = tier == "thorough"
    trees = small_trees(3 if thorough else 2, [1, 2, 3, 4] if thorough else [1, 2, 3], [(1, 0), (2, 0)])
    cases = []
    # exhaustive pairs of the small scope (quick: capped by sampling the product deterministically)
    pairs = list(itertools.product(range(len(trees)), repeat=2))
    cap = 400000 if thorough else 50000
    exhaustive = len(pairs) <= cap
    if not exhaustive:
        pairs = r.sample(pairs, cap)
    for a, b in pairs:
        cases.append((False, trees[a], trees[b], True))
    res.notes["small_scope_trees"] = len(trees)
    res.notes["small_scope_pairs_exhaustive"] = exhaustive
    bad = run_cases(res, lean, cases, "small_scope")
    cases = []
    n_rand = 20000 if thorough else 3000
    for _ in range(n_rand):
        n = r.choice([3, 6, 12, 40])
        pool = list(range(1, max(6, n)))
        a = random_tree(r, n, pool)
        # mutate: derive b from a by random edits so moves/modifications are frequent
        b = mutate_tree(r, a, pool)
        cases.append((False, a, b, r.random() < 0.85))
    bad += run_cases(res, lean, cases, "random_wf")
    cases = []
    for _ in range(n_rand // 3):
        n = r.choice([3, 6, 12])
        pool = list(range(1, 5))
        cases.append((r.random() < 0.5, random_tree(r, n, pool, wf=False, dev_choices=(1, 2)),
                      random_tree(r, n, pool, wf=False, dev_choices=(1, 2)), True))
    bad += run_cases(res, lean, cases, "random_hardlinks_and_devices")
    cases = []
    for _ in range(n_rand // 3):
        a = random_tree(r, r.choice([3, 6, 12]), list(range(1, 14)))
        b = {p: (v[0], 2, v[2], v[3], v[4]) for p, v in a.items()}  # pure device change
        cases.append((True, a, b, True))
        cases.append((False, a, a, True))
    bad += run_cases(res, lean, cases, "device_change_and_self")
    res.cov["exhaustive"] = bool(exhaustive)
    report(res, bad, lean)


def mutate_tree(r, a, pool):
    b = dict(a)
    keys = [k for k in b if k != "r"]
    for _ in range(r.randint(0, 4)):
        op = r.choice(["del", "mod", "mv", "new", "swap", "reino"])
        keys = [k for k in b if k != "r"]
        if op == "del" and keys:
            k = r.choice(keys)
            for p in [p for p in b if p == k or p.startswith(k + "/")]:
                del b[p]
        elif op == "mod" and keys:
            k = r.choice(keys)
            v = b[k]
            b[k] = (v[0], v[1], v[2], v[3] + 1, v[4] + r.randint(0, 1))
        elif op == "mv" and keys:
            k = r.choice(keys)
            dirs = [d for d in b if b[d][2] and not (d == k or d.startswith(k + "/"))]
            nk = r.choice(dirs) + "/" + r.choice(["a", "b", "c", "x"])
            if nk in b:
                continue
            sub = [p for p in b if p == k or p.startswith(k + "/")]
            for p in sub:
                b[nk + p[len(k):]] = b.pop(p)
        elif op == "new":
            dirs = [d for d in b if b[d][2]]
            nk = r.choice(dirs) + "/" + r.choice(["a", "b", "c", "y"])
            used = {v[0] for v in b.values()}
            free = [i for i in pool if i not in used]
            if nk in b or not free:
                continue
            b[nk] = (r.choice(free), 1, r.random() < 0.3, 1, 1)
        elif op == "swap" and len(keys) >= 2:
            k1, k2 = r.sample(keys, 2)
            if b[k1][2] or b[k2][2]:
                continue
            b[k1], b[k2] = b[k2], b[k1]
        elif op == "reino" and keys:
            k = r.choice(keys)
            used = {v[0] for v in b.values()}
            free = [i for i in pool if i not in used]
            if free:
                v = b[k]
                b[k] = (r.choice(free),) + v[1:]
    return b


def report(res, bad, lean):
    """`spec` mismatch = the implementation's diff is not the one the property describes on a
    well-formed pair: a concrete failing input.  `model` mismatch with matching spec = broken
    correspondence only: search already done (all cases were judged) -> no-failing-input-found."""
    spec_bad = [b for b in bad if b[0] == "spec"]
    model_bad = [b for b in bad if b[0] == "model"]
    # a model mismatch whose spec part disagrees with the implementation is a failing input too
    failing = spec_bad + [b for b in model_bad if b[4] != "nospec" and b[4] != b[2]]
    if failing:
        failing.sort(key=lambda b: len(b[1]))
        kind, line, impl, model, spec, meta = failing[0]
        res.violation(
            "DirectorySnapshotDiff disagrees with the specified diff on a well-formed snapshot pair",
            {"request": line, "implementation": impl, "spec": spec, "model": model,
             "ignore_device": meta[0], "ref_tree": meta[1], "snap_tree": meta[2], "recursive": meta[3],
             "failing_cases": len(failing)},
            signature="c09-spec-mismatch")
    elif model_bad:
        model_bad.sort(key=lambda b: len(b[1]))
        kind, line, impl, model, spec, meta = model_bad[0]
        res.violation(
            "correspondence WD.diff <-> DirectorySnapshotDiff broken (theorems C09.* no longer tied to the code); "
            "every explored case was also judged against the spec and none failed",
            {"correspondence": "harness/c09.py vs lean WD.diff", "request": line, "implementation": impl,
             "model": model, "spec": spec, "mismatching_cases": len(model_bad)},
            no_input=True, signature="c09-model-mismatch")


def replay(res, path, lean):
    import json
    with open(path) as f:
        rp = json.load(f)["replay"]
    bad = run_cases(res, lean, [(rp["ignore_device"], {k: tuple(v) for k, v in rp["ref_tree"].items()},
                                 {k: tuple(v) for k, v in rp["snap_tree"].items()}, rp["recursive"])], "replay")
    report(res, bad, lean)
