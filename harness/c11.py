"""C11: (a) table level — get_event_mask_from_filter evaluated over all 2^13 filters x recursive must be
the OR of the regenerated singleton table (what the Lean theorems quantify over); when a table
theorem no longer checks, the failing (filter class, native record) pair is searched in the tables;
(b) stream level — the real InotifyObserver with one unfiltered and many filtered watches on the same
root over operation histories on the real kernel: every filtered stream must equal the unfiltered
one restricted to the filter's classes, up to collapsing adjacent duplicates."""
from __future__ import annotations

import itertools
import os
import time

import common
import fsops
import tables

NAMES = ["a", "b", "d", "dd"]


def homomorphism_check(res):
    """the mask function is the OR-fold of its singleton values (+ the constant part)"""
    common.use_repo()
    import watchdog.events as ev
    from watchdog.observers.api import EventQueue, ObservedWatch
    from watchdog.observers.inotify import InotifyEmitter

    classes = sorted((c for n, c in vars(ev).items() if isinstance(c, type) and issubclass(c, ev.FileSystemEvent)),
                     key=lambda c: c.__name__)
    bad = []
    for rec in (False, True):
        w = ObservedWatch("/nonexistent-wdverif", recursive=rec)
        single = {c: InotifyEmitter(EventQueue(), w, event_filter=[c]).get_event_mask_from_filter() for c in classes}
        base = InotifyEmitter(EventQueue(), w, event_filter=[]).get_event_mask_from_filter()
        for k in range(len(classes) + 1):
            for sub in itertools.combinations(classes, k):
                m = InotifyEmitter(EventQueue(), w, event_filter=list(sub)).get_event_mask_from_filter()
                exp = base
                for c in sub:
                    exp |= single[c]
                res.count()
                if m != exp:
                    bad.append((rec, [c.__name__ for c in sub], m, exp))
    res.bump("filters_evaluated", 2 * 2 ** len(classes))
    return bad


def table_search():
    """the Lean statements of WD.Props.C11 re-evaluated in Python over the regenerated tables, to name
    the concrete (filter class, record) at which a broken theorem fails"""
    consts, rows, pair_rows, mask_rows, _none, empty = tables.inotify_tables()
    classes = {n: set(sup) for n, _t, _d, sup in tables.event_classes()}

    def accepted(c, e):
        return c in classes.get(e.rstrip("*"), ())

    fails = []
    allm = consts["WATCHDOG_ALL_EVENTS"]
    for kind, isdir, full, rec, root, cls, _st in rows:
        bit = consts[kind]
        if not (allm & bit):
            continue
        for c, mrec, m in mask_rows:
            if mrec == rec and any(accepted(c, e) for e in cls) and not (m & bit):
                fails.append({"theorem": "WD.C11.mask_complete_single", "filter": c, "recursive": rec, "record": kind,
                              "isdir": isdir, "full_events": full, "root": root, "unfiltered_translation": cls, "mask": m})
    for isdir, rec, cls in pair_rows:
        for c, mrec, m in mask_rows:
            if mrec == rec and any(accepted(c, e) for e in cls) and not ((m & consts["IN_MOVED_FROM"]) and (m & consts["IN_MOVED_TO"])):
                fails.append({"theorem": "WD.C11.mask_complete_pair", "filter": c, "recursive": rec, "isdir": isdir,
                              "unfiltered_translation": cls, "mask": m})
    for c, rec, m in mask_rows:
        if bool(m & consts["IN_MOVED_FROM"]) != bool(m & consts["IN_MOVED_TO"]):
            fails.append({"theorem": "WD.C11.pairing_closed", "filter": c, "recursive": rec, "mask": m})
        if not (m & consts["IN_DELETE_SELF"]):
            fails.append({"theorem": "WD.C11.bookkeeping", "filter": c, "recursive": rec, "mask": m, "missing": "IN_DELETE_SELF"})
        if rec and not ((m & consts["IN_CREATE"]) and (m & consts["IN_MOVED_FROM"]) and (m & consts["IN_MOVED_TO"])):
            fails.append({"theorem": "WD.C11.bookkeeping", "filter": c, "recursive": rec, "mask": m,
                          "missing": "IN_CREATE|IN_MOVE"})
        if m & ~allm:
            fails.append({"theorem": "WD.C11.mask_within_default", "filter": c, "recursive": rec, "mask": m})
    return fails


def histories(r, thorough):
    H = [
        [("create", "W/a"), ("write", "W/a"), ("chmod", "W/a"), ("unlink", "W/a")],
        [("mkdir", "W/d"), ("create", "W/d/a"), ("rename", "W/d/a", "W/d/b"), ("unlink", "W/d/b"), ("rmdir", "W/d")],
        [("create", "W/a"), ("rename", "W/a", "O/a"), ("create", "O/b"), ("rename", "O/b", "W/b")],
        [("mkdir", "W/d"), ("mkdir", "W/d/dd"), ("create", "W/d/dd/a"), ("rename", "W/d", "W/dd"), ("create", "W/dd/dd/b")],
        [("mkdir", "O/d"), ("create", "O/d/a"), ("mkdir", "O/d/dd"), ("rename", "O/d", "W/d"), ("create", "W/d/dd/b"),
         ("rename", "W/d", "O/x")],
        [("mkdir", "W/d"), ("create", "W/d/a"), ("rmtree", "W/d"), ("mkdir", "W/d"), ("chmod", "W/d")],
        [("create", "W/a"), ("create", "W/b"), ("rename", "W/a", "W/b"), ("write", "W/b")],
    ]
    for _ in range(40 if thorough else 8):
        h = []
        for _ in range(r.randint(4, 10)):
            k = r.random()
            d = r.choice(["W", "W", "W/d", "W/dd", "W/d/dd", "O"])
            n = r.choice(NAMES)
            if k < 0.2:
                h.append(("create", f"{d}/{n}"))
            elif k < 0.3:
                h.append(("write", f"{d}/{n}"))
            elif k < 0.38:
                h.append(("chmod", f"{d}/{n}"))
            elif k < 0.5:
                h.append(("unlink", f"{d}/{n}"))
            elif k < 0.65:
                h.append(("mkdir", f"{d}/{n}"))
            elif k < 0.72:
                h.append(("rmdir", f"{d}/{n}"))
            elif k < 0.78:
                h.append(("rmtree", f"{d}/{n}"))
            else:
                d2 = r.choice(["W", "W/d", "W/dd", "O"])
                h.append(("rename", f"{d}/{n}", f"{d2}/{r.choice(NAMES)}"))
        H.append(h)
    return H


def stream_runs(res, r, thorough):
    common.use_repo()
    import watchdog.events as ev
    from watchdog.observers.inotify import InotifyObserver

    classes = sorted((c for n, c in vars(ev).items() if isinstance(c, type) and issubclass(c, ev.FileSystemEvent)),
                     key=lambda c: c.__name__)
    filters = [[c] for c in classes] + [[ev.FileDeletedEvent, ev.DirDeletedEvent], [ev.FileCreatedEvent, ev.FileMovedEvent],
                                         [ev.DirModifiedEvent, ev.FileClosedEvent], []]
    bad = []
    for hist in histories(r, thorough):
        for recursive in (True, False):
            for full in ((False, True) if thorough else (False,)):
                uni = fsops.Universe()
                obs = InotifyObserver(generate_full_events=full)
                try:
                    main = fsops.Recorder()
                    obs.schedule(main.handler, uni.root, recursive=recursive)
                    recs = []
                    for f in filters:
                        rc = fsops.Recorder()
                        obs.schedule(rc.handler, uni.root, recursive=recursive, event_filter=f)
                        recs.append(rc)
                    obs.start()
                    applied = []
                    positions = [0] * len(recs)
                    for op in hist:
                        if uni.apply(op):
                            applied.append(op)
                        # directory pacing (C01's condition): every emitter has caught up before the next operation
                        tagged = fsops.full_sentinel(uni, main)
                        fsops.wait_filtered(tagged, recs, filters, positions)
                    time.sleep(0.65)          # pairing delay of unmatched MOVED_FROM
                    tagged = fsops.full_sentinel(uni, main)
                    fsops.wait_filtered(tagged, recs, filters, positions)
                    raws = [x for x in main.events
                            if "__sentinel" not in (os.fsdecode(x.src_path) + os.fsdecode(x.dest_path))]
                    full_stream = main.canon(uni)
                    assert len(raws) == len(full_stream)
                    for f, rc in zip(filters, recs):
                        fset = tuple(f)
                        expect = fsops.collapse([e for e, raw in zip(full_stream, raws) if fset and isinstance(raw, fset)])
                        got = fsops.collapse(rc.canon(uni))
                        res.count()
                        res.bump("stream_comparisons")
                        if expect:
                            res.nontrivial((tuple(applied), recursive, full, tuple(c.__name__ for c in f)))
                        if got != expect:
                            bad.append({"history": applied, "recursive": recursive, "full_events": full,
                                        "filter": [c.__name__ for c in f], "filtered_stream": got,
                                        "unfiltered_restricted": expect})
                finally:
                    obs.stop()
                    obs.join(5)
                    uni.cleanup()
    return bad


def kernel_merge_probe():
    """recorded finding D28: three FILE operations back to back (inside C01's histories) while every reader is held off -
    `mv a f; chmod f; mv O/x f`.  Under a filter whose kernel mask has no IN_ATTRIB the two IN_MOVED_TO records for `f` are
    adjacent in that watch's kernel queue and the kernel merges them (same descriptor, mask, name); the unfiltered watch keeps
    both (the IN_ATTRIB lies between them).  Returns a description of the difference, or None."""
    import threading

    import watchdog.events as ev
    from watchdog.observers import inotify_c
    from watchdog.observers.inotify import InotifyObserver

    gate = threading.Event()
    gate.set()
    real_os = inotify_c.os

    class OsProxy:
        def __getattr__(self, name):
            return getattr(real_os, name)

        def read(self, fd, n):
            gate.wait(10)
            return real_os.read(fd, n)

    uni = fsops.Universe()
    obs = InotifyObserver()
    inotify_c.os = OsProxy()
    try:
        uni.apply(("create", "W/a"))
        uni.apply(("create", "O/x"))
        main, flt = fsops.Recorder(), fsops.Recorder()
        obs.schedule(main.handler, uni.root, recursive=False)
        obs.schedule(flt.handler, uni.root, recursive=False, event_filter=[ev.FileCreatedEvent])
        obs.start()
        time.sleep(0.2)
        gate.clear()
        time.sleep(0.1)          # the readers are now parked in front of their read()
        for op in (("rename", "W/a", "W/f"), ("chmod", "W/f"), ("rename", "O/x", "W/f")):
            uni.apply(op)
        gate.set()
        tagged = fsops.full_sentinel(uni, main)
        fsops.wait_filtered(tagged, [flt], [[ev.FileCreatedEvent]], [0])
        time.sleep(0.65)
        tagged = fsops.full_sentinel(uni, main)
        fsops.wait_filtered(tagged, [flt], [[ev.FileCreatedEvent]], [0])
        want = [e for e in main.canon(uni) if e[0] == "FileCreatedEvent"]
        got = [e for e in flt.canon(uni) if e[0] == "FileCreatedEvent"]
        if fsops.collapse(got) != fsops.collapse(want):
            return {"history": ["rename W/a W/f", "chmod W/f", "rename O/x W/f"], "filter": ["FileCreatedEvent"],
                    "filtered_stream": got, "unfiltered_restricted": want}
        return None
    finally:
        inotify_c.os = real_os
        gate.set()
        obs.stop()
        obs.join(5)
        uni.cleanup()


def run(res, tier, lean, proof_breaks=(), build_log=""):
    r = common.rng("c11")
    thorough = tier == "thorough"
    res.cov["rule"] = ("(a) get_event_mask_from_filter on ALL 2^13 filters x recursive vs the OR of the regenerated singleton "
                       "table (exhaustive); (b) real kernel: one unfiltered + 17 filtered watches (every class, base classes, "
                       "pairs, empty) on one root over fixed + random operation histories (drained after every operation), "
                       "recursive and not; each filtered stream vs the unfiltered stream restricted to the filter, adjacent "
                       "duplicates collapsed; non-trivial = the restricted stream is non-empty")
    hb = homomorphism_check(res)
    fails = table_search() if (proof_breaks or True) else []
    if hb:
        rec, sub, m, exp = hb[0]
        res.violation(f"get_event_mask_from_filter is not the OR of its singleton values: filter {sub} recursive={rec} -> {m}, "
                      f"expected {exp}", {"filter": sub, "recursive": rec, "mask": m, "or_of_singletons": exp,
                                          "failing_filters": len(hb)}, signature="c11-not-or-homomorphism")
    sb = stream_runs(res, r, thorough)
    res.cov["exhaustive"] = True
    res.notes["exhaustive_scope"] = "all 2^13 event filters x recursive for the mask function"
    if fails:
        f = fails[0]
        res.violation(f"the event mask of filter {{{f['filter']}}} misses a native record whose translation the filter accepts "
                      f"(regenerated table refutes {f['theorem']})",
                      {"theorem_no_longer_checks": sorted({x['theorem'] for x in fails}), "witness": f,
                       "failing_table_entries": len(fails), "lean_error": build_log[-1500:] if proof_breaks else ""},
                      signature="c11-table-" + f["theorem"].split(".")[-1])
    if sb:
        sb.sort(key=lambda b: len(b["history"]))
        b = sb[0]
        res.violation(f"filtered watch {b['filter']} (recursive={b['recursive']}) delivered a stream that is not the unfiltered "
                      f"stream restricted to the filter", dict(b, failing_comparisons=len(sb)),
                      signature="c11-stream")
    elif proof_breaks and not fails:
        res.violation("theorems of WD.Props.C11 no longer check against the regenerated tables, and neither the table search "
                      "nor the real-kernel stream comparison found a failing input",
                      {"theorem_no_longer_checks": list(proof_breaks), "lean_error": build_log[-3000:]},
                      no_input=True, signature="c11-proof-break")
    # the input of the recorded finding D28, last (other reports look at res.violations)
    kp = kernel_merge_probe()
    res.count()
    res.bump("recorded_finding_inputs_run")
    if kp:
        res.violation(f"filtered watch {kp['filter']} lost an event of an accepted class in a back-to-back history of file "
                      f"operations: delivered {kp['filtered_stream']}, the unfiltered stream restricted to the filter is "
                      f"{kp['unfiltered_restricted']}", kp, signature="c11-d28-kernel-merge-under-narrowed-mask")
    if sb:
        res.sample(sb[0])
    res.sample({"table_rows": "see lean/WD/Generated/InotifyTables.lean", "table_failures": len(fails)})


def replay(res, path, lean):
    run(res, "quick", lean)
