"""C16 correspondence: the real SkipRepeatsQueue/EventQueue under the deterministic scheduler
against WD.SQ (same scripts, same schedule: enabled sets, history, final state), a sequential
reference-queue comparison, and the event equality/hash law over a generated pool."""
from __future__ import annotations

import itertools

import detsched

detsched.install()

import common  # noqa: E402
import explore  # noqa: E402
from common import enc  # noqa: E402


class Item:
    def __init__(self, uid, val):
        self.uid, self.val = uid, val

    def __eq__(self, other):
        return isinstance(other, Item) and self.val == other.val

    def __ne__(self, other):
        return not self.__eq__(other)

    def __hash__(self):
        return hash(self.val)


def tokens(script):
    return [f"p{op[1]}:{op[2]}" if op[0] == "put" else "g" for op in script]


def request(scripts, schedule):
    toks = [f"sq T {len(scripts)}"]
    for s in scripts:
        st = tokens(s)
        toks.append(str(len(st)))
        toks += st
    toks.append(f"S {len(schedule)}")
    toks += [str(x) for x in schedule]
    return " ".join(toks)


def make_run(scripts):
    from watchdog.observers.api import EventQueue
    from watchdog.utils.bricks import SkipRepeatsQueue

    if not isinstance(SkipRepeatsQueue.__dict__.get("_last_item"), detsched.Yielding):
        SkipRepeatsQueue._last_item = detsched.Yielding(
            "_last_item", on=("get", "set"),
            guard=lambda obj, s: getattr(obj.mutex, "_owner", None) is not s.me())

    def run_one(chooser):
        sched = detsched.Scheduler(chooser, max_steps=3000)
        q = sched.create(EventQueue)
        hist = []
        items = {}

        def body(tid, script):
            def fn():
                for op in script:
                    if op[0] == "put":
                        it = items.setdefault(op[1], Item(op[1], op[2]))
                        q.put(it)
                    else:
                        q.get()
            return fn

        # observe enqueue/drop without touching the class under test: wrap the instance's _put and put
        real_put_hook = q._put

        def _put(item, _orig=real_put_hook):
            _orig(item)
            hist.append(f"enq:{sched.me().name}:{item.uid}")

        q._put = _put
        real_get_hook = q._get

        def _get(_orig=real_get_hook):
            item = _orig()
            hist.append(f"got:{sched.me().name}:{item.uid}")   # logged at the moment of the dequeue
            return item

        q._get = _get
        real_put = q.put

        def put(item, block=True, timeout=None, _orig=real_put):
            me = sched.me().name
            _orig(item, block, timeout)
            if f"enq:{me}:{item.uid}" not in hist:
                # dropped: between the comparing load and this point there is no visible operation,
                # so _last_item still holds what the item was compared with
                ref = q.__dict__.get("_detv__last_item")
                hist.append(f"dropped:{me}:{item.uid}:{ref.uid if ref is not None else 'None'}")

        q.put = put
        failure = None
        try:
            sched.run_threads([body(i, s) for i, s in enumerate(scripts)], [str(i) for i in range(len(scripts))])
        except (detsched.Deadlock, detsched.StepLimit) as e:
            failure = e
        steps = " ".join(f"{','.join(en)}>{ch}" for _n, _clk, en, ch, _l in sched.trace)
        alldone = failure is None and all(t.status == "done" for t in sched.order)
        qs = ",".join(str(x.uid) for x in q.queue)
        last = q.__dict__.get("_detv__last_item")
        result = {
            "line": f"{steps} | {' '.join(hist)} | q=[{qs}] last={last.uid if last is not None else 'None'} done={int(alldone)}",
            "schedule": [int(t[3]) for t in sched.trace], "failure": failure, "uncaught": list(sched.uncaught),
            "hist": hist, "final_queue": [x.uid for x in q.queue],
        }
        return sched, result

    return run_one


def judge(scripts, result):
    """C16 as predicates over one observed run: consumer output ++ final queue = enqueue order;
    every dropped item compared equal to an item that was enqueued and not yet consumed at some point
    (we check: it was enqueued before the drop and its value equals); nothing else lost"""
    vals = {}
    for s in scripts:
        for op in s:
            if op[0] == "put":
                vals[op[1]] = op[2]
    enq, got, dropped = [], [], []
    for h in result["hist"]:
        f = h.split(":")
        if f[0] == "enq":
            enq.append(int(f[2]))
        elif f[0] == "got":
            got.append(int(f[2]))
        elif f[0] == "dropped":
            if f[3] == "None":
                return f"put({f[2]}) dropped although nothing was pending"
            x, y = int(f[2]), int(f[3])
            if vals[x] != vals[y]:
                return f"put({x}) dropped against a different item {y}"
            if y not in enq:
                return f"put({x}) dropped against {y} which was never enqueued"
            if y in got:
                return f"put({x}) dropped against {y} which had already been taken out of the queue"
            if enq[-1] != y:
                return f"put({x}) dropped against {y} although {enq[-1]} was enqueued after it"
            dropped.append(x)
    if got + result["final_queue"] != enq:
        return f"FIFO/no-loss broken: got {got} + queue {result['final_queue']} != enqueued {enq}"
    puts = [op[1] for s in scripts for op in s if op[0] == "put"]
    done_puts = len(enq) + len(dropped)
    if result["failure"] is None and done_puts != len(puts):
        return f"{len(puts)} puts but {len(enq)} enqueued + {len(dropped)} dropped"
    return None


def seq_reference(r, res, n):
    """sequential put/get sequences over a 3-value alphabet against the obvious reference queue
    (exhaustive up to length 7 + random longer)"""
    from watchdog.utils.bricks import SkipRepeatsQueue

    bad = []
    seqs = []
    for ln in range(1, 8):
        seqs += list(itertools.product(["a", "b", "c", "g"], repeat=ln)) if ln <= 6 else []
    for _ in range(n):
        seqs.append(tuple(r.choice("aabcg") for _ in range(r.randint(7, 30))))
    for seq in seqs:
        q = SkipRepeatsQueue()
        ref, out, ref_out = [], [], []
        extra = False
        for k, op in enumerate(seq):
            if op == "g":
                if ref:
                    ref_out.append(ref.pop(0))
                    out.append(q.get_nowait().val)
                elif not q.empty():
                    extra = True
            else:
                if not ref or ref[-1] != op:
                    ref.append(op)
                q.put(Item(k, op))   # a distinct object per put, as with real events
        rest = []
        while not q.empty():
            rest.append(q.get_nowait().val)
        if extra:
            rest.append("EXTRA-ITEM")
        res.count()
        res.bump("sequential")
        if len(set(seq) - {"g"}) > 1:
            res.nontrivial(("seq", seq))
        if out != ref_out or rest != ref:
            bad.append((seq, out + rest, ref_out + ref))
    return bad


def seq_events(r, res, n):
    """the same sequential comparison with REAL event objects on the real EventQueue: events that differ only in
    `dest_path`, only in `is_synthetic`, only in class or only in the watch they belong to are different items"""
    import watchdog.events as ev
    from watchdog.observers.api import EventQueue, ObservedWatch

    w1, w2 = ObservedWatch("/w1", recursive=True), ObservedWatch("/w2", recursive=True)
    pool = {
        "a": (lambda: ev.FileMovedEvent("x", "y"), w1), "b": (lambda: ev.FileMovedEvent("x", "z"), w1),
        "c": (lambda: ev.FileCreatedEvent("x"), w1), "d": (lambda: ev.FileCreatedEvent("x", is_synthetic=True), w1),
        "e": (lambda: ev.DirCreatedEvent("x"), w1), "f": (lambda: ev.FileCreatedEvent("x"), w2),
        "h": (lambda: ev.FileMovedEvent("x", "y", is_synthetic=True), w1),
    }
    seqs = []
    for ln in range(1, 5):
        seqs += list(itertools.product(list(pool) + ["g"], repeat=ln)) if ln <= 3 else []
    for _ in range(n):
        seqs.append(tuple(r.choice(list(pool) * 2 + ["g"]) for _ in range(r.randint(4, 14))))
    bad = []
    for seq in seqs:
        q = EventQueue()
        ref, out, ref_out = [], [], []
        names = {}
        for op in seq:
            if op == "g":
                if ref:
                    ref_out.append(ref.pop(0))
                    out.append("LOST" if q.empty() else names.get(id(q.get_nowait()), "?"))
            else:
                mk, w = pool[op]
                item = (mk(), w)          # a fresh, equal object per put
                names[id(item)] = op
                if not ref or ref[-1] != op:
                    ref.append(op)
                q.put(item)
                names[id(item)] = op
        rest = []
        while not q.empty():
            rest.append(names.get(id(q.get_nowait()), "?"))
        res.count()
        res.bump("sequential_events")
        if len(set(seq) - {"g"}) > 1:
            res.nontrivial(("seqev", seq))
        if out != ref_out or rest != ref:
            bad.append((seq, out + rest, ref_out + ref))
    return bad


def event_equality(res, lean):
    """equality and hash of event objects = same class and same field values, over a pool"""
    import watchdog.events as ev

    classes = sorted(n for n, c in vars(ev).items() if isinstance(c, type) and issubclass(c, ev.FileSystemEvent))
    pool = []
    for c in classes:
        for src in ["a", "b", b"a"]:
            for dst in ["", "b"]:
                for syn in [False, True]:
                    pool.append((c, src, dst, syn, getattr(ev, c)(src, dst, is_synthetic=syn)))
    lines, impl = [], []
    for (c1, s1, d1, y1, e1), (c2, s2, d2, y2, e2) in itertools.product(pool, repeat=2):
        def t(x):
            return ("b:" if isinstance(x, bytes) else "s:") + enc(x)
        lines.append(f"eveq {c1} {t(s1)} {t(d1)} {int(y1)} {c2} {t(s2)} {t(d2)} {int(y2)}")
        eq = e1 == e2
        if eq and hash(e1) != hash(e2):
            impl.append("1-HASH-DIFFERS")
        elif (e1 != e2) == eq:
            impl.append("NE-INCONSISTENT")
        else:
            impl.append("1" if eq else "0")
    outs = lean.run(lines)
    bad = []
    for line, o, i in zip(lines, outs, impl):
        res.count()
        res.bump("event_equality_pairs")
        if i == "1":
            res.nontrivial(line)
        if o != i:
            bad.append((line, i, o))
    return bad


def scenarios(r, thorough):
    out = [
        ("dup-race", [[("put", 1, 5), ("put", 2, 5)], [("get",)]]),
        ("two-producers-same", [[("put", 1, 5)], [("put", 2, 5)], [("get",), ("get",)]]),
        ("three-producers", [[("put", 1, 5), ("put", 4, 6)], [("put", 2, 5)], [("put", 3, 6)], [("get",), ("get",)]]),
        ("separated", [[("put", 1, 5), ("put", 2, 6), ("put", 3, 5)], [("get",), ("get",), ("get",)]]),
    ]
    for i in range(40 if thorough else 10):
        uid = itertools.count(1)
        np_ = r.randint(1, 3)
        scripts = [[("put", next(uid), r.randint(5, 6)) for _ in range(r.randint(1, 3))] for _ in range(np_)]
        total = sum(len(s) for s in scripts)
        scripts.append([("get",)] * r.randint(0, max(1, total - 2)))
        out.append((f"random{i}", scripts))
    return out


def run(res, tier, lean, proof_breaks=(), build_log=""):
    r = common.rng("c16")
    thorough = tier == "thorough"
    res.cov["rule"] = ("(a) up to three producers + one consumer on the real EventQueue under all schedules within a preemption "
                       "bound (DFS, capped) + random schedules, each replayed in WD.SQ; (b) all sequential put/get sequences "
                       "over {a,b,c} up to length 6 + random longer ones against the reference queue; (c) all pairs of a "
                       "pool of event objects (every class x str/bytes paths x dest x synthetic) for the equality/hash law")
    bound = 3 if thorough else 2
    cap = 1200 if thorough else 200
    lines, impl, meta = [], [], []
    exhausted_all = True
    for name, scripts in scenarios(r, thorough):
        run_one = make_run(scripts)
        info = {}
        runs = list(explore.dfs(run_one, bound, cap, info))
        exhausted_all &= info.get("exhausted", False)
        runs += list(explore.random_runs(run_one, r, 40 if thorough else 10))
        for sched, result in runs:
            lines.append(request(scripts, result["schedule"]))
            impl.append(result["line"])
            meta.append((name, scripts, result))
            res.bump("concurrent_runs")
    outs = lean.run(lines)
    bad, judged = [], []
    for line, o, i, (name, scripts, result) in zip(lines, outs, impl, meta):
        res.count()
        if "dropped" in i or "got" in i:
            res.nontrivial(line)
        if "dropped" in i:
            res.bump("runs_with_a_drop")
        if result["failure"] is not None or result["uncaught"]:
            # a consumer may legitimately stay blocked when fewer items are enqueued than gets were scripted
            if not isinstance(result["failure"], detsched.Deadlock) or result["uncaught"]:
                judged.append((line, i, o, name, scripts, f"{result['failure']!r} {result['uncaught']!r}"))
        v = judge(scripts, result)
        if v:
            judged.append((line, i, o, name, scripts, v))
        if o != i:
            bad.append((line, i, o, name, scripts))
    res.cov["traces_validated_against_impl"] = len(lines)
    res.notes["dfs_exhausted_within_bound"] = exhausted_all
    res.notes["preemption_bound"] = bound
    res.sample({"request": lines[0], "implementation": impl[0], "model": outs[0]})
    seq_bad = seq_reference(r, res, 3000 if thorough else 500)
    seq_bad += seq_events(r, res, 2000 if thorough else 400)
    eq_bad = event_equality(res, lean)
    if judged:
        judged.sort(key=lambda b: len(b[0]))
        line, i, o, name, scripts, v = judged[0]
        res.violation(f"EventQueue run violates the property: {v}",
                      {"scenario": name, "scripts": scripts, "request": line, "implementation": i, "model": o,
                       "violating_runs": len(judged)}, signature="c16-judge")
    if seq_bad:
        seq, got, ref = min(seq_bad, key=lambda b: len(b[0]))
        res.violation(f"sequential put/get sequence {''.join(seq)} delivers {got}, reference queue {ref}",
                      {"sequence": list(seq), "implementation": got, "reference": ref, "failing": len(seq_bad)},
                      signature="c16-sequential")
    if eq_bad:
        line, i, o = eq_bad[0]
        res.violation(f"event equality/hash law broken: {line} implementation {i} model {o}",
                      {"request": line, "implementation": i, "model": o, "failing_pairs": len(eq_bad)},
                      signature="c16-event-eq")
    if bad and not judged:
        bad.sort(key=lambda b: len(b[0]))
        line, i, o, name, scripts = bad[0]
        res.violation("correspondence WD.SQ <-> SkipRepeatsQueue broken (theorems C16.* no longer tied to the code); every "
                      "explored run was judged against the property's trace predicates and none failed",
                      {"correspondence": "harness/c16.py vs lean WD.SQ.step", "scenario": name, "scripts": scripts,
                       "request": line, "implementation": i, "model": o, "mismatching_runs": len(bad)},
                      no_input=True, signature="c16-model-mismatch")


def replay(res, path, lean):
    run(res, "quick", lean)
