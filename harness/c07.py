"""C07 — monitoring never silently dies: the native pipeline on the real kernel against WD.Pipe (harness/pipe_check.py:
histories incl. operations on entries that left the tree, bursts with the reader held off, transient faults), the polling
emitter when its root becomes unreadable in any way, and API call sequences on the real BaseObserver under the
deterministic scheduler (no library thread may die of an uncaught exception)."""
import c10
import obs_check
import pipe_check


def polling_root_gone(res):
    """whatever makes the root unreadable (removed, replaced by a file, permissions, I/O error): exactly one
    DirDeletedEvent(root), the emitter stops, nothing is raised"""
    base = c10.mk("r", 1, True, children=[c10.mk("a", 2), c10.mk("d", 3, True, children=[c10.mk("b", 4)])])
    for recursive in (True, False):
        for err in c10.ERRNO:
            gone = c10.Node("r", err, [])
            line = c10.run_case([base, gone], recursive)
            res.count()
            res.bump("polling_root_unreadable")
            res.nontrivial(("polling-root", recursive, err))
            if "ROOTGONE" not in line or "RAISED" in line:
                res.violation(f"polling emitter, root stat fails with {err}: expected one DirDeletedEvent(root) and a clean stop, "
                              f"got: {line}", {"root_stat_error": err, "recursive": recursive, "trace": line},
                              signature="c07-polling-root")
                return
        # the root is really gone (no entry at all)
        line = c10.run_case([base, c10.mk("other", 9, True)], recursive)
        res.count()
        if "ROOTGONE" not in line or "RAISED" in line:
            res.violation(f"polling emitter, root removed: expected one DirDeletedEvent(root) and a clean stop, got: {line}",
                          {"recursive": recursive, "trace": line}, signature="c07-polling-root")
            return


def run(res, tier, lean, proof_breaks=(), build_log=""):
    pipe_check.run(res, tier, lean, prop="C07", proof_breaks=proof_breaks, build_log=build_log)
    polling_root_gone(res)
    obs_check.run(res, tier, lean, prop="C07", proof_breaks=proof_breaks, build_log=build_log)


def replay(res, path, lean):
    run(res, "quick", lean)
