"""C07 — see harness/pipe_check.py (shared native-pipeline correspondence on the real kernel)"""
import pipe_check


def run(res, tier, lean, proof_breaks=(), build_log=""):
    pipe_check.run(res, tier, lean, prop="C07", proof_breaks=proof_breaks, build_log=build_log)


def replay(res, path, lean):
    run(res, "quick", lean)
