"""The native inotify pipeline on the real kernel, one drained operation at a time, against WD.Pipe.
Shared by C01 (replay), C02 (coverage probes), C03 (per-operation contract = model equality, and
soundness), C07 (no silent death), C19 (path types and names)."""
from __future__ import annotations

import os
import threading
import time

import common
import fsops

NAMES = ["a", "b", "d", "dd"]
DIRS = ["W", "W/d", "W/dd", "W/d/dd", "W/d/d", "O", "O/d"]


def op_token(op):
    return ":".join(op)


def request(init_ops, ops, recursive, full):
    return (f"pipe {int(recursive)} {int(full)} I {len(init_ops)} " + " ".join(op_token(o) for o in init_ops) +
            f" O {len(ops)} " + " ".join(op_token(o) for o in ops)).replace("  ", " ")


def canon_events(evs):
    """same canonical form as the Lean driver: runs of synthetic events sorted, adjacent duplicates collapsed"""
    out, run = [], []
    for cls, s, d, syn in evs:
        txt = f"{cls}:{s}" + (f">{d}" if d else "") + ("*" if syn else "")
        if syn:
            run.append(txt)
        else:
            out += sorted(run) + [txt]
            run = []
    out += sorted(run)
    res = []
    for x in out:
        if not res or res[-1] != x:
            res.append(x)
    return res


class Run:
    """one observer on one scratch universe"""

    def __init__(self, recursive=True, full=False, as_bytes=False, root_spelling=None):
        from watchdog.observers.inotify import InotifyObserver

        self.uni = fsops.Universe(as_bytes=as_bytes)
        self.recursive, self.full = recursive, full
        self.rec = fsops.Recorder()
        self.obs = InotifyObserver(generate_full_events=full)
        self.thread_errors = []
        self._old_hook = threading.excepthook
        threading.excepthook = lambda args: self.thread_errors.append(f"{args.thread.name}: {args.exc_type.__name__}: {args.exc_value}")
        self.root_arg = root_spelling(self.uni) if root_spelling else self.uni.root
        self.started = False

    def start(self):
        self.obs.schedule(self.rec.handler, self.root_arg, recursive=self.recursive)
        self.obs.start()
        self.started = True

    def root_exists(self):
        return os.path.isdir(self.uni.p("W"))

    def step(self, op):
        """apply op and drain; returns (applied, canonical events of this operation)"""
        start = len(self.rec.events)
        self.last_op = op
        if op[0] == "rmtree":
            # tell the model in which order the listing makes shutil.rmtree remove the entries
            self.last_op = ("rmtree", op[1], ",".join(self.uni.rmtree_order(op[1])))
        applied = self.uni.apply(op)
        if self.root_exists():
            if not fsops.drain(self.uni, self.rec, timeout=8.0):
                return applied, None
            if op[0] == "rename":
                # a directory that left the tree is un-watched by the emitter; the kernel's IGNORED answers
                # are queued behind the first sentinel: a second round lets the reader see them, too
                n_before = len(self.rec.events)
                if not fsops.drain(self.uni, self.rec, timeout=8.0):
                    return applied, None
                del n_before
        else:
            time.sleep(0.4)
        evs = []
        for e in self.rec.events[start:]:
            s, d = self.uni.rel(e.src_path), self.uni.rel(e.dest_path)
            if "__sentinel" in s or "__sentinel" in d:
                break           # everything from the sentinel's first event on belongs to the drain
            evs.append((type(e).__name__, s, d, bool(e.is_synthetic)))
        return applied, evs

    def stop(self):
        try:
            self.obs.stop()
            self.obs.join(5)
        finally:
            threading.excepthook = self._old_hook
            self.uni.cleanup()


def run_history(init_ops, ops, recursive=True, full=False, as_bytes=False, probes=False):
    """returns dict(line, applied ops, per-op events, final tree, thread errors, raw events, probe results)"""
    r = Run(recursive, full, as_bytes)
    try:
        init_applied = [op for op in init_ops if r.uni.apply(op)]
        initial_tree = r.uni.tree("W")
        r.start()
        applied, per_op = [], []
        timeout = False
        for op in ops:
            ok, evs = r.step(op)
            if evs is None:
                timeout = True
                break
            if ok:
                applied.append(r.last_op)
                per_op.append(evs)
            elif evs:
                # a refused operation must not produce events; keep them visible
                applied.append(r.last_op)
                per_op.append(evs)
        tree = r.uni.tree("W") if r.root_exists() else {}
        probe_results = []
        if probes and r.root_exists() and not timeout:
            dirs = ["W"] + sorted(p for p, k in tree.items() if k == "d")
            for d in dirs:
                pr = f"{d}/__probe"
                ok, evs = r.step(("create", pr))
                seen = evs is not None and any(c == "FileCreatedEvent" and s == pr for c, s, _d, _y in evs)
                depth = d.count("/")
                probe_results.append((d, depth, seen))
                r.step(("unlink", pr))
        raw = [(type(e).__name__, e.src_path, e.dest_path, bool(e.is_synthetic)) for e in r.rec.events]
        tree_s = "[" + ",".join(sorted(p + ("/" if k == "d" else "") for p, k in tree.items() if "__probe" not in p)) + "]"
        stopped = int(bool(r.obs.emitters) and not any(e.is_alive() for e in r.obs.emitters)) if r.started else 0
        line = " ; ".join(",".join(canon_events(e)) for e in per_op) + f" | tree={tree_s}"
        return {"line": line, "init": init_applied, "applied": applied, "per_op": per_op, "tree": tree,
                "initial_tree": initial_tree, "thread_errors": list(r.thread_errors), "raw": raw, "timeout": timeout,
                "probes": probe_results, "root_type": type(r.root_arg).__name__, "emitter_stopped": stopped,
                "root_gone": not r.root_exists()}
    finally:
        r.stop()


def strip_flags(model_line):
    head, _, tail = model_line.partition(" | tree=")
    tree = tail.split(" stopped=")[0]
    flags = tail[len(tree):]
    return head + " | tree=" + tree, flags


# ------------------------------------------------------------------ judges

def replay_judge(result, recursive):
    """C01: applying the delivered created/deleted/moved events, in order, to the initial tree gives the final tree
    (non-recursive: the root's direct children)"""
    tree = {p: k for p, k in result["initial_tree"].items() if recursive or p.count("/") == 1}
    for evs in result["per_op"]:
        for cls, s, d, _syn in evs:
            kind = "d" if cls.startswith("Dir") else "f"
            if cls.endswith("CreatedEvent"):
                tree[s] = kind
            elif cls.endswith("DeletedEvent"):
                for p in [p for p in tree if p == s or p.startswith(s + "/")]:
                    del tree[p]
            elif cls.endswith("MovedEvent"):
                if s:
                    for p in [p for p in tree if p == s or p.startswith(s + "/")]:
                        del tree[p]
                if d:
                    tree[d] = kind
    final = {p: k for p, k in result["tree"].items() if (recursive or p.count("/") == 1) and "__probe" not in p}
    tree = {p: k for p, k in tree.items() if p.startswith("W/") and "__probe" not in p}
    if tree != final:
        extra = sorted(set(tree.items()) - set(final.items()))
        missing = sorted(set(final.items()) - set(tree.items()))
        return f"replayed tree differs from the tree on disk: replay has extra {extra}, lacks {missing}"
    return None


def gen_history(r, n, allow_outside_ops=False, tree=None):
    """mostly-valid operations: the generator keeps its own picture of the tree (W and O) and draws
    operations that are applicable in it (plus ~10% blind ones), inside the watched tree W and — less
    often — in the outside directory O, including what has been moved out of W and back"""
    tree = dict(tree) if tree else {"W": "d", "O": "d"}
    ops = []
    tainted = set()

    def dirs(prefixes=("W", "O")):
        return [p for p, k in tree.items() if k == "d" and p.split("/")[0] in prefixes
                and not any(p == t or p.startswith(t + "/") for t in tainted)]

    def files():
        return [p for p, k in tree.items() if k == "f" and not any(p.startswith(t + "/") for t in tainted)]

    def subtree(p):
        return [q for q in tree if q == p or q.startswith(p + "/")]

    for _ in range(n):
        if r.random() < 0.1:
            d, nme = r.choice(DIRS), r.choice(NAMES)
            op = r.choice([("create", f"{d}/{nme}"), ("unlink", f"{d}/{nme}"), ("rmdir", f"{d}/{nme}"), ("mkdir", f"{d}/{nme}")])
            # apply to our picture only if valid
            par = op[1].rsplit("/", 1)[0]
            if op[0] in ("create", "mkdir") and tree.get(par) == "d" and op[1] not in tree:
                tree[op[1]] = "f" if op[0] == "create" else "d"
            elif op[0] == "unlink" and tree.get(op[1]) == "f":
                del tree[op[1]]
            elif op[0] == "rmdir" and tree.get(op[1]) == "d" and len(subtree(op[1])) == 1:
                del tree[op[1]]
            ops.append(op)
            continue
        k = r.random()
        ds = dirs(("W",) if r.random() < 0.8 else ("W", "O"))
        fs_ = [f for f in files() if f.startswith("W/") or r.random() < 0.25]
        if k < 0.2 and ds:
            p = r.choice(ds) + "/" + r.choice(NAMES)
            if p not in tree:
                tree[p] = "f"
                ops.append(("create", p))
        elif k < 0.3 and fs_:
            ops.append(("write", r.choice(fs_)))
        elif k < 0.37:
            cand = [p for p in list(fs_) + ds if p.count("/") >= 1]
            if cand:
                ops.append(("chmod", r.choice(cand)))
        elif k < 0.47 and fs_:
            p = r.choice(fs_)
            del tree[p]
            ops.append(("unlink", p))
        elif k < 0.62 and ds:
            p = r.choice(ds) + "/" + r.choice(NAMES)
            if p not in tree:
                tree[p] = "d"
                ops.append(("mkdir", p))
        elif k < 0.68:
            cand = [d for d in ds if d.count("/") >= 1 and len(subtree(d)) == 1]
            if cand:
                p = r.choice(cand)
                del tree[p]
                ops.append(("rmdir", p))
        elif k < 0.73:
            cand = [d for d in ds if d.count("/") >= 1]
            if cand:
                p = r.choice(cand)
                for q in subtree(p):
                    del tree[q]
                ops.append(("rmtree", p))
        else:
            cand = [p for p in list(fs_) + ds if p.count("/") >= 1]
            dds = dirs(("W", "O"))
            if cand and dds:
                s_ = r.choice(cand)
                dpar = r.choice(dds)
                d_ = dpar + "/" + r.choice(NAMES)
                if d_ == s_ or d_.startswith(s_ + "/") or dpar == s_ or dpar.startswith(s_ + "/"):
                    continue
                if d_ in tree:
                    # replace: same kind, a directory only if empty
                    if tree[d_] != tree[s_] or (tree[d_] == "d" and len(subtree(d_)) > 1):
                        continue
                    del tree[d_]
                moved = {q: tree[q] for q in subtree(s_)}
                for q in moved:
                    del tree[q]
                for q, kk in moved.items():
                    tree[d_ + q[len(s_):]] = kk
                ops.append(("rename", s_, d_))
    return ops


def tree_after(tree, ops):
    """the generator's own picture of the tree after `ops` (only operations valid in it take effect)"""
    t = dict(tree)
    for op in ops:
        k = op[0]
        if k in ("create", "mkdir"):
            par = op[1].rsplit("/", 1)[0]
            if t.get(par) == "d" and op[1] not in t:
                t[op[1]] = "f" if k == "create" else "d"
        elif k == "unlink" and t.get(op[1]) == "f":
            del t[op[1]]
        elif k == "rmdir" and t.get(op[1]) == "d" and not any(q.startswith(op[1] + "/") for q in t):
            del t[op[1]]
        elif k == "rmtree" and t.get(op[1]) == "d":
            for q in [q for q in t if q == op[1] or q.startswith(op[1] + "/")]:
                del t[q]
        elif k == "rename" and op[1] in t:
            s_, d_ = op[1], op[2]
            if t.get(d_.rsplit("/", 1)[0]) != "d":
                continue
            if d_ in t:
                if t[d_] != t[s_] or any(q.startswith(d_ + "/") for q in t):
                    continue
                del t[d_]
            moved = {q: t[q] for q in t if q == s_ or q.startswith(s_ + "/")}
            for q in moved:
                del t[q]
            for q, kk in moved.items():
                t[d_ + q[len(s_):]] = kk
    return t


FIXED = [
    # D13: a directory that left the tree and came back under another name, then its old parent is renamed
    ([("mkdir", "W/p"), ("mkdir", "W/p/a")],
     [("rename", "W/p/a", "O/a"), ("create", "O/a/z"), ("rename", "O/a", "W/b"), ("rename", "W/p", "W/q"), ("create", "W/b/x")]),
    # D2: changes inside a directory that has left the tree
    ([("mkdir", "W/d"), ("mkdir", "W/d/dd"), ("create", "W/d/a")],
     [("rename", "W/d", "O/x"), ("create", "O/x/b"), ("create", "O/x/dd/b"), ("chmod", "O/x"), ("unlink", "O/x/a"), ("mkdir", "W/d"),
      ("rename", "O/x/dd", "W/d/dd"), ("create", "W/d/dd/a"), ("rmtree", "O/x")]),
    ([], [("create", "W/a"), ("write", "W/a"), ("chmod", "W/a"), ("rename", "W/a", "W/b"), ("unlink", "W/b")]),
    ([], [("mkdir", "W/d"), ("mkdir", "W/d/dd"), ("create", "W/d/dd/a"), ("rename", "W/d", "W/dd"), ("create", "W/dd/dd/b"),
          ("rmtree", "W/dd")]),
    ([("mkdir", "W/d"), ("create", "W/d/a"), ("mkdir", "O/d"), ("create", "O/d/b"), ("mkdir", "O/d/dd")],
     [("rename", "O/d", "W/dd"), ("create", "W/dd/dd/a"), ("rename", "W/d", "O/a"), ("chmod", "W/dd"), ("rmdir", "W/dd/dd")]),
    ([("create", "W/a"), ("create", "W/b"), ("mkdir", "W/d"), ("mkdir", "W/dd")],
     [("rename", "W/a", "W/b"), ("rename", "W/d", "W/dd"), ("rename", "W/b", "O/b"), ("create", "O/a"), ("rename", "O/a", "W/dd/a")]),
    ([], [("mkdir", "W/d"), ("rename", "W/d", "W/dd"), ("create", "W/dd/a"), ("mkdir", "W/dd/d"), ("rename", "W/dd/d", "W/d"),
          ("create", "W/d/b")]),
]
