"""The native inotify pipeline on the real kernel, one drained operation at a time, against WD.Pipe.
Shared by C01 (replay), C02 (coverage probes), C03 (per-operation contract = model equality, and
soundness), C07 (no silent death), C19 (path types and names)."""
from __future__ import annotations

import os
import threading
import time

import common
import fsops

NAMES = ["a", "b", "d", "dd"]
DIRS = ["W", "W/d", "W/dd", "W/d/dd", "W/d/d", "O", "O/d"]


def op_token(op):
    return ":".join(op)


def request(init_ops, ops, recursive, full):
    return (f"pipe {int(recursive)} {int(full)} I {len(init_ops)} " + " ".join(op_token(o) for o in init_ops) +
            f" O {len(ops)} " + " ".join(op_token(o) for o in ops)).replace("  ", " ")


def canon_events(evs):
    """same canonical form as the Lean driver: runs of synthetic events sorted, adjacent duplicates collapsed"""
    out, run = [], []
    for cls, s, d, syn in evs:
        txt = f"{cls}:{s}" + (f">{d}" if d else "") + ("*" if syn else "")
        if syn:
            run.append(txt)
        else:
            out += sorted(run) + [txt]
            run = []
    out += sorted(run)
    res = []
    for x in out:
        if not res or res[-1] != x:
            res.append(x)
    return res


class Run:
    """one observer on one scratch universe"""

    def __init__(self, recursive=True, full=False, as_bytes=False, root_spelling=None):
        from watchdog.observers.inotify import InotifyObserver

        self.uni = fsops.Universe(as_bytes=as_bytes)
        self.recursive, self.full = recursive, full
        self.rec = fsops.Recorder()
        self.obs = InotifyObserver(generate_full_events=full)
        self.thread_errors = []
        self._old_hook = threading.excepthook
        threading.excepthook = lambda args: self.thread_errors.append(f"{args.thread.name}: {args.exc_type.__name__}: {args.exc_value}")
        self.root_arg = root_spelling(self.uni) if root_spelling else self.uni.root
        self.started = False

    def start(self):
        self.obs.schedule(self.rec.handler, self.root_arg, recursive=self.recursive)
        self.obs.start()
        self.started = True

    def root_exists(self):
        return os.path.isdir(self.uni.p("W"))

    def step(self, op):
        """apply op and drain; returns (applied, canonical events of this operation)"""
        start = len(self.rec.events)
        self.last_op = op
        if op[0] == "rmtree":
            # tell the model in which order the listing makes shutil.rmtree remove the entries
            self.last_op = ("rmtree", op[1], ",".join(self.uni.rmtree_order(op[1])))
        applied = self.uni.apply(op)
        if self.root_exists():
            if not fsops.drain(self.uni, self.rec, timeout=8.0):
                return applied, None
        else:
            time.sleep(0.4)
        evs = []
        for e in self.rec.events[start:]:
            s, d = self.uni.rel(e.src_path), self.uni.rel(e.dest_path)
            if "__sentinel" in s or "__sentinel" in d:
                break           # everything from the sentinel's first event on belongs to the drain
            evs.append((type(e).__name__, s, d, bool(e.is_synthetic)))
        return applied, evs

    def stop(self):
        try:
            self.obs.stop()
            self.obs.join(5)
        finally:
            threading.excepthook = self._old_hook
            self.uni.cleanup()


def run_history(init_ops, ops, recursive=True, full=False, as_bytes=False, probes=False):
    """returns dict(line, applied ops, per-op events, final tree, thread errors, raw events, probe results)"""
    r = Run(recursive, full, as_bytes)
    try:
        init_applied = [op for op in init_ops if r.uni.apply(op)]
        initial_tree = r.uni.tree("W")
        r.start()
        applied, per_op = [], []
        timeout = False
        for op in ops:
            ok, evs = r.step(op)
            if evs is None:
                timeout = True
                break
            if ok:
                applied.append(r.last_op)
                per_op.append(evs)
            elif evs:
                # a refused operation must not produce events; keep them visible
                applied.append(r.last_op)
                per_op.append(evs)
        tree = r.uni.tree("W") if r.root_exists() else {}
        probe_results = []
        if probes and r.root_exists() and not timeout:
            dirs = ["W"] + sorted(p for p, k in tree.items() if k == "d")
            for d in dirs:
                pr = f"{d}/__probe"
                ok, evs = r.step(("create", pr))
                seen = evs is not None and any(c == "FileCreatedEvent" and s == pr for c, s, _d, _y in evs)
                depth = d.count("/")
                probe_results.append((d, depth, seen))
                r.step(("unlink", pr))
        raw = [(type(e).__name__, e.src_path, e.dest_path, bool(e.is_synthetic)) for e in r.rec.events]
        tree_s = "[" + ",".join(sorted(p + ("/" if k == "d" else "") for p, k in tree.items() if "__probe" not in p)) + "]"
        stopped = int(bool(r.obs.emitters) and not any(e.is_alive() for e in r.obs.emitters)) if r.started else 0
        line = " ; ".join(",".join(canon_events(e)) for e in per_op) + f" | tree={tree_s}"
        return {"line": line, "init": init_applied, "applied": applied, "per_op": per_op, "tree": tree,
                "initial_tree": initial_tree, "thread_errors": list(r.thread_errors), "raw": raw, "timeout": timeout,
                "probes": probe_results, "root_type": type(r.root_arg).__name__, "emitter_stopped": stopped,
                "root_gone": not r.root_exists()}
    finally:
        r.stop()


def strip_flags(model_line):
    head, _, tail = model_line.partition(" | tree=")
    tree = tail.split(" stopped=")[0]
    flags = tail[len(tree):]
    return head + " | tree=" + tree, flags


# ------------------------------------------------------------------ judges

def replay_judge(result, recursive):
    """C01: applying the delivered created/deleted/moved events, in order, to the initial tree gives the final tree
    (non-recursive: the root's direct children)"""
    tree = {p: k for p, k in result["initial_tree"].items() if recursive or p.count("/") == 1}
    for evs in result["per_op"]:
        for cls, s, d, _syn in evs:
            kind = "d" if cls.startswith("Dir") else "f"
            if cls.endswith("CreatedEvent"):
                tree[s] = kind
            elif cls.endswith("DeletedEvent"):
                for p in [p for p in tree if p == s or p.startswith(s + "/")]:
                    del tree[p]
            elif cls.endswith("MovedEvent"):
                if s:
                    for p in [p for p in tree if p == s or p.startswith(s + "/")]:
                        del tree[p]
                if d:
                    tree[d] = kind
    final = {p: k for p, k in result["tree"].items() if (recursive or p.count("/") == 1) and "__probe" not in p}
    tree = {p: k for p, k in tree.items() if p.startswith("W/") and "__probe" not in p}
    if tree != final:
        extra = sorted(set(tree.items()) - set(final.items()))
        missing = sorted(set(final.items()) - set(tree.items()))
        return f"replayed tree differs from the tree on disk: replay has extra {extra}, lacks {missing}"
    return None


def gen_history(r, n, allow_outside_ops=False):
    ops = []
    moved_out = []   # O-paths of directories that left W with their watches
    for _ in range(n):
        k = r.random()
        d = r.choice(DIRS if allow_outside_ops else [x for x in DIRS if x.startswith("W")] + ["O"])
        nme = r.choice(NAMES)
        if k < 0.2:
            ops.append(("create", f"{d}/{nme}"))
        elif k < 0.3:
            ops.append(("write", f"{d}/{nme}"))
        elif k < 0.37:
            ops.append(("chmod", f"{d}/{nme}"))
        elif k < 0.48:
            ops.append(("unlink", f"{d}/{nme}"))
        elif k < 0.64:
            ops.append(("mkdir", f"{d}/{nme}"))
        elif k < 0.7:
            ops.append(("rmdir", f"{d}/{nme}"))
        elif k < 0.75:
            ops.append(("rmtree", f"{d}/{nme}"))
        else:
            d2 = r.choice(["W", "W/d", "W/dd", "O"])
            ops.append(("rename", f"{d}/{nme}", f"{d2}/{r.choice(NAMES)}"))
    return ops


FIXED = [
    ([], [("create", "W/a"), ("write", "W/a"), ("chmod", "W/a"), ("rename", "W/a", "W/b"), ("unlink", "W/b")]),
    ([], [("mkdir", "W/d"), ("mkdir", "W/d/dd"), ("create", "W/d/dd/a"), ("rename", "W/d", "W/dd"), ("create", "W/dd/dd/b"),
          ("rmtree", "W/dd")]),
    ([("mkdir", "W/d"), ("create", "W/d/a"), ("mkdir", "O/d"), ("create", "O/d/b"), ("mkdir", "O/d/dd")],
     [("rename", "O/d", "W/dd"), ("create", "W/dd/dd/a"), ("rename", "W/d", "O/a"), ("chmod", "W/dd"), ("rmdir", "W/dd/dd")]),
    ([("create", "W/a"), ("create", "W/b"), ("mkdir", "W/d"), ("mkdir", "W/dd")],
     [("rename", "W/a", "W/b"), ("rename", "W/d", "W/dd"), ("rename", "W/b", "O/b"), ("create", "O/a"), ("rename", "O/a", "W/dd/a")]),
    ([], [("mkdir", "W/d"), ("rename", "W/d", "W/dd"), ("create", "W/dd/a"), ("mkdir", "W/dd/d"), ("rename", "W/dd/d", "W/d"),
          ("create", "W/d/b")]),
]
