"""The native inotify pipeline on the real kernel, one drained operation at a time, against WD.Pipe.
Shared by C01 (replay), C02 (coverage probes), C03 (per-operation contract = model equality, and
soundness), C07 (no silent death), C19 (path types and names)."""
from __future__ import annotations

import os
import threading
import time

import common
import fsops

NAMES = ["a", "b", "d", "dd"]
DIRS = ["W", "W/d", "W/dd", "W/d/dd", "W/d/d", "O", "O/d"]


def op_token(op):
    return ":".join(op)


def request(init_ops, ops, recursive, full):
    return (f"pipe {int(recursive)} {int(full)} I {len(init_ops)} " + " ".join(op_token(o) for o in init_ops) +
            f" O {len(ops)} " + " ".join(op_token(o) for o in ops)).replace("  ", " ")


def canon_events(evs):
    """same canonical form as the Lean driver: runs of synthetic events sorted, adjacent duplicates collapsed"""
    out, run = [], []
    for cls, s, d, syn in evs:
        txt = f"{cls}:{s}" + (f">{d}" if d else "") + ("*" if syn else "")
        if syn:
            run.append(txt)
        else:
            out += sorted(run) + [txt]
            run = []
    out += sorted(run)
    res = []
    for x in out:
        if not res or res[-1] != x:
            res.append(x)
    return res


class Run:
    """one observer on one scratch universe"""

    def __init__(self, recursive=True, full=False, as_bytes=False, root_spelling=None, small_reads=False, vanish_at=None,
                 rm_fault_at=None, gate_reads=False, vanish_file=False, vanish_back=False, overflow_at=None, walk_fault_at=None):
        from watchdog.observers import inotify_c
        from watchdog.observers.inotify import InotifyObserver

        # (a) how the kernel buffer is split between reads: with a 48-byte buffer every read returns one record
        #     (names up to 32 bytes); the default of a keyword-only parameter is mutable - no source change
        self._kwd = inotify_c.Inotify.read_events.__kwdefaults__
        self._old_size = self._kwd["event_buffer_size"]
        if small_reads:
            self._kwd["event_buffer_size"] = 48
        # (b) a transient fault: the directory the library is about to watch vanishes just before the k-th
        #     follow-up inotify_add_watch (another process removed it) - substituted module-level name
        self._ic = inotify_c
        # (a') holding the reader off completely: its os.read() of the inotify descriptor waits while a burst is issued, so
        #      that ONE read returns the records of the whole burst (holding `Inotify._lock` alone lets it read the first
        #      record on its own and only delays the translation) - the module's name `os` is substituted by a proxy
        self.gate = threading.Event()
        self.gate.set()
        self.gate_reads = gate_reads
        self._real_os = inotify_c.os
        run = self

        class _OsProxy:
            def __getattr__(self, name, _real=self._real_os):
                return getattr(_real, name)

            def read(self, fd, n, _real=self._real_os):
                run.gate.wait(10)
                data = _real.read(fd, n)
                # (a'') the kernel's queue-overflow record (wd = -1, IN_Q_OVERFLOW, no name) at the end of the k-th read that
                #       returned inotify records after the start: what the kernel sends when its queue was full - here without
                #       any record having been lost, so every operation is still reported
                if run.overflow_at is not None and run.started and len(data) >= 16:
                    run.record_reads += 1
                    if run.record_reads == run.overflow_at:
                        import struct
                        data += struct.pack("iIII", -1, 0x4000, 0, 0)
                        run.overflows += 1
                return data

        self.overflow_at = overflow_at
        self.record_reads = 0
        self.overflows = 0
        if gate_reads or overflow_at is not None:
            inotify_c.os = _OsProxy()
        # (d) a transient fault during a directory walk (the reader's walk of an arrived tree, the emitter's walk for the
        #     synthetic sub-events): the k-th listing of a directory below the root finds that the directory has just been
        #     replaced by a regular file (ENOTDIR from the kernel) - `os.scandir` itself is wrapped, whoever calls it
        self._real_scandir = os.scandir
        self.walk_fault_at = walk_fault_at
        self.walk_calls = 0
        self.walk_faults = []
        if walk_fault_at is not None:
            def scandir(path=".", _real=self._real_scandir):
                try:
                    pth = os.fsdecode(path)
                except TypeError:
                    return _real(path)
                w = self.uni.p("W")
                if self.started and pth.startswith(w + os.sep) and pth.count(os.sep) > w.count(os.sep) + 1:
                    self.walk_calls += 1
                    if self.walk_calls == self.walk_fault_at and os.path.isdir(pth) and not os.path.islink(pth):
                        import shutil
                        shutil.rmtree(pth, ignore_errors=True)
                        open(pth, "w").close()
                        self.walk_faults.append(self.uni.rel(pth))
                return _real(path)
            os.scandir = scandir
        self._real_add_watch = inotify_c.inotify_add_watch
        self.add_calls = 0
        self.vanished = []
        if vanish_at is not None:
            import ctypes

            def add_watch(fd, path, mask, _real=self._real_add_watch):
                if self.started:
                    self.add_calls += 1
                    pth = os.fsdecode(path)
                    if self.add_calls == vanish_at and pth != self.uni.p("W") and os.path.isdir(pth):
                        import shutil
                        par = os.path.dirname(pth)
                        if vanish_file and par != self.uni.p("W") and par.startswith(self.uni.p("W") + os.sep):
                            # the PARENT directory vanishes and a regular file takes its name: the path now leads through a
                            # file and the kernel answers ENOTDIR, not ENOENT
                            shutil.rmtree(par, ignore_errors=True)
                            open(par, "w").close()
                            self.vanished.append(self.uni.rel(par))
                        elif vanish_back:
                            # the directory vanishes just before the add-watch (ENOENT) and is back, with a file inside,
                            # before the library's walk gets to it
                            shutil.rmtree(pth, ignore_errors=True)
                            self.vanished.append(self.uni.rel(pth))
                            r_ = _real(fd, path, mask)
                            saved = ctypes.get_errno()
                            os.mkdir(pth)
                            open(os.path.join(pth, "back"), "w").close()
                            ctypes.set_errno(saved)
                            return r_
                        else:
                            shutil.rmtree(pth, ignore_errors=True)
                            self.vanished.append(self.uni.rel(pth))
                return _real(fd, path, mask)
            inotify_c.inotify_add_watch = add_watch

        # (c) a transient fault: the k-th inotify_rm_watch finds its watch already dropped by the kernel (the directory
        #     was removed by someone else at that instant): the removal happens, the call reports EINVAL
        self._real_rm_watch = inotify_c.inotify_rm_watch
        self.rm_calls = 0
        self.rm_faults = 0
        if rm_fault_at is not None:
            import ctypes
            import errno as _errno

            def rm_watch(fd, wd, _real=self._real_rm_watch):
                r_ = _real(fd, wd)
                if self.started:
                    self.rm_calls += 1
                    if self.rm_calls == rm_fault_at and r_ == 0:
                        self.rm_faults += 1
                        ctypes.set_errno(_errno.EINVAL)
                        return -1
                return r_
            inotify_c.inotify_rm_watch = rm_watch

        self.uni = fsops.Universe(as_bytes=as_bytes)
        self.recursive, self.full = recursive, full
        self.rec = fsops.Recorder()
        self.obs = InotifyObserver(generate_full_events=full)
        self.thread_errors = []
        self._old_hook = threading.excepthook
        threading.excepthook = lambda args: self.thread_errors.append(f"{args.thread.name}: {args.exc_type.__name__}: {args.exc_value}")
        self.root_arg = root_spelling(self.uni) if root_spelling else self.uni.root
        self.started = False

    def start(self):
        self.obs.schedule(self.rec.handler, self.root_arg, recursive=self.recursive)
        self.obs.start()
        self.started = True

    def root_exists(self):
        return os.path.isdir(self.uni.p("W"))

    def step(self, op):
        """apply op and drain; returns (applied, canonical events of this operation)"""
        start = len(self.rec.events)
        self.last_op = op
        if op[0] == "rmtree":
            # tell the model in which order the listing makes shutil.rmtree remove the entries
            self.last_op = ("rmtree", op[1], ",".join(self.uni.rmtree_order(op[1])))
        applied = self.uni.apply(op)
        if self.root_exists():
            if not fsops.drain(self.uni, self.rec, timeout=8.0):
                return applied, None
            if op[0] == "rename":
                # a directory that left the tree is un-watched by the emitter; the kernel's IGNORED answers
                # are queued behind the first sentinel: a second round lets the reader see them, too
                n_before = len(self.rec.events)
                if not fsops.drain(self.uni, self.rec, timeout=8.0):
                    return applied, None
                del n_before
        else:
            time.sleep(0.4)
        evs = []
        for e in self.rec.events[start:]:
            s, d = self.uni.rel(e.src_path), self.uni.rel(e.dest_path)
            if "__sentinel" in s or "__sentinel" in d:
                break           # everything from the sentinel's first event on belongs to the drain
            evs.append((type(e).__name__, s, d, bool(e.is_synthetic)))
        return applied, evs

    def maps(self):
        """canonical rendering of `Inotify._wd_for_path` / `_path_for_wd` (white-box, read under the instance's lock):
        the same form as the Lean driver's `showMaps`"""
        for em in list(self.obs.emitters):
            buf = getattr(em, "_inotify", None)
            ino = getattr(buf, "_inotify", None) if buf is not None else None
            if ino is None:
                continue
            with ino._lock:
                wfp = dict(ino._wd_for_path)
                pfw = dict(ino._path_for_wd)
            rel = lambda b: self.uni.rel(os.fsdecode(b))  # noqa: E731
            w = sorted(rel(k) for k in wfp)
            x = sorted(rel(k) + ">" + (rel(pfw[v]) if v in pfw else "?") for k, v in wfp.items())
            pp = sorted(rel(v) for v in pfw.values())
            return "W:[" + ",".join(w) + "]|X:[" + ",".join(x) + "]|P:[" + ",".join(pp) + "]"
        return "-"

    def reader_lock(self):
        """the lock of the Inotify instance behind the (only) emitter: while we hold it the reader cannot process
        what it reads - the reader lags behind the operations by exactly the burst"""
        deadline = time.monotonic() + 5
        while time.monotonic() < deadline:
            for em in list(self.obs.emitters):
                buf = getattr(em, "_inotify", None)
                ino = getattr(buf, "_inotify", None) if buf is not None else None
                if ino is not None:
                    return ino._lock
            time.sleep(0.005)
        raise RuntimeError("emitter did not come up")

    def burst(self, ops):
        """apply the operations back to back while the reader is held off, then let the stream drain"""
        start = len(self.rec.events)
        applied = []
        with self.reader_lock():
            self.gate.clear()
            try:
                for op in ops:
                    if self.uni.apply(op):
                        applied.append(op)
            finally:
                self.gate.set()
        ok = True
        if self.root_exists():
            ok = fsops.drain(self.uni, self.rec, timeout=8.0) and fsops.drain(self.uni, self.rec, timeout=8.0)
        evs = []
        after_sentinel = False
        for e in self.rec.events[start:]:
            s, d = self.uni.rel(e.src_path), self.uni.rel(e.dest_path)
            if "__sentinel" in s or "__sentinel" in d:
                after_sentinel = True
                continue
            if after_sentinel and type(e).__name__ == "DirModifiedEvent" and s == "W":
                continue          # the root's modified event that accompanies every event of the drain sentinel
            after_sentinel = False
            evs.append((type(e).__name__, s, d, bool(e.is_synthetic)))
        return applied, (evs if ok else None)

    def stop(self):
        try:
            self.obs.stop()
            self.obs.join(5)
        finally:
            threading.excepthook = self._old_hook
            self._kwd["event_buffer_size"] = self._old_size
            self._ic.os = self._real_os
            os.scandir = self._real_scandir
            self.gate.set()
            self._ic.inotify_add_watch = self._real_add_watch
            self._ic.inotify_rm_watch = self._real_rm_watch
            self.uni.cleanup()


def run_history(init_ops, ops, recursive=True, full=False, as_bytes=False, probes=False, small_reads=False, split=None,
                root_spelling=None):
    """returns dict(line, applied ops, per-op events, final tree, thread errors, raw events, probe results);
    `split`: per operation, whether the reader gets the kernel buffer one record per read (None: `small_reads` for all)"""
    r = Run(recursive, full, as_bytes, root_spelling=root_spelling, small_reads=small_reads)
    try:
        init_applied = [op for op in init_ops if r.uni.apply(op)]
        initial_tree = r.uni.tree("W")
        r.start()
        applied, per_op = [], []
        maps = []
        if probes is not None:
            r.reader_lock()          # wait for the emitter to come up
            maps.append(r.maps())
        timeout = False
        for i_op, op in enumerate(ops):
            if split is not None:
                want = 48 if split[i_op % len(split)] else r._old_size
                if r._kwd["event_buffer_size"] != want:
                    r._kwd["event_buffer_size"] = want
                    # the reader is blocked inside a read_events() call that was entered with the old size: one
                    # sentinel round makes it come back and enter the next call with the new one
                    if r.root_exists():
                        fsops.drain(r.uni, r.rec, timeout=8.0)
            ok, evs = r.step(op)
            if evs is None:
                timeout = True
                break
            if ok:
                applied.append(r.last_op)
                per_op.append(evs)
                maps.append(r.maps() if r.root_exists() else "-")
            elif evs:
                # a refused operation must not produce events; keep them visible
                applied.append(r.last_op)
                per_op.append(evs)
                maps.append(r.maps() if r.root_exists() else "-")
        tree = r.uni.tree("W") if r.root_exists() else {}
        probe_results = []
        if probes and r.root_exists() and not timeout:
            dirs = ["W"] + sorted(p for p, k in tree.items() if k == "d")
            for d in dirs:
                pr = f"{d}/__probe"
                ok, evs = r.step(("create", pr))
                seen = evs is not None and any(c == "FileCreatedEvent" and s == pr for c, s, _d, _y in evs)
                depth = d.count("/")
                probe_results.append((d, depth, seen))
                r.step(("unlink", pr))
        raw = [(type(e).__name__, e.src_path, e.dest_path, bool(e.is_synthetic)) for e in r.rec.events]
        tree_s = "[" + ",".join(sorted(p + ("/" if k == "d" else "") for p, k in tree.items() if "__probe" not in p)) + "]"
        stopped = int(bool(r.obs.emitters) and not any(e.is_alive() for e in r.obs.emitters)) if r.started else 0
        line = " ; ".join(",".join(canon_events(e)) for e in per_op) + f" | tree={tree_s}"
        return {"line": line, "init": init_applied, "applied": applied, "per_op": per_op, "tree": tree, "maps": maps,
                "initial_tree": initial_tree, "thread_errors": list(r.thread_errors), "raw": raw, "timeout": timeout,
                "probes": probe_results, "root_type": type(r.root_arg).__name__, "emitter_stopped": stopped,
                "root_gone": not r.root_exists()}
    finally:
        r.stop()


def strip_flags(model_line):
    head, _, tail = model_line.partition(" | tree=")
    tree = tail.split(" stopped=")[0]
    flags = tail[len(tree):]
    return head + " | tree=" + tree, flags


# ------------------------------------------------------------------ judges

def replay_judge(result, recursive):
    """C01: applying the delivered created/deleted/moved events, in order, to the initial tree gives the final tree
    (non-recursive: the root's direct children)"""
    tree = {p: k for p, k in result["initial_tree"].items() if recursive or p.count("/") == 1}
    for evs in result["per_op"]:
        for cls, s, d, _syn in evs:
            kind = "d" if cls.startswith("Dir") else "f"
            if cls.endswith("CreatedEvent"):
                tree[s] = kind
            elif cls.endswith("DeletedEvent"):
                for p in [p for p in tree if p == s or p.startswith(s + "/")]:
                    del tree[p]
            elif cls.endswith("MovedEvent"):
                if s:
                    for p in [p for p in tree if p == s or p.startswith(s + "/")]:
                        del tree[p]
                if d:
                    tree[d] = kind
    final = {p: k for p, k in result["tree"].items() if (recursive or p.count("/") == 1) and "__probe" not in p}
    # a non-recursive watch is accountable for the root's direct children only: a moved event about a direct child may
    # name a destination further down (FSEvents delivers both halves of such a move), which is not part of that tree
    tree = {p: k for p, k in tree.items() if p.startswith("W/") and "__probe" not in p and (recursive or p.count("/") == 1)}
    if tree != final:
        extra = sorted(set(tree.items()) - set(final.items()))
        missing = sorted(set(final.items()) - set(tree.items()))
        return f"replayed tree differs from the tree on disk: replay has extra {extra}, lacks {missing}"
    return None


def gen_history(r, n, allow_outside_ops=False, tree=None, no_replace=False):
    """mostly-valid operations: the generator keeps its own picture of the tree (W and O) and draws
    operations that are applicable in it (plus ~10% blind ones), inside the watched tree W and — less
    often — in the outside directory O, including what has been moved out of W and back"""
    tree = dict(tree) if tree else {"W": "d", "O": "d"}
    ops = []
    tainted = set()

    def dirs(prefixes=("W", "O")):
        return [p for p, k in tree.items() if k == "d" and p.split("/")[0] in prefixes
                and not any(p == t or p.startswith(t + "/") for t in tainted)]

    def files():
        return [p for p, k in tree.items() if k == "f" and not any(p.startswith(t + "/") for t in tainted)]

    def subtree(p):
        return [q for q in tree if q == p or q.startswith(p + "/")]

    for _ in range(n):
        if r.random() < 0.1:
            d, nme = r.choice(DIRS), r.choice(NAMES)
            op = r.choice([("create", f"{d}/{nme}"), ("unlink", f"{d}/{nme}"), ("rmdir", f"{d}/{nme}"), ("mkdir", f"{d}/{nme}")])
            # apply to our picture only if valid
            par = op[1].rsplit("/", 1)[0]
            if op[0] in ("create", "mkdir") and tree.get(par) == "d" and op[1] not in tree:
                tree[op[1]] = "f" if op[0] == "create" else "d"
            elif op[0] == "unlink" and tree.get(op[1]) == "f":
                del tree[op[1]]
            elif op[0] == "rmdir" and tree.get(op[1]) == "d" and len(subtree(op[1])) == 1:
                del tree[op[1]]
            ops.append(op)
            continue
        k = r.random()
        ds = dirs(("W",) if r.random() < 0.8 else ("W", "O"))
        fs_ = [f for f in files() if f.startswith("W/") or r.random() < 0.25]
        if k < 0.2 and ds:
            p = r.choice(ds) + "/" + r.choice(NAMES)
            if p not in tree:
                tree[p] = "f"
                ops.append(("create", p))
        elif k < 0.3 and fs_:
            ops.append(("write", r.choice(fs_)))
        elif k < 0.37:
            cand = [p for p in list(fs_) + ds if p.count("/") >= 1]
            if cand:
                ops.append(("chmod", r.choice(cand)))
        elif k < 0.47 and fs_:
            p = r.choice(fs_)
            del tree[p]
            ops.append(("unlink", p))
        elif k < 0.62 and ds:
            p = r.choice(ds) + "/" + r.choice(NAMES)
            if p not in tree:
                tree[p] = "d"
                ops.append(("mkdir", p))
        elif k < 0.68:
            cand = [d for d in ds if d.count("/") >= 1 and len(subtree(d)) == 1]
            if cand:
                p = r.choice(cand)
                del tree[p]
                ops.append(("rmdir", p))
        elif k < 0.73:
            cand = [d for d in ds if d.count("/") >= 1]
            if cand:
                p = r.choice(cand)
                for q in subtree(p):
                    del tree[q]
                ops.append(("rmtree", p))
        else:
            cand = [p for p in list(fs_) + ds if p.count("/") >= 1]
            dds = dirs(("W", "O"))
            if cand and dds:
                s_ = r.choice(cand)
                dpar = r.choice(dds)
                d_ = dpar + "/" + r.choice(NAMES)
                if d_ == s_ or d_.startswith(s_ + "/") or dpar == s_ or dpar.startswith(s_ + "/"):
                    continue
                if d_ in tree and no_replace:
                    continue
                if d_ in tree:
                    # replace: same kind, a directory only if empty
                    if tree[d_] != tree[s_] or (tree[d_] == "d" and len(subtree(d_)) > 1):
                        continue
                    del tree[d_]
                moved = {q: tree[q] for q in subtree(s_)}
                for q in moved:
                    del tree[q]
                for q, kk in moved.items():
                    tree[d_ + q[len(s_):]] = kk
                ops.append(("rename", s_, d_))
    return ops


def tree_after(tree, ops):
    """the generator's own picture of the tree after `ops` (only operations valid in it take effect)"""
    t = dict(tree)
    for op in ops:
        k = op[0]
        if k in ("create", "mkdir"):
            par = op[1].rsplit("/", 1)[0]
            if t.get(par) == "d" and op[1] not in t:
                t[op[1]] = "f" if k == "create" else "d"
        elif k == "unlink" and t.get(op[1]) == "f":
            del t[op[1]]
        elif k == "rmdir" and t.get(op[1]) == "d" and not any(q.startswith(op[1] + "/") for q in t):
            del t[op[1]]
        elif k == "rmtree" and t.get(op[1]) == "d":
            for q in [q for q in t if q == op[1] or q.startswith(op[1] + "/")]:
                del t[q]
        elif k == "rename" and op[1] in t:
            s_, d_ = op[1], op[2]
            if t.get(d_.rsplit("/", 1)[0]) != "d":
                continue
            if d_ in t:
                if t[d_] != t[s_] or any(q.startswith(d_ + "/") for q in t):
                    continue
                del t[d_]
            moved = {q: t[q] for q in t if q == s_ or q.startswith(s_ + "/")}
            for q in moved:
                del t[q]
            for q, kk in moved.items():
                t[d_ + q[len(s_):]] = kk
    return t


FIXED = [
    # a directory with a sub-directory renamed twice, then a change in the sub-directory (re-keying of descendants)
    ([("mkdir", "W/d"), ("mkdir", "W/d/dd"), ("mkdir", "W/d/dd/d")],
     [("rename", "W/d", "W/a"), ("rename", "W/a", "W/b"), ("create", "W/b/dd/a"), ("rename", "W/b/dd", "W/dd"), ("rename", "W/b", "W/d"),
      ("create", "W/dd/d/b"), ("create", "W/d/b")]),
    # the old name of a renamed directory re-used by a file which is then renamed (stale path-map keys)
    ([("mkdir", "W/d"), ("mkdir", "W/d/dd")],
     [("rename", "W/d", "W/b"), ("create", "W/d"), ("rename", "W/d", "W/a"), ("create", "W/b/a"), ("create", "W/b/dd/a"),
      ("unlink", "W/a"), ("mkdir", "W/a"), ("rename", "W/a", "W/dd"), ("create", "W/dd/b")]),
    # D13: a directory that left the tree and came back under another name, then its old parent is renamed
    ([("mkdir", "W/p"), ("mkdir", "W/p/a")],
     [("rename", "W/p/a", "O/a"), ("create", "O/a/z"), ("rename", "O/a", "W/b"), ("rename", "W/p", "W/q"), ("create", "W/b/x")]),
    # D2: changes inside a directory that has left the tree
    ([("mkdir", "W/d"), ("mkdir", "W/d/dd"), ("create", "W/d/a")],
     [("rename", "W/d", "O/x"), ("create", "O/x/b"), ("create", "O/x/dd/b"), ("chmod", "O/x"), ("unlink", "O/x/a"), ("mkdir", "W/d"),
      ("rename", "O/x/dd", "W/d/dd"), ("create", "W/d/dd/a"), ("rmtree", "O/x")]),
    ([], [("create", "W/a"), ("write", "W/a"), ("chmod", "W/a"), ("rename", "W/a", "W/b"), ("unlink", "W/b")]),
    ([], [("mkdir", "W/d"), ("mkdir", "W/d/dd"), ("create", "W/d/dd/a"), ("rename", "W/d", "W/dd"), ("create", "W/dd/dd/b"),
          ("rmtree", "W/dd")]),
    ([("mkdir", "W/d"), ("create", "W/d/a"), ("mkdir", "O/d"), ("create", "O/d/b"), ("mkdir", "O/d/dd")],
     [("rename", "O/d", "W/dd"), ("create", "W/dd/dd/a"), ("rename", "W/d", "O/a"), ("chmod", "W/dd"), ("rmdir", "W/dd/dd")]),
    ([("create", "W/a"), ("create", "W/b"), ("mkdir", "W/d"), ("mkdir", "W/dd")],
     [("rename", "W/a", "W/b"), ("rename", "W/d", "W/dd"), ("rename", "W/b", "O/b"), ("create", "O/a"), ("rename", "O/a", "W/dd/a")]),
    ([], [("mkdir", "W/d"), ("rename", "W/d", "W/dd"), ("create", "W/dd/a"), ("mkdir", "W/dd/d"), ("rename", "W/dd/d", "W/d"),
          ("create", "W/d/b")]),
    # a directory renamed onto an empty one (the replaced watch's IN_IGNORED must not disturb the survivor's map entry),
    # then moved out of the tree, then changed outside, then its name re-used
    ([("mkdir", "W/a"), ("mkdir", "W/b"), ("create", "W/a/x")],
     [("rename", "W/a", "W/b"), ("rename", "W/b", "O/b"), ("create", "O/b/y"), ("unlink", "O/b/x"), ("mkdir", "W/b"),
      ("create", "W/b/x")]),
    # a directory renamed onto an empty one, then their parent renamed, then a change inside the survivor (its map entry
    # must have survived the replaced watch's IN_IGNORED to be re-keyed with the parent)
    ([("mkdir", "W/d"), ("mkdir", "W/d/a"), ("mkdir", "W/d/b"), ("create", "W/d/a/x")],
     [("rename", "W/d/a", "W/d/b"), ("create", "W/d/b/a"), ("rename", "W/d", "W/dd"), ("create", "W/dd/b/b"), ("unlink", "W/dd/b/x")]),
]


# ------------------------------------------------------------------ bursts: operations issued faster than the observer drains

def gen_bursts(r, n):
    """bursts that respect the property's pacing condition: file operations without limit; a directory is created
    as part of a nested burst (mkdir -p with files), created and immediately renamed, or renamed again right after
    it arrived; nothing else touches a directory's contents or re-uses its names before the stream has drained.
    Returns (init ops, [burst, burst, ...])"""
    init = [("mkdir", "W/d"), ("create", "W/d/a"), ("mkdir", "O/d"), ("mkdir", "O/d/dd"), ("create", "O/d/dd/b"), ("create", "W/b")]
    bursts = []
    used = 0
    for _ in range(n):
        k = r.random()
        used += 1
        x = "n%d" % used
        if k < 0.25:        # nested burst: mkdir -p with content
            bursts.append([("mkdir", f"W/{x}"), ("mkdir", f"W/{x}/dd"), ("create", f"W/{x}/a"), ("create", f"W/{x}/dd/b"),
                           ("mkdir", f"W/{x}/dd/d")])
        elif k < 0.45:      # created and immediately renamed; once drained, used
            bursts.append([("mkdir", f"W/{x}"), ("rename", f"W/{x}", f"W/{x}r")])
            bursts.append([("create", f"W/{x}r/a"), ("mkdir", f"W/{x}r/dd"), ("create", "W/d/" + x)])
        elif k < 0.6:       # arrives from outside and is renamed again right away
            bursts.append([("mkdir", f"O/{x}"), ("mkdir", f"O/{x}/dd"), ("create", f"O/{x}/a")])
            bursts.append([("rename", f"O/{x}", f"W/{x}"), ("rename", f"W/{x}", f"W/{x}r")])
            bursts.append([("create", f"W/{x}r/b"), ("create", f"W/{x}r/dd/b"), ("write", f"W/{x}r/a")])
        elif k < 0.75:      # an existing directory tree renamed twice in a row (its contents untouched)
            bursts.append([("mkdir", f"W/{x}"), ("mkdir", f"W/{x}/dd")])
            bursts.append([("rename", f"W/{x}", f"W/{x}r"), ("rename", f"W/{x}r", f"W/{x}s")])
            bursts.append([("create", f"W/{x}s/b"), ("create", f"W/{x}s/dd/b")])
        else:               # file storm in directories that are at rest
            ops = []
            for i in range(r.randint(4, 12)):
                f = f"W/f{used}_{i % 3}"
                ops += [r.choice([("create", f), ("write", f), ("chmod", f), ("rename", f, f + "m"), ("unlink", f),
                                  ("rename", f + "m", f), ("create", f"W/d/{x}{i % 2}"), ("unlink", f"W/d/{x}{i % 2}")])]
            bursts.append(ops)
    return init, bursts


def gen_paced(r, n):
    """histories in the regime of the theorem WD.Pipe.paced_run: every burst is ONE operation of any kind (a drained
    operation: directory trees renamed, moved out and in, removed), a storm of file operations, or a nested creation
    burst of random shape and depth (mkdirs and file creations, inside old and inside brand-new directories at once).
    Returns (init ops, [burst, ...])"""
    init = [("mkdir", "W/d"), ("create", "W/d/a"), ("mkdir", "W/d/dd"), ("mkdir", "O/d"), ("mkdir", "O/d/dd"), ("create", "O/d/dd/b"),
            ("create", "W/b")]
    dirs = {"W", "W/d", "W/d/dd"}          # directories of the tree (tracked so that every operation is valid)
    files = {"W/d/a", "W/b"}
    outside = {"O/d": ({"O/d", "O/d/dd"}, {"O/d/dd/b"})}
    bursts = []
    used = 0
    vacated = []         # names that were in use and were renamed / moved away: made again later

    def rekey(old, new):
        nonlocal dirs, files
        dirs = {new + q[len(old):] if (q == old or q.startswith(old + "/")) else q for q in dirs}
        files = {new + q[len(old):] if q.startswith(old + "/") else q for q in files}

    for _ in range(n):
        used += 1
        k = r.random()
        if k < 0.45:        # nested creation burst
            ops, newd = [], []
            for i in range(r.randint(3, 9)):
                base = r.choice(sorted(dirs) + newd * 3)
                if base.count("/") >= 5:
                    continue
                name = f"{base}/g{used}_{i}"
                again = [v for v in vacated if v not in dirs and v not in files and v not in newd and
                         (v.rsplit("/", 1)[0] in dirs or v.rsplit("/", 1)[0] in newd)]
                if again and r.random() < 0.4:
                    name = r.choice(again)
                c = r.random()
                if c < 0.5:
                    ops.append(("mkdir", name)); newd.append(name)
                elif c < 0.8:
                    ops.append(("create", name)); files.add(name)
                    if r.random() < 0.4:
                        ops.append(("write", name))           # populate: the new file is written at once
                elif files and c < 0.9:
                    ops.append(("write", r.choice(sorted(files))))
                else:
                    ops.append(("chmod", r.choice(sorted(files | (dirs - {"W"}) | set(newd)) or [name])))
            dirs.update(newd)
            if ops:
                bursts.append(ops)
        elif k < 0.53:      # a directory created and immediately renamed
            base = r.choice(sorted(dirs))
            tgt = r.choice(sorted(dirs))
            if base.count("/") < 5 and tgt.count("/") < 5:
                a, b = f"{base}/c{used}", f"{tgt}/cr{used}"
                bursts.append([("mkdir", a), ("rename", a, b)])
                dirs.add(b)
                vacated.append(a)
        elif k < 0.6 and outside:     # a directory tree arrives from outside and is renamed again at once
            o = r.choice(sorted(outside))
            b1, b2 = r.choice(sorted(dirs)), r.choice(sorted(dirs))
            if b1.count("/") < 4 and b2.count("/") < 4:
                od, of = outside.pop(o)
                q1, q2 = f"{b1}/a{used}", f"{b2}/ar{used}"
                bursts.append([("rename", o, q1), ("rename", q1, q2)])
                dirs.update(q2 + q[len(o):] for q in od); files.update(q2 + q[len(o):] for q in of)
                vacated.append(q1)
        elif k < 0.66 and [q for q in dirs if q != "W"]:     # a directory tree of the tree renamed twice in a row
            d = r.choice(sorted(q for q in dirs if q != "W"))
            free = sorted(q for q in dirs if not (q == d or q.startswith(d + "/")))
            b1, b2 = r.choice(free), r.choice(free)
            if b1.count("/") < 4 and b2.count("/") < 4:
                m1, m2 = f"{b1}/t{used}", f"{b2}/tt{used}"
                bursts.append([("rename", d, m1), ("rename", m1, m2)])
                rekey(d, m2)
                vacated += [d, m1]
        elif k < 0.7:       # file storm
            ops = []
            fl = sorted(files)
            for i in range(r.randint(3, 8)):
                c = r.random()
                if c < 0.3 or not fl:
                    f = r.choice(sorted(dirs)) + f"/s{used}_{i}"
                    ops.append(("create", f)); files.add(f); fl.append(f)
                elif c < 0.5:
                    ops.append((r.choice(["write", "chmod"]), r.choice(fl)))
                elif c < 0.75:
                    f = r.choice(fl); g = r.choice(sorted(dirs)) + f"/m{used}_{i}"
                    ops.append(("rename", f, g)); files.discard(f); files.add(g); fl.remove(f); fl.append(g); vacated.append(f)
                else:
                    f = r.choice(fl); ops.append(("unlink", f)); files.discard(f); fl.remove(f)
            bursts.append(ops)
        else:               # one drained operation on a directory
            sub = sorted(q for q in dirs if q != "W")
            c = r.random()
            if c < 0.35 and sub:                 # rename a directory tree inside the tree
                d = r.choice(sub)
                tgt = r.choice(sorted(q for q in dirs if not (q == d or q.startswith(d + "/")))) + f"/r{used}"
                bursts.append([("rename", d, tgt)]); rekey(d, tgt); vacated.append(d)
            elif c < 0.55 and sub:               # move a directory tree out
                d = r.choice(sub)
                o = f"O/x{used}"
                bursts.append([("rename", d, o)]); vacated.append(d)
                outside[o] = ({o + q[len(d):] for q in dirs if q == d or q.startswith(d + "/")},
                              {o + q[len(d):] for q in files if q.startswith(d + "/")})
                dirs = {q for q in dirs if not (q == d or q.startswith(d + "/"))}
                files = {q for q in files if not q.startswith(d + "/")}
            elif c < 0.75 and outside:           # move a directory tree in
                o = r.choice(sorted(outside))
                od, of = outside.pop(o)
                tgt = r.choice(sorted(dirs)) + f"/i{used}"
                bursts.append([("rename", o, tgt)])
                dirs.update(tgt + q[len(o):] for q in od); files.update(tgt + q[len(o):] for q in of)
            elif sub:                            # remove a directory tree
                d = r.choice(sub)
                bursts.append([("rmtree", d)])
                dirs = {q for q in dirs if not (q == d or q.startswith(d + "/"))}
                files = {q for q in files if not q.startswith(d + "/")}
    return init, bursts


def run_bursts(init_ops, bursts, recursive=True, full=False, small_reads=False, vanish_at=None, rm_fault_at=None, gate_reads=False,
               vanish_file=False, vanish_back=False, overflow_at=None, walk_fault_at=None):
    """every burst is issued while the reader is held off; returns the delivered events per burst, the trees and probes"""
    r = Run(recursive, full, False, small_reads=small_reads, vanish_at=vanish_at, rm_fault_at=rm_fault_at, gate_reads=gate_reads,
            vanish_file=vanish_file, vanish_back=vanish_back, overflow_at=overflow_at, walk_fault_at=walk_fault_at)
    try:
        for op in init_ops:
            r.uni.apply(op)
        initial_tree = r.uni.tree("W")
        initial_outside = r.uni.tree("O")
        r.start()
        r.reader_lock()
        per, applied_all, timeout = [], [], False
        for b in bursts:
            applied, evs = r.burst(b)
            applied_all.append(applied)
            if evs is None:
                timeout = True
                break
            per.append(evs)
        tree = r.uni.tree("W") if r.root_exists() else {}
        probe_results = []
        if r.root_exists() and not timeout:
            for d in ["W"] + sorted(p for p, k in tree.items() if k == "d"):
                pr = f"{d}/__probe"
                ok, evs = r.step(("create", pr))
                seen = evs is not None and any(c == "FileCreatedEvent" and s == pr for c, s, _d, _y in evs)
                probe_results.append((d, d.count("/"), seen))
                r.step(("unlink", pr))
        return {"per_op": per, "applied": applied_all, "tree": tree, "initial_tree": initial_tree, "timeout": timeout,
                "thread_errors": list(r.thread_errors), "probes": probe_results, "vanished": list(r.vanished), "rm_faults": r.rm_faults, "overflows": r.overflows, "walk_faults": list(r.walk_faults),
                "root_gone": not r.root_exists(), "initial_outside": initial_outside}
    finally:
        r.stop()


def creations(applied_bursts, initial_tree, initial_outside):
    """how often the history created (or brought into the tree) each path - an upper bound for created events"""
    tree = dict(initial_tree)
    outside = dict(initial_outside)
    count = {}

    def bump(p):
        count[p] = count.get(p, 0) + 1

    for b in applied_bursts:
        for op in b:
            k = op[0]
            if k in ("create", "mkdir"):
                (tree if op[1].startswith("W/") else outside)[op[1]] = "f" if k == "create" else "d"
                if op[1].startswith("W/"):
                    bump(op[1])
            elif k in ("unlink", "rmdir"):
                tree.pop(op[1], None)
                outside.pop(op[1], None)
            elif k == "rmtree":
                for q in [q for q in tree if q == op[1] or q.startswith(op[1] + "/")]:
                    del tree[q]
            elif k == "rename":
                s_, d_ = op[1], op[2]
                src_t = tree if s_.startswith("W/") else outside
                dst_t = tree if d_.startswith("W/") else outside
                moved = {q: v for q, v in src_t.items() if q == s_ or q.startswith(s_ + "/")}
                for q in moved:
                    del src_t[q]
                for q, v in moved.items():
                    nq = d_ + q[len(s_):]
                    dst_t[nq] = v
                    if d_.startswith("W/"):
                        bump(nq)
    return count
