"""C08 correspondence: the real InotifyBuffer (reader thread + DelayedQueue) with its Inotify
replaced by a scripted stub delivering native batches at virtual times, under the deterministic
scheduler, against WD.IB (same batches, same schedule: enabled sets and the delivered stream of
singles / pairs with virtual times)."""
from __future__ import annotations

import itertools

import detsched

detsched.install()

import common  # noqa: E402
import explore  # noqa: E402

TICK = 0.125
DELAY_TICKS = 4
BASE = 1000.0
ROOT = b"/root"


def ticks(clock):
    t = (clock - BASE) / TICK
    assert abs(t - round(t)) < 1e-9, clock
    return int(round(t))


# record kinds: (name, flags movedFrom movedTo ignored deleteSelf isRoot)
def rec(i, kind, cookie=0, root=False):
    return {"id": i, "kind": kind, "cookie": cookie, "root": root}


def flags(r):
    k = r["kind"]
    return "".join("1" if b else "0" for b in (k == "from", k == "to", k == "ignored", k == "delself", r["root"]))


def request(batches, gets, closer_sleep, schedule):
    toks = [f"ib {DELAY_TICKS} B {len(batches)}"]
    for gap, recs in batches:
        toks.append(f"{gap} {len(recs)}")
        for r in recs:
            toks.append(f"{r['id']} {r['cookie']} {flags(r)}")
    toks.append(f"G {gets} C {closer_sleep} S {len(schedule)}")
    toks += [str(x) for x in schedule]
    return " ".join(toks)


def make_run(batches, gets, closer_sleep):
    from watchdog.observers import inotify_buffer as ib
    from watchdog.observers.inotify_c import InotifyConstants as C
    from watchdog.observers.inotify_c import InotifyEvent
    from watchdog.utils.delayed_queue import DelayedQueue

    if not isinstance(DelayedQueue.__dict__.get("_closed"), detsched.Yielding):
        DelayedQueue._closed = detsched.Yielding("_closed", on=("set",))

    def mk_event(r):
        mask = {"from": C.IN_MOVED_FROM, "to": C.IN_MOVED_TO, "ignored": C.IN_IGNORED, "delself": C.IN_DELETE_SELF,
                "create": C.IN_CREATE, "modify": C.IN_MODIFY, "delete": C.IN_DELETE}[r["kind"]]
        path = ROOT if r["root"] else ROOT + b"/n%d" % r["id"]
        ev = InotifyEvent(1, mask, r["cookie"], b"n%d" % r["id"], path)
        ev._wd_id = r["id"]
        return ev

    def run_one(chooser):
        import threading
        import time

        sched = detsched.Scheduler(chooser, max_steps=4000)
        pending = [(gap, [mk_event(r) for r in recs]) for gap, recs in batches]

        class StubInotify:
            def __init__(self, path, **kw):
                self._path = path
                self._closed_ev = threading.Event()

            @property
            def path(self):
                return self._path

            def read_events(self, **kw):
                if pending:
                    gap, evs = pending.pop(0)
                    time.sleep(gap * TICK)
                    return evs
                self._closed_ev.wait()
                return []

            def close(self):
                self._closed_ev.set()

        real_inotify = ib.Inotify
        ib.Inotify = StubInotify
        ib.InotifyBuffer._det_name = "0"
        try:
            buf = sched.create(lambda: ib.InotifyBuffer(ROOT, recursive=True))
        finally:
            ib.Inotify = real_inotify
        delivered = []

        def consumer():
            for _ in range(gets):
                x = buf.read_event()
                t = ticks(time.time())
                if x is None:
                    delivered.append(f"None@{t}")
                elif isinstance(x, tuple):
                    delivered.append(f"P{x[0]._wd_id}-{x[1]._wd_id}@{t}")
                else:
                    delivered.append(f"S{x._wd_id}@{t}")

        def closer():
            time.sleep(closer_sleep * TICK)
            buf.close()

        failure = None
        try:
            sched.run_threads([consumer, closer], ["1", "2"])
        except (detsched.Deadlock, detsched.StepLimit) as e:
            failure = e
        steps = " ".join(f"{ticks(clk)}:{','.join(en)}>{ch}" for _n, clk, en, ch, _l in sched.trace)
        alldone = failure is None and all(t.status == "done" for t in sched.order)
        result = {
            "line": f"{steps} | {' '.join(delivered)} | q={len(buf._queue._queue)} done={int(alldone)} clock={ticks(sched.clock)}",
            "schedule": [int(t[3]) for t in sched.trace], "failure": failure, "uncaught": list(sched.uncaught),
            "delivered": delivered,
        }
        return sched, result

    return run_one


def judge(batches, result, closer_sleep):
    """C08 over one observed run: every non-IGNORED record at most once (alone or in a pair), exactly
    once if the stream drained before close; singles in kernel order; a pair has equal cookies; an
    unmatched MOVED_FROM is delivered alone no earlier than delay after it was read"""
    recs = {r["id"]: r for _g, rs in batches for r in rs}
    arrival = {}
    t = 0
    for gap, rs in batches:
        t += gap
        for r in rs:
            arrival[r["id"]] = t
    seen = []
    last_single = 0
    for d in result["delivered"]:
        body, _, at = d.partition("@")
        at = int(at)
        if body == "None":
            continue
        if body[0] == "S":
            i = int(body[1:])
            seen.append(i)
            if recs[i]["kind"] == "ignored":
                return f"IGNORED record {i} handed to the emitter"
            if i < last_single:
                return f"single {i} delivered after single {last_single}: kernel order broken"
            last_single = i
            if recs[i]["kind"] == "from" and at < arrival[i] + DELAY_TICKS:
                return f"unmatched MOVED_FROM {i} (read at >= {arrival[i]}) delivered alone at {at} < delay"
        else:
            f, to = (int(x) for x in body[1:].split("-"))
            seen += [f, to]
            if recs[f]["cookie"] != recs[to]["cookie"] or recs[f]["kind"] != "from" or recs[to]["kind"] != "to":
                return f"pair ({f},{to}) is not the two halves of one rename"
    # both halves of one rename read in the SAME batch are handed out as one pair, whatever lies between them
    singles = {int(d.partition("@")[0][1:]) for d in result["delivered"] if d[0] == "S"}
    for _gap, rs in batches:
        for a_ in rs:
            if a_["kind"] != "from":
                continue
            for b_ in rs:
                if b_["kind"] == "to" and b_["cookie"] == a_["cookie"] and b_["id"] > a_["id"] and \
                        (a_["id"] in singles or b_["id"] in singles):
                    return (f"MOVED_FROM {a_['id']} and MOVED_TO {b_['id']} (cookie {a_['cookie']}) were read in one batch but "
                            "not delivered as one pair")
    for i in set(seen):
        if seen.count(i) > 1:
            return f"record {i} delivered {seen.count(i)} times"
    # nothing lost: once the queue has drained and the consumer was still asking, a read batch of which
    # one record was delivered must have been delivered completely (the reader puts whole batches)
    line = result["line"]
    starved = len(result["delivered"]) == 0 or not result["delivered"][-1].startswith("None")
    if " q=0 " in line and "done=1" in line and not starved:
        for _gap, rs in batches:
            ids = [r["id"] for r in rs if r["kind"] != "ignored"]
            if any(i in seen for i in ids) and not all(i in seen for i in ids):
                return f"records {[i for i in ids if i not in seen]} of a read batch were lost (delivered: {sorted(set(seen))})"
    return None


def scenarios(r, thorough):
    out = []
    gaps = [0, 3, 4, 5]
    for g in gaps:
        out.append((f"rename-split gap{g}", [(0, [rec(1, "from", 7)]), (g, [rec(2, "to", 7), rec(3, "create")])], 4, 12))
        out.append((f"rename-with-noise gap{g}", [(0, [rec(1, "create"), rec(2, "from", 7)]),
                                                 (g, [rec(3, "modify"), rec(4, "to", 7)])], 5, 12))
    out.append(("same-batch", [(0, [rec(1, "from", 7), rec(2, "modify"), rec(3, "to", 7), rec(4, "from", 8)])], 4, 9))
    out.append(("unmatched-both", [(0, [rec(1, "to", 5), rec(2, "from", 6)]), (2, [rec(3, "to", 9)])], 4, 10))
    out.append(("two-renames-crossing", [(0, [rec(1, "from", 1), rec(2, "from", 2)]), (3, [rec(3, "to", 2), rec(4, "to", 1)])], 3, 10))
    # two renames overlapping in time, every half in its own read: the first half of the first one is paired away while
    # the consumer sleeps on it; the second one's first half must still wait for ITS delay
    out.append(("two-renames-overlapping", [(0, [rec(1, "from", 1)]), (3, [rec(2, "from", 2)]), (1, [rec(3, "to", 1)]),
                                            (2, [rec(4, "to", 2)])], 4, 14))
    out.append(("ignored-and-root-delete", [(0, [rec(1, "delete"), rec(2, "ignored")]),
                                            (1, [rec(3, "delself", root=True), rec(4, "ignored", root=True), rec(5, "create")]),
                                            (1, [rec(6, "create")])], 5, 8))
    out.append(("close-early", [(0, [rec(1, "from", 7)]), (6, [rec(2, "to", 7)])], 3, 2))
    n = 40 if thorough else 10
    for i in range(n):
        ids = itertools.count(1)
        batches = []
        open_cookies = []
        ck = itertools.count(1)
        for _ in range(r.randint(1, 3)):
            recs = []
            for _ in range(r.randint(1, 3)):
                k = r.random()
                if k < 0.35:
                    c = next(ck)
                    open_cookies.append(c)
                    recs.append(rec(next(ids), "from", c))
                elif k < 0.7 and open_cookies:
                    recs.append(rec(next(ids), "to", open_cookies.pop(r.randrange(len(open_cookies)))))
                elif k < 0.8:
                    recs.append(rec(next(ids), "to", next(ck)))
                else:
                    recs.append(rec(next(ids), r.choice(["create", "modify", "delete", "ignored"])))
            batches.append((r.choice(gaps), recs))
        total = sum(len(b) for _g, b in batches)
        out.append((f"random{i}", batches, r.randint(1, total + 1), r.choice([2, 6, 14])))
    return out


def run(res, tier, lean, proof_breaks=(), build_log=""):
    r = common.rng("c08")
    thorough = tier == "thorough"
    res.cov["rule"] = ("scripted native batches (renames with/without partner, other records, IGNORED, root DELETE_SELF) cut "
                       "into read batches with gaps around the pairing delay, fed to the real InotifyBuffer through a stub "
                       "Inotify; reader / consumer / closer threads under all schedules within a preemption bound (DFS, "
                       "capped) + random schedules; each run replayed step by step in WD.IB and judged; non-trivial = a pair "
                       "or a delayed single was delivered")
    bound = 3 if thorough else 2
    cap = 800 if thorough else 120
    lines, impl, meta = [], [], []
    for name, batches, gets, cs in scenarios(r, thorough):
        run_one = make_run(batches, gets, cs)
        info = {}
        runs = list(explore.dfs(run_one, bound, cap, info))
        runs += list(explore.random_runs(run_one, r, 30 if thorough else 8))
        for sched, result in runs:
            lines.append(request(batches, gets, cs, result["schedule"]))
            impl.append(result["line"])
            meta.append((name, batches, gets, cs, result))
            res.bump("runs")
    outs = lean.run(lines)
    bad, judged = [], []
    for line, o, i, (name, batches, gets, cs, result) in zip(lines, outs, impl, meta):
        res.count()
        if any(d.startswith("P") for d in result["delivered"]):
            res.nontrivial(line)
            res.bump("runs_with_pair")
        if result["uncaught"] or isinstance(result["failure"], detsched.StepLimit):
            judged.append((line, i, o, name, f"{result['failure']!r} {result['uncaught']!r}"))
        v = judge(batches, result, cs)
        if v:
            judged.append((line, i, o, name, v))
        if o != i:
            bad.append((line, i, o, name))
    res.cov["traces_validated_against_impl"] = len(lines)
    res.notes["preemption_bound"] = bound
    res.sample({"request": lines[0], "implementation": impl[0], "model": outs[0]})
    res.sample({"request": lines[-1], "implementation": impl[-1], "model": outs[-1]})
    if judged:
        judged.sort(key=lambda b: len(b[0]))
        line, i, o, name, v = judged[0]
        res.violation(f"InotifyBuffer run violates the property: {v}",
                      {"scenario": name, "request": line, "implementation": i, "model": o, "violating_runs": len(judged)},
                      signature="c08-judge")
    elif bad:
        bad.sort(key=lambda b: len(b[0]))
        line, i, o, name = bad[0]
        res.violation("correspondence WD.IB <-> InotifyBuffer broken (theorems C08.* no longer tied to the code); every "
                      "explored run was judged against the property's trace predicates and none failed",
                      {"correspondence": "harness/c08.py vs lean WD.IB", "scenario": name, "request": line,
                       "implementation": i, "model": o, "mismatching_runs": len(bad)},
                      no_input=True, signature="c08-model-mismatch")


def replay(res, path, lean):
    run(res, "quick", lean)
