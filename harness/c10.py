"""C10 correspondence: the real PollingEmitter (driven synchronously through on_thread_start /
queue_events with injected stat/listdir over a virtual file system with faults) against WD.Poll."""
from __future__ import annotations

import copy
import errno
import itertools
import stat as statmod

import common
from common import enc

ERRNO = {"ENOENT": errno.ENOENT, "ENOTDIR": errno.ENOTDIR, "EINVAL": errno.EINVAL, "EACCES": errno.EACCES,
         "EOTHER": errno.EIO}
ORDER = ["FileDeletedEvent", "FileModifiedEvent", "FileCreatedEvent", "FileMovedEvent",
         "DirDeletedEvent", "DirModifiedEvent", "DirCreatedEvent", "DirMovedEvent"]
TAGS = ["FD", "FM", "FC", "FV", "DD", "DM", "DC", "DV"]


class Node:
    """name, stat = (ino, dev, isdir, mtime, size) | 'ERRNAME', list = [Node] | 'ERRNAME'"""

    def __init__(self, name, st, ls):
        self.name, self.st, self.ls = name, st, ls

    def tokens(self):
        t = ["N", enc(self.name)]
        if isinstance(self.st, str):
            t += ["E", self.st]
        else:
            i, d, k, m, z = self.st
            t += ["S", str(i), str(d), str(int(k)), str(m), str(z)]
        if isinstance(self.ls, str):
            t += ["E", self.ls]
        else:
            t += ["L", str(len(self.ls))]
            for c in self.ls:
                t += c.tokens()
        return t


class VFS:
    def __init__(self):
        self.root = None

    def find(self, path):
        parts = path.split("/")
        n = self.root
        if parts[0] != n.name:
            return None
        for p in parts[1:]:
            if isinstance(n.ls, str):
                return None
            n = next((c for c in n.ls if c.name == p), None)
            if n is None:
                return None
        return n

    def stat(self, path):
        n = self.find(path)
        if n is None:
            raise OSError(errno.ENOENT, "gone", path)
        if isinstance(n.st, str):
            raise OSError(ERRNO[n.st], n.st, path)
        ino, dev, isdir, mtime, size = n.st

        class St:
            st_ino, st_dev, st_mtime, st_size = ino, dev, mtime, size
            st_mode = (statmod.S_IFDIR | 0o755) if isdir else (statmod.S_IFREG | 0o644)

        return St

    def listdir(self, path):
        n = self.find(path)
        if n is None:
            raise OSError(errno.ENOENT, "gone", path)
        if isinstance(n.ls, str):
            raise OSError(ERRNO[n.ls], n.ls, path)

        class Ent:
            def __init__(self, name):
                self.name = name

        return [Ent(c.name) for c in n.ls]


def mk(name, ino, isdir=False, mtime=1, size=0, children=None):
    return Node(name, (ino, 1, isdir, mtime, size), children if children is not None else [])


def base_trees():
    f = lambda n, i, **k: mk(n, i, **k)  # noqa: E731
    return [
        mk("r", 100, True, children=[]),
        mk("r", 100, True, children=[f("a", 1)]),
        mk("r", 100, True, children=[f("a", 1), f("b", 2)]),
        mk("r", 100, True, children=[mk("d", 3, True, children=[f("a", 1)]), f("b", 2)]),
        mk("r", 100, True, children=[mk("d", 3, True, children=[mk("e", 4, True, children=[f("x", 5)])])]),
        mk("r", 100, True, children=[f("b", 1), mk("d", 3, True, children=[f("a", 2, mtime=2)])]),
        mk("r", 100, True, mtime=2, children=[mk("a", 3, True, children=[]), f("d", 1)]),
        mk("r", 100, True, children=[mk("d", 3, True, children=[f("a", 1), f("b", 2)]), mk("e", 4, True, children=[])]),
        # sibling directories that both have contents: a fault in one must not hide the other's entries
        mk("r", 100, True, children=[mk("d", 3, True, children=[f("a", 1)]), mk("e", 4, True, children=[f("x", 5)]),
                                     mk("g", 6, True, children=[mk("h", 7, True, children=[f("y", 8)])])]),
    ]


def positions(node, prefix=()):
    """all (path-to-node, kind) call positions of a walk of this tree"""
    out = [(prefix, "stat")]
    if not isinstance(node.st, str) and node.st[2]:
        out.append((prefix, "list"))
        if not isinstance(node.ls, str):
            for i, c in enumerate(node.ls):
                out += positions(c, prefix + (i,))
    return out


def with_fault(tree, pos, kind, err):
    t = copy.deepcopy(tree)
    n = t
    for i in pos:
        n = n.ls[i]
    if kind == "stat":
        n.st = err
    else:
        n.ls = err
    return t


def render_events(evs):
    names = [type(e).__name__ for e, _w in evs]
    idx = [ORDER.index(n) for n in names]
    # the property orders only: deletions of a kind before creations of that kind
    for dele, crea in (("FileDeletedEvent", "FileCreatedEvent"), ("DirDeletedEvent", "DirCreatedEvent")):
        if dele in names and crea in names and max(i for i, n in enumerate(names) if n == dele) > \
                min(i for i, n in enumerate(names) if n == crea):
            return "ORDER-VIOLATION " + ",".join(names)
    groups = {t: [] for t in TAGS}
    for (e, _w), i in zip(evs, idx):
        groups[TAGS[i]].append(enc(e.src_path) + (">" + enc(e.dest_path) if e.dest_path else ""))
    return " ".join(t + "[" + ",".join(sorted(groups[t])) + "]" for t in TAGS)


def render_snap(snap):
    items = []
    for p in snap.paths:
        st = snap.stat_info(p)
        items.append(f"{enc(p)}:{st.st_ino}:{int(statmod.S_ISDIR(st.st_mode))}:{st.st_mtime}:{st.st_size}")
    return "P[" + ",".join(sorted(items)) + "]"


def run_case(states, recursive):
    import queue as queue_mod

    from watchdog.observers.api import EventQueue, ObservedWatch
    from watchdog.observers.polling import PollingEmitter

    vfs = VFS()
    q = EventQueue()
    em = PollingEmitter(q, ObservedWatch("r", recursive=recursive), timeout=0, stat=vfs.stat, listdir=vfs.listdir)
    vfs.root = states[0]
    try:
        em.on_thread_start()
    except OSError:
        return "start:raise"
    out = ["start:ok " + render_snap(em._snapshot)]
    for st in states[1:]:
        vfs.root = st
        try:
            em.queue_events(0)
        except Exception as e:  # noqa: BLE001
            out.append(f"RAISED:{type(e).__name__}")
            continue
        evs = []
        while True:
            try:
                evs.append(q.get_nowait())
            except queue_mod.Empty:
                break
        if not em.should_keep_running():
            if len(evs) == 1 and type(evs[0][0]).__name__ == "DirDeletedEvent":
                out.append(f"ROOTGONE[{enc(evs[0][0].src_path)}] stopped")
            elif not evs:
                out.append("STOPPED stopped")
            else:
                out.append("STOPPED-WITH-EVENTS " + render_events(evs))
        else:
            out.append(render_events(evs) + " " + render_snap(em._snapshot))
    return " ; ".join(out)


def request(states, recursive):
    toks = ["poll", str(int(recursive)), str(len(states))]
    for s in states:
        toks += s.tokens()
    return " ".join(toks)


def mutate(r, tree, inos):
    t = copy.deepcopy(tree)
    dirs = []

    def collect(n):
        if not isinstance(n.st, str) and n.st[2] and not isinstance(n.ls, str):
            dirs.append(n)
            for c in n.ls:
                collect(c)
    collect(t)
    for _ in range(r.randint(1, 3)):
        d = r.choice(dirs)
        k = r.random()
        if k < 0.3:
            name = r.choice("abxy")
            if all(c.name != name for c in d.ls):
                d.ls.append(mk(name, next(inos), r.random() < 0.3))
        elif k < 0.5 and d.ls:
            d.ls.pop(r.randrange(len(d.ls)))
        elif k < 0.7 and d.ls:
            c = r.choice(d.ls)
            if not isinstance(c.st, str):
                c.st = (c.st[0], c.st[1], c.st[2], c.st[3] + 1, c.st[4])
        elif k < 0.9 and d.ls:
            c = d.ls.pop(r.randrange(len(d.ls)))
            d2 = r.choice(dirs)
            c.name = r.choice("abmn")
            if all(x.name != c.name for x in d2.ls) and d2 is not c:
                d2.ls.append(c)
        else:
            d.st = (d.st[0], d.st[1], d.st[2], d.st[3] + 1, d.st[4])
    return t


def run(res, tier, lean, proof_breaks=(), build_log=""):
    r = common.rng("c10")
    thorough = tier == "thorough"
    res.cov["rule"] = ("sequences of virtual tree states polled by the real PollingEmitter; (a) every ordered pair of 8 base "
                       "trees, recursive and non-recursive; (b) a fault (ENOENT/ENOTDIR/EINVAL/EACCES/EIO) injected at EVERY "
                       "stat/listdir call position of every base tree, as baseline and as polled state; (c) random edit "
                       "sequences of length 2-6 with occasional faults; non-trivial = some event or a fault handled")
    bases = base_trees()
    cases = []
    for a, b in itertools.product(bases, repeat=2):
        for rec in (True, False):
            cases.append(([a, b, b], rec, "pairs"))
    errs = ["ENOENT", "ENOTDIR", "EINVAL", "EACCES", "EOTHER"]
    n_fault_positions = 0
    for t in bases:
        for pos, kind in positions(t):
            n_fault_positions += 1
            for e in errs:
                ft = with_fault(t, pos, kind, e)
                for rec in (True, False):
                    cases.append(([t, ft, t], rec, "fault_polled"))
                    cases.append(([ft, t], rec, "fault_baseline"))
    res.notes["fault_call_positions"] = n_fault_positions
    inos = itertools.count(200)
    for _ in range(3000 if thorough else 500):
        t = copy.deepcopy(r.choice(bases))
        states = [t]
        for _ in range(r.randint(1, 5)):
            t = mutate(r, t, inos)
            if r.random() < 0.15:
                pos, kind = r.choice(positions(t))
                states.append(with_fault(t, pos, kind, r.choice(errs)))
            else:
                states.append(t)
        cases.append((states, r.random() < 0.7, "random"))
    lines, impl, meta = [], [], []
    for states, rec, label in cases:
        lines.append(request(states, rec))
        impl.append(run_case(states, rec))
        meta.append((label, rec))
    outs = lean.run(lines)
    bad = []
    for line, o, i, (label, rec) in zip(lines, outs, impl, meta):
        res.count()
        res.bump(label)
        if any(x not in ("", ) for x in i.replace("[]", "").split() if x.startswith(tuple(TAGS)) and "[" in x and not x.endswith("[]")) \
                or "ROOTGONE" in i or "raise" in i:
            res.nontrivial(line)
        if "ROOTGONE" in i:
            res.bump("root_gone")
        if o != i:
            bad.append((line, i, o, label, rec))
    res.cov["exhaustive"] = True
    res.notes["exhaustive_scope"] = "all ordered pairs of the base trees; a fault at every call position of every base tree x 5 errno"
    res.sample({"request": lines[3], "implementation": impl[3], "model": outs[3]})
    res.sample({"request": lines[len(bases) ** 2 * 2 + 7], "implementation": impl[len(bases) ** 2 * 2 + 7],
                "model": outs[len(bases) ** 2 * 2 + 7]})
    if bad:
        bad.sort(key=lambda b: len(b[0]))
        line, i, o, label, rec = bad[0]
        res.violation(f"PollingEmitter deviates from the specified snapshot/diff/fault behaviour ({label}, recursive={rec}): "
                      f"implementation {i[:200]!r} expected {o[:200]!r}",
                      {"request": line, "implementation": i, "model": o, "mismatching_cases": len(bad)},
                      signature="c10-" + label)


def replay(res, path, lean):
    run(res, "quick", lean)
