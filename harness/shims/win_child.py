"""Child process: imports watchdog.observers.winapi on Linux behind shims (fake kernel32 through
ctypes.WinDLL, 32-bit DWORD/BOOL) and decodes the hex buffers given on stdin with the real
`_parse_event_buffer`.  One line in (`<nbytes> <hex>`), one line out (`action:hexname16le ...` or ERROR)."""
import ctypes
import ctypes.wintypes
import sys

sys.path.insert(0, sys.argv[1])


class _FakeFunc:
    def __init__(self, name):
        self.name = name
        self.restype = None
        self.argtypes = None
        self.errcheck = None

    def __call__(self, *a):
        raise OSError("fake kernel32: " + self.name)


class _FakeDLL:
    def __init__(self, name, **kw):
        self._name = name

    def __getattr__(self, n):
        f = _FakeFunc(n)
        setattr(self, n, f)
        return f


ctypes.WinDLL = _FakeDLL
ctypes.WinError = lambda *a: OSError("WinError")
ctypes.wintypes.DWORD = ctypes.c_uint32
ctypes.wintypes.BOOL = ctypes.c_int32
ctypes.wintypes.HANDLE = ctypes.c_void_p
ctypes.wintypes.LPVOID = ctypes.c_void_p

import watchdog.utils.platform as plat  # noqa: E402

plat.is_windows = lambda: True
from watchdog.observers import winapi  # noqa: E402

for line in sys.stdin:
    line = line.strip()
    if not line:
        continue
    n, hx = line.split(" ")
    buf = bytes.fromhex(hx if hx != "-" else "")
    # the real caller hands over a 64000-byte buffer; keep slack after the data like it does
    cbuf = ctypes.create_string_buffer(buf + b"\xaa" * 64, len(buf) + 64)
    try:
        out = winapi._parse_event_buffer(cbuf.raw, int(n))
        print(" ".join(f"{a}:{name.encode('utf-16-le', 'surrogatepass').hex() or '-'}" for a, name in out) or "EMPTY", flush=True)
    except Exception as e:  # noqa: BLE001
        print("ERROR:" + type(e).__name__, flush=True)
