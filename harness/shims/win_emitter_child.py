"""Child process: the real `WindowsApiEmitter` on Linux behind import shims (fake kernel32 through
ctypes.WinDLL, 32-bit DWORD/BOOL; nothing of kernel32 is ever called: `_read_events` is replaced by the
batch the parent supplies, wrapped in the real `WinAPINativeEvent`).  Names use `/` as separator (the
scratch tree lives on this Linux file system).  JSON lines in, JSON lines out."""
import ctypes
import ctypes.wintypes
import json
import queue
import sys

sys.path.insert(0, sys.argv[1])


class _FakeFunc:
    def __init__(self, name):
        self.name = name
        self.restype = None
        self.argtypes = None
        self.errcheck = None

    def __call__(self, *a):
        raise OSError("fake kernel32: " + self.name)


class _FakeDLL:
    def __init__(self, name, **kw):
        self._name = name

    def __getattr__(self, n):
        f = _FakeFunc(n)
        setattr(self, n, f)
        return f


ctypes.WinDLL = _FakeDLL
ctypes.WinError = lambda *a: OSError("WinError")
ctypes.wintypes.DWORD = ctypes.c_uint32
ctypes.wintypes.BOOL = ctypes.c_int32
ctypes.wintypes.HANDLE = ctypes.c_void_p
ctypes.wintypes.LPVOID = ctypes.c_void_p

import watchdog.utils.platform as plat  # noqa: E402

plat.is_windows = lambda: True
from watchdog.observers import winapi  # noqa: E402
from watchdog.observers.api import ObservedWatch  # noqa: E402
from watchdog.observers.read_directory_changes import WindowsApiEmitter  # noqa: E402

ACTIONS = {"add": winapi.FILE_ACTION_ADDED, "rem": winapi.FILE_ACTION_REMOVED, "mod": winapi.FILE_ACTION_MODIFIED,
           "old": winapi.FILE_ACTION_RENAMED_OLD_NAME, "new": winapi.FILE_ACTION_RENAMED_NEW_NAME,
           "self": winapi.FILE_ACTION_REMOVED_SELF}

emitter = None
q = None
for line in sys.stdin:
    line = line.strip()
    if not line:
        continue
    m = json.loads(line)
    try:
        if m["cmd"] == "new":
            q = queue.Queue()
            emitter = WindowsApiEmitter(q, ObservedWatch(m["root"], recursive=m["recursive"]))
            print(json.dumps({"ok": True}), flush=True)
        elif m["cmd"] == "batch":
            recs = [winapi.WinAPINativeEvent(ACTIONS[a], name) for a, name in m["recs"]]
            emitter._read_events = lambda recs=recs: recs
            emitter.queue_events(1)
            out = []
            while True:
                try:
                    ev, _w = q.get_nowait()
                except queue.Empty:
                    break
                out.append([type(ev).__name__, ev.src_path, getattr(ev, "dest_path", ""), bool(ev.is_synthetic)])
            print(json.dumps({"events": out, "running": emitter.should_keep_running()}), flush=True)
        elif m["cmd"] == "quit":
            break
    except Exception as e:  # noqa: BLE001
        print(json.dumps({"error": type(e).__name__ + ": " + str(e)}), flush=True)
