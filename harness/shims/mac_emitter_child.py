"""Child process: the real `FSEventsEmitter` on Linux behind a fake `_watchdog_fsevents` extension module
(a `NativeEvent` with the attributes the emitter reads; add_watch/read_events/stop never called:
the parent calls `queue_events` with the callback's batch directly, as `events_callback` does under
its lock).  JSON lines in, JSON lines out."""
import json
import queue
import sys
import types

sys.path.insert(0, sys.argv[1])


class NativeEvent:
    def __init__(self, path, inode, flags, event_id=0):
        self.path = path
        self.inode = inode
        self.flags = flags
        self.event_id = event_id
        f = flags
        self.is_created = "c" in f
        self.is_removed = "r" in f
        self.is_renamed = "n" in f
        self.is_modified = "m" in f
        self.is_inode_meta_mod = "t" in f
        self.is_xattr_mod = False
        self.is_owner_change = False
        self.is_root_changed = "x" in f
        self.is_directory = "d" in f
        self.is_file = "d" not in f
        self.is_symlink = False
        self.is_coalesced = False

    def __repr__(self):
        return f"NativeEvent({self.path!r}, {self.inode}, {self.flags!r})"


fake = types.ModuleType("_watchdog_fsevents")
fake.NativeEvent = NativeEvent
for _n in ("add_watch", "read_events", "remove_watch", "stop"):
    setattr(fake, _n, lambda *a, **k: None)
sys.modules["_watchdog_fsevents"] = fake

from watchdog.observers.api import ObservedWatch  # noqa: E402
from watchdog.observers.fsevents import FSEventsEmitter  # noqa: E402

emitter = None
q = None
for line in sys.stdin:
    line = line.strip()
    if not line:
        continue
    m = json.loads(line)
    try:
        if m["cmd"] == "new":
            q = queue.Queue()
            emitter = FSEventsEmitter(q, ObservedWatch(m["root"], recursive=m["recursive"]))
            emitter._start_time = 0.0
            for i in m.get("view", []):
                emitter._fs_view.add(i)
            print(json.dumps({"ok": True}), flush=True)
        elif m["cmd"] == "batch":
            evs = [NativeEvent(p, ino, fl) for p, ino, fl in m["events"]]
            with emitter._lock:
                emitter.queue_events(emitter.timeout, evs)
            out = []
            while True:
                try:
                    ev, _w = q.get_nowait()
                except queue.Empty:
                    break
                out.append([type(ev).__name__, ev.src_path, getattr(ev, "dest_path", ""), bool(ev.is_synthetic)])
            print(json.dumps({"events": out, "running": emitter.should_keep_running(), "view": sorted(emitter._fs_view)}), flush=True)
        elif m["cmd"] == "quit":
            break
    except Exception as e:  # noqa: BLE001
        import traceback
        print(json.dumps({"error": type(e).__name__ + ": " + str(e), "tb": traceback.format_exc()[-600:]}), flush=True)
