"""C01 / C02 / C03 / C07 / C19 on the real kernel (one drained operation at a time) against WD.Pipe."""
from __future__ import annotations

import os
import pathlib
import time

import common
import fsops
import pipe



# burst histories that are always run, each burst read in ONE read (recursive watch)
# a directory removed while it is held open by someone else, then its path re-used: the new directory must be covered both
# before and after the holder lets go (the kernel then sends the old watch's IN_DELETE_SELF / IN_IGNORED)
HELD_HISTORIES = [
    ([("mkdir", "W/a"), ("mkdir", "W/a/b"), ("mkdir", "O/n"), ("mkdir", "O/n/b"), ("mkdir", "O/n/b/d")],
     [[("hold", "W/a/b")], [("rmtree", "W/a")], [("rename", "O/n", "W/a")], [("create", "W/a/b/x")], [("release", "W/a/b")],
      [("create", "W/a/b/d/y")]]),
    ([("mkdir", "W/a"), ("mkdir", "W/a/b")],
     [[("hold", "W/a/b")], [("rmtree", "W/a")], [("mkdir", "W/a"), ("mkdir", "W/a/b"), ("mkdir", "W/a/b/d")], [("create", "W/a/b/x")],
      [("release", "W/a/b")], [("create", "W/a/b/d/y")]]),
    ([("mkdir", "W/a"), ("mkdir", "W/a/b")],
     [[("hold", "W/a/b"), ("hold", "W/a")], [("rmtree", "W/a")], [("mkdir", "W/a")], [("mkdir", "W/a/b")], [("release", "W/a")],
      [("create", "W/a/b/x")], [("release", "W/a/b")], [("create", "W/a/y")]]),
]

# inputs of recorded findings (known_findings.json), per property: run on every check of that property, reported under their own
# signatures
KNOWN_BURSTS = [
    # D26 (C07 only: C01 / C02 exclude it by their pacing condition - the name of a directory that has just left the tree is
    # re-used before the stream has drained; C07 has no pacing condition: "names re-used after deletion or move", "all timings")
    ("C07", "d26-name-reused-within-the-pairing-delay", [("mkdir", "W/a"), ("mkdir", "W/a/s")],
     [[("rename", "W/a", "O/a"), ("mkdir", "W/a")], [("create", "W/a/f")], [("mkdir", "W/a/n")], [("create", "W/a/n/g")]]),
]

FIXED_BURSTS = [
    # a directory leaves the tree and comes back under another name at once: the kernel hands it its old descriptors, and the
    # delayed clean-up of the departure must not remove them (defect D24, repaired)
    ([("mkdir", "W/d"), ("mkdir", "W/d/s")],
     [[("rename", "W/d", "O/d"), ("rename", "O/d", "W/e")], [("create", "W/e/f")], [("create", "W/e/s/g")]]),
    ([("mkdir", "W/d"), ("mkdir", "W/d/s"), ("mkdir", "W/p")],
     [[("rename", "W/d", "O/d"), ("rename", "O/d", "W/p/e"), ("rename", "W/p", "W/q")], [("create", "W/q/e/s/g")], [("rename", "W/q/e", "O/x")],
      [("create", "O/x/s/h")]]),
    # a directory is made and the directory it is in (or one further up) is renamed at once: the new directory's IN_CREATE is
    # read when its path is gone - it must be covered all the same (defect D23, repaired)
    ([("mkdir", "W/a")], [[("mkdir", "W/a/b"), ("rename", "W/a", "W/c")], [("create", "W/c/b/f")]]),
    ([("mkdir", "W/a"), ("mkdir", "W/a/p"), ("mkdir", "O/n"), ("mkdir", "O/n/dd")],
     [[("rename", "O/n", "W/a/p/n"), ("rename", "W/a", "W/c")], [("create", "W/c/p/n/dd/f")], [("mkdir", "W/c/p/x"), ("rename", "W/c/p", "W/q")],
      [("create", "W/q/x/g")]]),
    # two new top-level directories in one read, the first one populated before the reader gets to it
    ([], [[("mkdir", "W/p"), ("mkdir", "W/p/q"), ("create", "W/p/q/f"), ("mkdir", "W/r"), ("create", "W/r/g"), ("mkdir", "W/t")],
          [("create", "W/p/q/h")]]),
    # names announced by the walk of a nested burst are vacated by renames and made again later (paced)
    ([], [[("mkdir", "W/a"), ("mkdir", "W/a/b"), ("create", "W/a/b/f")], [("rename", "W/a/b/f", "W/a/b/g")], [("create", "W/a/b/f")],
          [("rename", "W/a/b", "W/a/d")], [("mkdir", "W/a/b")], [("create", "W/a/b/n"), ("create", "W/a/d/f2")]]),
    # two sibling sub-trees, each three deep, found by the walk only
    ([], [[("mkdir", "W/T"), ("mkdir", "W/T/x"), ("mkdir", "W/T/y"), ("mkdir", "W/T/x/1"), ("mkdir", "W/T/y/2"), ("mkdir", "W/T/x/1/p"),
           ("mkdir", "W/T/y/2/q"), ("create", "W/T/x/1/p/f")], [("create", "W/T/x/1/p/g"), ("create", "W/T/y/2/q/g")]]),
    # a directory leaves the tree and, before the emitter has dealt with it (the pairing delay), the directory it used to be
    # in - or one further up - is renamed: what happens to the departed directory afterwards is none of the watch's business
    # (defect D21).  Within the pacing condition: the second operation touches neither the departed directory's contents
    # nor its name
    ([("mkdir", "W/p"), ("mkdir", "W/p/d"), ("create", "W/p/d/f")],
     [[("rename", "W/p/d", "O/d"), ("rename", "W/p", "W/q")], [("create", "O/d/x")], [("unlink", "O/d/f")], [("create", "W/q/y")]]),
    # the same with an unrelated departure just before (its record is dealt with first)
    ([("mkdir", "W/z"), ("mkdir", "W/e"), ("mkdir", "W/a"), ("mkdir", "W/a/x"), ("mkdir", "W/a/x/dd"), ("create", "W/a/x/dd/f")],
     [[("rename", "W/z", "O/z"), ("rename", "W/a/x", "O/x"), ("rename", "W/a", "W/b")], [("create", "O/x/dd/g")], [("unlink", "O/x/dd/f")],
      [("create", "W/b/y")], [("rename", "O/x", "W/e/x2")], [("rename", "W/b", "W/c")], [("create", "W/e/x2/dd/h")]]),
    ([("mkdir", "W/a"), ("mkdir", "W/a/p"), ("mkdir", "W/a/p/d"), ("mkdir", "W/a/p/d/dd"), ("create", "W/a/p/d/dd/f")],
     [[("rename", "W/a/p/d", "O/d"), ("rename", "W/a", "W/b")], [("create", "O/d/dd/x")], [("mkdir", "O/d/n")], [("create", "W/b/p/y")],
      [("rename", "O/d", "W/b/p/back")], [("create", "W/b/p/back/dd/z")]]),
]


def run(res, tier, lean, prop="C01", proof_breaks=(), build_log=""):
    r = common.rng("pipe-" + prop)
    thorough = tier == "thorough"
    res.cov["rule"] = ("operation histories (create/write/chmod/unlink/mkdir/rmdir/rmtree/rename incl. replace, moves out of and "
                       "into the tree, whole directory trees) over a colliding name universe on a real scratch directory "
                       "watched by the real InotifyObserver on the real kernel, every operation drained before the next; "
                       "recursive and non-recursive, normal and full emitters, str and bytes roots; each history replayed in "
                       "WD.Pipe and judged; non-trivial = the history delivered at least one event")
    hists = [(i, o) for i, o in pipe.FIXED]
    outside = True              # nothing outside the tree is watched (D2 repaired): operations there must stay silent
    if True:
        hists += [
            # a populated directory from OUTSIDE the tree replaces an existing empty watched directory (the replaced inode's
            # watch dies afterwards: IN_DELETE_SELF / IN_IGNORED follow the IN_MOVED_TO): the arrival and what it holds must be
            # watched from then on; the same inside the tree (the re-keying branch)
            ([("mkdir", "W/db"), ("mkdir", "O/a"), ("mkdir", "O/a/d"), ("create", "O/a/d/a")],
             [("rename", "O/a", "W/db"), ("create", "W/db/b"), ("create", "W/db/d/b"), ("rename", "W/db", "W/dd"), ("create", "W/dd/d/d"),
              ("rmtree", "W/dd")]),
            ([("mkdir", "W/db"), ("mkdir", "W/a"), ("mkdir", "W/a/d"), ("create", "W/a/d/a")],
             [("rename", "W/a", "W/db"), ("create", "W/db/b"), ("create", "W/db/d/b"), ("mkdir", "W/a"), ("rename", "W/a", "W/db/d/dd"),
              ("create", "W/db/d/dd/a")]),
            ([("mkdir", "W/d"), ("mkdir", "W/d/db"), ("mkdir", "O/a"), ("mkdir", "O/a/d")],
             [("rename", "O/a", "W/d/db"), ("create", "W/d/db/d/a"), ("rename", "W/d/db", "O/b"), ("mkdir", "W/d/db"), ("create", "W/d/db/a")]),
            ([("mkdir", "W/d")], [("rename", "W/d", "O/x"), ("mkdir", "W/d"), ("rmdir", "W/d"), ("rmdir", "O/x"), ("create", "W/a")]),
            ([("mkdir", "W/d"), ("mkdir", "W/d/dd")], [("rename", "W/d", "O/x"), ("create", "O/x/a"), ("rmtree", "O/x"), ("mkdir", "W/d")]),
            ([("mkdir", "W/d")], [("rename", "W/d", "O/x"), ("rename", "O/x", "W/dd"), ("create", "W/dd/a"), ("rmdir", "W/dd")]),
            ([], [("mkdir", "W/d"), ("create", "W/d/a"), ("rmtree", "W/d"), ("mkdir", "W/d"), ("create", "W/d/a"), ("unlink", "W/d/a"),
                  ("rmdir", "W/d"), ("rmdir", "W")]),
        ]
    stale_init, stale_ops = pipe.FIXED[1]
    extra = []
    for a in (True, False):
        for b in (True, False):
            extra.append((stale_init, stale_ops, [a, False, b] + [False] * 8))
    n = 60 if thorough else 14
    for _ in range(n):
        init = pipe.gen_history(r, r.randint(2, 8)) if r.random() < 0.6 else []
        t0 = {"W": "d", "O": "d"}
        # the generator's picture of the tree after the initial operations
        t1 = pipe.tree_after(t0, init)
        hists.append((init, pipe.gen_history(r, r.randint(6, 16), tree=t1, allow_outside_ops=outside)))
    lines, impl, meta = [], [], []
    for init, ops, sp in extra:
        result = pipe.run_history(init, ops, recursive=True, full=False, probes=prop in ("C02", "C07"), split=sp)
        if result["timeout"] and not result["thread_errors"]:
            raise RuntimeError("drain timeout (machine stalled?)")
        lines.append(pipe.request(result["init"], result["applied"], True, False))
        impl.append(result["line"])
        meta.append((True, False, False, result))
        res.bump("histories")
        res.bump("reads_scripted")
    if prop == "C07":
        # the root spelled with a trailing separator, then removed: one DirDeletedEvent(root), the emitter stops
        for recursive in (True, False):
            result = pipe.run_history([], [("create", "W/a"), ("unlink", "W/a"), ("rmdir", "W")], recursive=recursive,
                                      root_spelling=lambda uni: uni.root + "/")
            lines.append(pipe.request(result["init"], result["applied"], recursive, False))
            impl.append(result["line"])
            meta.append((recursive, False, False, result))
            res.bump("histories")
            res.bump("root_with_trailing_separator")
            if not result["emitter_stopped"]:
                res.violation("native observer violates C07: the watched root (given with a trailing separator) was removed but its "
                              f"emitter did not stop; delivered: {result['line']}",
                              {"root": "W/", "recursive": recursive, "delivered": result["line"]}, signature="c07-root-trailing-sep")
    n_fixed = len(pipe.FIXED) + 4
    configs = []
    for hi, (init, ops) in enumerate(hists):
        for recursive in (True, False):
            # the fixed histories run under a recursive watch with BOTH emitters (normal and generate_full_events: the
            # departure of a directory is then reported by another branch of queue_events), the others draw one
            fulls = (False, True) if (hi < n_fixed and recursive) else (r.random() < 0.25,)
            for full in fulls:
                configs.append((init, ops, recursive, full))
    for init, ops, recursive, full in configs:
        if True:
            as_bytes = r.random() < 0.25
            # how the kernel buffer is split between reads: per operation, the whole batch at once or one record per read
            mode = r.random()
            split = None if mode < 0.3 else ([True] if mode < 0.5 else [r.random() < 0.5 for _ in range(max(1, len(ops)))])
            res.bump("reads_default" if split is None else "reads_one_record" if split == [True] else "reads_mixed")
            result = pipe.run_history(init, ops, recursive=recursive, full=full, as_bytes=as_bytes, probes=prop in ("C02", "C07"),
                                      split=split)
            if result["timeout"] and not result["thread_errors"]:
                raise RuntimeError("drain timeout (machine stalled?)")
            lines.append(pipe.request(result["init"], result["applied"], recursive, full))
            impl.append(result["line"])
            meta.append((recursive, full, as_bytes, result))
            res.bump("histories")
            res.bump("recursive" if recursive else "non_recursive")
            res.bump("operations", len(result["applied"]))
    outs = lean.run(lines)
    # state tie (C02, C03): the library's two watch maps after every drained operation against the model's
    state_bad = []
    if prop in ("C02", "C03"):
        mouts = lean.run([l.replace("pipe ", "pipemaps ", 1) for l in lines])
        for line, mo, (recursive, full, as_bytes, result) in zip(lines, mouts, meta):
            if result["timeout"] or not result.get("maps"):
                continue
            want = mo.split(" ; ")
            got = result["maps"]
            res.bump("map_states_compared", min(len(want), len(got)))
            for k, (a, b) in enumerate(zip(got, want)):
                if a == "-" or b == "-":
                    break
                if a != b:
                    state_bad.append((line, k, a, b))
                    break
    # the theorems' statements evaluated on the very histories that were run (invariant after every operation,
    # per-operation contract, replay): instances of proved statements, recorded as a cross-check of the driver
    spec = lean.run([l.replace("pipe ", "pipespec ", 1) for l in lines])
    res.notes["spec_instances"] = {"histories": len(spec), "inv": sum("inv=1" in o for o in spec),
                                   "contract": sum("contract=1" in o for o in spec), "replay": sum("replay=1" in o for o in spec)}
    if any("inv=0" in o or "contract=0" in o or "replay=0" in o or "crashed=1" in o for o in spec):
        raise RuntimeError("the compiled model contradicts a proved theorem (driver/compiler problem?): " +
                           next(l for l, o in zip(lines, spec) if "=0" in o.replace("crashed=0", "").replace("stopped=0", "")))
    res.notes["histories_all_ops_valid_in_model"] = sum(1 for o in outs if "valid=1" in o)
    res.notes["histories_replayed"] = len(outs)
    invalid = [(l, o) for l, o in zip(lines, outs) if "valid=0" in o]
    if invalid:
        raise RuntimeError("the model's syscall guards reject an operation the real file system accepted: " + invalid[0][0])
    bad, judged = [], []
    for line, o, i, (recursive, full, as_bytes, result) in zip(lines, outs, impl, meta):
        res.count()
        if any(result["per_op"]):
            res.nontrivial(line)
        m, flags = pipe.strip_flags(o)
        v = None
        if result["timeout"] and result["thread_errors"]:
            v = f"a library thread died of an unhandled error and the stream stopped: {result['thread_errors']}"
        elif prop == "C01":
            v = pipe.replay_judge(result, recursive)
        elif prop == "C02":
            for d, depth, seen in result["probes"]:
                if recursive and not seen:
                    v = f"a change inside the existing directory {d} was not reported under a recursive watch"
                if not recursive and depth == 0 and not seen:
                    v = "a change to a direct child of the root was not reported under a non-recursive watch"
                if not recursive and depth > 0 and seen:
                    v = f"a change inside {d} (deeper than the root's children) was reported under a non-recursive watch"
            res.bump("probes", len(result["probes"]))
        elif prop == "C07":
            if result["thread_errors"]:
                v = f"a library thread died of an unhandled error: {result['thread_errors']}"
            elif not result["root_gone"] and any(not seen for d, depth, seen in result["probes"] if recursive or depth == 0):
                v = "later changes in the tree go unreported"
        elif prop == "C19":
            want = bytes if as_bytes else str
            for c, s, d, _y in result["raw"]:
                for pth in (s, d):
                    if pth not in ("", b"") and type(pth) is not want:
                        v = f"event path {pth!r} is {type(pth).__name__}, the watched path was {want.__name__}"
        if v:
            judged.append((line, i, m, v))
        if m != i:
            bad.append((line, i, m))
    res.cov["traces_validated_against_impl"] = len(lines)
    res.sample({"request": lines[0], "implementation": impl[0], "model": outs[0]})
    res.sample({"request": lines[-1], "implementation": impl[-1], "model": outs[-1]})
    if judged:
        judged.sort(key=lambda b: len(b[0]))
        line, i, m, v = judged[0]
        res.violation(f"native observer violates {prop}: {v}", {"request": line, "implementation": i, "model": m,
                                                                "violating_histories": len(judged)},
                      signature=f"{prop.lower()}-judge")
    elif state_bad and not bad:
        state_bad.sort(key=lambda b: len(b[0]))
        line, k, a, b = state_bad[0]
        res.violation(f"correspondence WD.Pipe <-> Inotify broken in the library's watch maps after operation {k} of a drained "
                      f"history (theorems {prop}.* speak about these maps): _wd_for_path/_path_for_wd {a} but the model has {b}; "
                      "every explored history was judged and none failed",
                      {"request": line, "after_operation": k, "implementation_maps": a, "model_maps": b,
                       "mismatching_histories": len(state_bad)}, no_input=True, signature=f"{prop.lower()}-maps-mismatch")
    elif bad:
        bad.sort(key=lambda b: len(b[0]))
        line, i, m = bad[0]
        if prop == "C03":
            res.violation("an operation did not produce its per-operation contract (the model IS the contract in the drained "
                          f"regime): implementation {i[:300]!r} contract {m[:300]!r}",
                          {"request": line, "implementation": i, "model": m, "mismatching_histories": len(bad)},
                          signature="c03-contract")
        else:
            res.violation(f"correspondence WD.Pipe <-> InotifyObserver broken (theorems {prop}.* no longer tied to the code); "
                          "every explored history was judged and none failed",
                          {"correspondence": "harness/pipe_check.py vs lean WD.Pipe", "request": line, "implementation": i,
                           "model": m, "mismatching_histories": len(bad)}, no_input=True, signature=f"{prop.lower()}-model-mismatch")


    recorded = []          # violations on the inputs of recorded findings: appended last (other reports look at res.violations)
    if prop in ("C01", "C02", "C07"):
        for kprop, sig, init_k, bursts_k in KNOWN_BURSTS:
            if kprop != prop:
                continue
            out = pipe.run_bursts(init_k, bursts_k, recursive=True, gate_reads=True)
            res.count()
            res.bump("recorded_finding_inputs_run")
            v = None
            if out["thread_errors"]:
                v = f"a library thread died of an unhandled error: {out['thread_errors']}"
            elif prop == "C01":
                v = pipe.replay_judge(out, True)
            elif prop == "C07":
                if not out["root_gone"] and any(not seen for d, depth, seen in out["probes"]):
                    v = "later changes in the tree go unreported"
            else:
                for d, depth, seen in out["probes"]:
                    if not seen:
                        v = f"a change inside the existing directory {d} was not reported under a recursive watch"
            if v:
                recorded.append((f"native observer violates {prop} on a recorded input: {v}",
                                 {"init": init_k, "bursts": bursts_k, "delivered": out["per_op"], "tree": out["tree"],
                                  "probes": out["probes"]}, f"{prop.lower()}-{sig}"))

    # ---- operations issued back to back, faster than the observer drains them (the reader is held off for the whole
    #      burst): no model for this regime - the real runs are judged by the property's own observables
    burst_runs = []
    nb = 10 if thorough else 3
    plan = [None] * nb
    if prop in ("C07", "C02"):
        # a nested burst during which the directory about to be watched vanishes just before the k-th follow-up
        # inotify_add_watch - every k of the burst's watch calls (quick: the first four); whatever survives must be covered
        plan += [("fault", k) for k in ((1, 2, 3, 4, 5, 6) if thorough else (1, 2, 3, 4))]
    if prop in ("C07", "C02"):
        # the directory vanishes just before its add-watch and is back, with a file inside, before the walk reaches it
        plan += [("faultback", k) for k in ((1, 2, 3, 4, 5) if thorough else (2, 3, 5))]
    if prop in ("C07", "C02"):
        # a populated directory tree ARRIVES (moved in from outside) and one of its sub-directories vanishes just before the
        # k-th inotify_add_watch of the library's walk: the rest of the arrived tree must be covered all the same
        plan += [("faultin", k) for k in ((2, 3, 4, 5, 6) if thorough else (2, 3, 4))]
        if prop == "C07":
            # ... and with the vanished sub-directory's parent replaced by a regular file at once (ENOTDIR)
            plan += [("faultinfile", k) for k in ((4, 5, 6, 7, 8) if thorough else (5, 6, 7))]
    if prop == "C07":
        # the same with the vanished directory's name taken by a regular file at once (ENOTDIR instead of ENOENT)
        plan += [("faultfile", k) for k in ((2, 3, 4, 5, 6) if thorough else (2, 4, 6))]
    if prop == "C07":
        # a directory tree leaves the watched tree; while the library drops its watches the k-th inotify_rm_watch finds the
        # watch already gone (EINVAL): the emitter must survive and keep reporting
        plan += [("rmfault", k) for k in (1, 2, 3)]
    if prop in ("C01", "C02", "C07"):
        # a directory is removed while another process still holds it open: the kernel announces IN_DELETE at once but
        # IN_DELETE_SELF / IN_IGNORED only when the holder lets go - meanwhile the library's tables still know the path
        plan += [("held", k) for k in range(len(HELD_HISTORIES))]
    if prop == "C07":
        # a populated tree arrives; the k-th listing of one of its directories (by the reader's walk or by the emitter's
        # walk for the synthetic events) finds the directory just replaced by a regular file
        plan += [("walkfault", k) for k in ((1, 2, 3, 4, 5, 6, 7, 8) if thorough else (1, 3, 4, 5, 6))]
    if prop == "C07":
        # the kernel's queue-overflow record (wd = -1) at the end of the k-th read: the reader must skip it and go on
        plan += [("overflow", k) for k in ((1, 2, 3, 4) if thorough else (1, 3))]
    if prop in ("C01", "C02", "C03", "C07"):
        # histories in the regime of the theorem paced_run (one operation / file storm / nested creation burst per read)
        plan += [("paced", 0)] * (6 if thorough else 2)
        plan += [("fixedburst", k) for k in range(len(FIXED_BURSTS))]
    for i, what in enumerate(plan):
        init_b, bursts = pipe.gen_bursts(r, r.randint(3, 6))
        fixedb = False
        if what is not None and what[0] == "paced":
            init_b, bursts = pipe.gen_paced(r, r.randint(4, 8))
            what = None
            paced = True
        elif what is not None and what[0] == "fixedburst":
            init_b, bursts = FIXED_BURSTS[what[1]]
            what = None
            paced = True
            fixedb = True
        else:
            paced = False
        if what is not None and what[0] == "rmfault":
            init_b = [("mkdir", "W/d"), ("mkdir", "W/d/dd"), ("mkdir", "W/d/dd/d"), ("mkdir", "W/a")]
            bursts = [[("rename", "W/d", "O/x")], [("create", "W/a/b")], [("create", "O/x/dd/a")]]
        elif what is not None and what[0] == "walkfault":
            init_b = [("mkdir", "O/n"), ("mkdir", "O/n/a"), ("mkdir", "O/n/b"), ("mkdir", "O/n/b/d"), ("create", "O/n/b/d/a"),
                      ("create", "O/n/f"), ("mkdir", "W/d")]
            bursts = [[("rename", "O/n", "W/n")], [("create", "W/d/b")], [("rename", "W/n", "W/dd")], [("create", "W/d/a")]]
        elif what is not None and what[0] == "held":
            init_b, bursts = HELD_HISTORIES[what[1]]
        elif what is not None and what[0] == "overflow":
            init_b = [("mkdir", "W/d")]
            bursts = [[("create", "W/a")], [("create", "W/d/b")], [("mkdir", "W/n")], [("create", "W/n/a"), ("write", "W/n/a")]]
        elif what is not None and what[0] in ("faultin", "faultinfile"):
            init_b = [("mkdir", "O/n"), ("mkdir", "O/n/a"), ("mkdir", "O/n/b"), ("mkdir", "O/n/d"), ("mkdir", "O/n/dd"),
                      ("create", "O/n/dd/b"), ("mkdir", "O/n/a/d"), ("mkdir", "O/n/b/d"), ("mkdir", "O/n/d/d"), ("mkdir", "O/n/dd/d"),
                      ("mkdir", "W/d")]
            bursts = [[("rename", "O/n", "W/n")], [("create", "W/d/a")]]
        elif what is not None and what[0] in ("fault", "faultfile", "faultback"):
            init_b = [("mkdir", "W/d")]
            bursts = [[("mkdir", "W/n"), ("mkdir", "W/n/a"), ("mkdir", "W/n/b"), ("mkdir", "W/n/d"), ("mkdir", "W/n/dd"),
                       ("create", "W/n/dd/b"), ("mkdir", "W/n/dd/d"), ("create", "W/n/f")],
                      [("create", "W/d/a")]]
        recursive = True if (prop not in ("C01", "C02") or what is not None or paced) else (i % 3 != 2)
        full = r.random() < 0.25
        small = r.random() < 0.4
        vanish = None
        rmf = None
        vfile = vback = False
        ovf = None
        held_run = False
        wfault = None
        if what is not None and what[0] == "rmfault":
            rmf = what[1]
        elif what is not None and what[0] == "overflow":
            ovf = what[1]
        elif what is not None and what[0] == "held":
            held_run = True
        elif what is not None and what[0] == "walkfault":
            wfault = what[1]
        elif what is not None:
            vanish = what[1]
            vfile = what[0] in ("faultfile", "faultinfile")
            vback = what[0] == "faultback"
        elif prop == "C07" and i % 2 == 1 and not paced:
            vanish = r.randint(1, 6)        # a directory vanishes just before the k-th follow-up inotify_add_watch
        # most burst runs also hold the reader's os.read() back, so that ONE read returns the whole burst
        if fixedb:
            small = False
        gate = (fixedb or r.random() < 0.7) and not small
        out = pipe.run_bursts(init_b, bursts, recursive=recursive, full=full, small_reads=small, vanish_at=vanish, rm_fault_at=rmf,
                              gate_reads=gate, vanish_file=vfile, vanish_back=vback, overflow_at=ovf, walk_fault_at=wfault)
        if wfault is not None:
            out["held"] = True          # no model for this fault: judged by the property's own observables
            if out["walk_faults"]:
                res.bump("transient_walk_faults_injected")
        if held_run:
            out["held"] = True
            res.bump("histories_with_a_directory_removed_while_held_open")
        if ovf is not None and out["overflows"]:
            res.bump("queue_overflow_records_injected")
        if gate:
            res.bump("burst_histories_read_in_one_read")
        if rmf is not None and out["rm_faults"]:
            res.bump("transient_rm_watch_faults_injected")
        if out["timeout"] and not out["thread_errors"]:
            raise RuntimeError("drain timeout in a burst (machine stalled?)")
        burst_runs.append((init_b, bursts, recursive, full, small, vanish, out))
        res.count()
        res.bump("burst_histories")
        res.bump("bursts", len(bursts))
        res.bump("burst_operations", sum(len(b) for b in out["applied"]))
        if vanish is not None and out["vanished"]:
            res.bump("transient_faults_injected")
        if any(out["per_op"]):
            res.nontrivial(("burst", i, tuple(map(tuple, bursts))))
    for init_b, bursts, recursive, full, small, vanish, out in burst_runs:
        v = None
        if out["thread_errors"]:
            v = f"a library thread died of an unhandled error: {out['thread_errors']}"
        elif prop == "C01" and not out["vanished"]:
            v = pipe.replay_judge(out, recursive)
        elif prop == "C02":
            for d, depth, seen in out["probes"]:
                if recursive and not seen:
                    v = f"a change inside the existing directory {d} was not reported under a recursive watch"
                if not recursive and depth == 0 and not seen:
                    v = "a change to a direct child of the root was not reported under a non-recursive watch"
                if not recursive and depth > 0 and seen:
                    v = f"a change inside {d} (deeper than the root's children) was reported under a non-recursive watch"
        elif prop == "C03":
            made = pipe.creations(out["applied"], out["initial_tree"], out["initial_outside"])
            seen_created = {}
            for evs in out["per_op"]:
                for c, s_, d_, syn in evs:
                    if c.endswith("CreatedEvent"):
                        seen_created[s_] = seen_created.get(s_, 0) + 1
                    for pth in (s_, d_):
                        if pth and not (pth == "W" or pth.startswith("W/")):
                            v = f"event path {pth} lies outside the watched scope"
            for pth, n_ in seen_created.items():
                if n_ > made.get(pth, 0):
                    v = (f"{n_} created events for {pth} although the history created it {made.get(pth, 0)} time(s) "
                         "(not justified by the operation history)")
        elif prop == "C07":
            if not out["root_gone"] and any(not seen for d, depth, seen in out["probes"] if recursive or depth == 0):
                v = "later changes in the tree go unreported"
        if v:
            res.violation(f"native observer violates {prop} when operations are issued back to back: {v}",
                          {"init": init_b, "bursts": bursts, "recursive": recursive, "full": full, "one_record_per_read": small,
                           "vanish_before_add_watch_call": vanish, "vanished": out["vanished"], "delivered": out["per_op"],
                           "tree": out["tree"], "probes": out["probes"]}, signature=f"{prop.lower()}-burst-judge")
            break

    # the back-to-back regime in the model (WD.Pipe.Sys.burst: the whole burst read as one batch after its last
    # operation): per burst, the real observer's events against the model's - in order for bursts of file operations
    # (the regime of C01.burst_files_partial) and for every burst under a non-recursive watch (C01.burst_nonrecursive_partial), as a multiset for the others (the order in which a directory walk
    # discovers entries is the listing order of the real file system)
    blines, bmeta = [], []
    for init_b, bursts, recursive, full, small, vanish, out in burst_runs:
        if vanish is not None or out.get("rm_faults") or out["timeout"] or out["thread_errors"] or out.get("held"):
            continue
        applied = out["applied"][:len(out["per_op"])]
        blines.append((f"pipeburst {int(recursive)} {int(full)} I {len(init_b)} " + " ".join(pipe.op_token(o) for o in init_b) +
                       f" B {len(applied)} " + " ".join(f"{len(b)} " + " ".join(pipe.op_token(o) for o in b) for b in applied)
                       ).replace("  ", " "))
        bmeta.append((init_b, applied, out, full, small, recursive))
    bbad = []
    for line, o, (init_b, applied, out, full, small, recursive) in zip(blines, lean.run(blines) if blines else [], bmeta):
        if o == "bad-op":
            raise RuntimeError("driver refused " + line)
        parts = o.split(" | ")[0].split(" ; ") if applied else []
        if o.endswith(" paced=1"):
            res.bump("burst_histories_in_the_regime_of_paced_run")    # every burst: one op / file burst / nested creation burst
        for bi, (ops_b, real, mod) in enumerate(zip(applied, out["per_op"], parts)):
            mevs, _, simple = mod.rpartition(" simple=")
            mevs, _, grow = mevs.rpartition(" grow=")
            realc = ",".join(pipe.canon_events(real))
            res.bump("bursts_replayed_in_model")
            if grow == "1" and simple != "1":
                res.bump("growth_bursts_replayed_in_model")      # the regime of burst_grow (mkdir -p + populate)
            if simple == "1":
                res.bump("file_bursts_replayed_in_model" if recursive else "nonrecursive_bursts_replayed_in_model")
            def unordered(evs_):
                # the order in which a directory walk discovers entries is the listing order of the real file system, and
                # the event queue drops an event equal to the one queued just before it: how often a DirModifiedEvent
                # shows up therefore depends on that order (walk ... DirModified(d) followed by chmod d's DirModified(d)) -
                # DirModified events are compared as a set, everything else as a multiset
                l_ = evs_.split(",")
                return (sorted(e_ for e_ in l_ if not e_.startswith("DirModifiedEvent:")),
                        sorted({e_ for e_ in l_ if e_.startswith("DirModifiedEvent:")}))
            same = (realc == mevs) if simple == "1" else (unordered(realc) == unordered(mevs))
            if not same:
                bbad.append({"request": line, "burst_index": bi, "burst": ops_b, "simple": simple == "1",
                             "implementation": realc, "model": mevs, "one_record_per_read": small})
                break
    if bbad and not res.violations:
        res.violation(f"correspondence WD.Pipe.Sys.burst <-> InotifyObserver broken in the back-to-back regime (theorem "
                      f"C01.burst_files_partial no longer tied to the code); every burst was judged by {prop}'s own "
                      "observables and none failed", dict(bbad[0], mismatching_bursts=len(bbad)), no_input=True,
                      signature=f"{prop.lower()}-burst-model")

    # a table-level theorem about the model's emitter no longer checks against the regenerated decision table of
    # InotifyEmitter.queue_events: every history above was judged; if none of them failed, report the broken obligation
    if proof_breaks and not res.violations:
        res.violation(f"WD.EmitTable.emit_agrees_with_source no longer checks: the decision table regenerated from "
                      f"InotifyEmitter.queue_events differs from WD.Pipe.emit (the emitter the {prop} theorems are about); "
                      "every explored history (drained, split reads, bursts) was judged and none failed",
                      {"theorem_no_longer_checks": list(proof_breaks), "lean_error": build_log[-3000:]}, no_input=True,
                      signature=f"{prop.lower()}-emit-table")
    for what_, replay_, sig_ in recorded:
        res.violation(what_, replay_, signature=sig_)
