"""C01 / C02 / C03 / C07 / C19 on the real kernel (one drained operation at a time) against WD.Pipe."""
from __future__ import annotations

import os
import pathlib
import time

import common
import fsops
import pipe


def run(res, tier, lean, prop="C01", proof_breaks=(), build_log=""):
    r = common.rng("pipe-" + prop)
    thorough = tier == "thorough"
    res.cov["rule"] = ("operation histories (create/write/chmod/unlink/mkdir/rmdir/rmtree/rename incl. replace, moves out of and "
                       "into the tree, whole directory trees) over a colliding name universe on a real scratch directory "
                       "watched by the real InotifyObserver on the real kernel, every operation drained before the next; "
                       "recursive and non-recursive, normal and full emitters, str and bytes roots; each history replayed in "
                       "WD.Pipe and judged; non-trivial = the history delivered at least one event")
    hists = [(i, o) for i, o in pipe.FIXED]
    outside = True              # nothing outside the tree is watched (D2 repaired): operations there must stay silent
    if True:
        hists += [
            ([("mkdir", "W/d")], [("rename", "W/d", "O/x"), ("mkdir", "W/d"), ("rmdir", "W/d"), ("rmdir", "O/x"), ("create", "W/a")]),
            ([("mkdir", "W/d"), ("mkdir", "W/d/dd")], [("rename", "W/d", "O/x"), ("create", "O/x/a"), ("rmtree", "O/x"), ("mkdir", "W/d")]),
            ([("mkdir", "W/d")], [("rename", "W/d", "O/x"), ("rename", "O/x", "W/dd"), ("create", "W/dd/a"), ("rmdir", "W/dd")]),
            ([], [("mkdir", "W/d"), ("create", "W/d/a"), ("rmtree", "W/d"), ("mkdir", "W/d"), ("create", "W/d/a"), ("unlink", "W/d/a"),
                  ("rmdir", "W/d"), ("rmdir", "W")]),
        ]
    n = 60 if thorough else 14
    for _ in range(n):
        init = pipe.gen_history(r, r.randint(2, 8)) if r.random() < 0.6 else []
        t0 = {"W": "d", "O": "d"}
        # the generator's picture of the tree after the initial operations
        t1 = pipe.tree_after(t0, init)
        hists.append((init, pipe.gen_history(r, r.randint(6, 16), tree=t1, allow_outside_ops=outside)))
    lines, impl, meta = [], [], []
    for init, ops in hists:
        for recursive in (True, False):
            full = r.random() < 0.25
            as_bytes = r.random() < 0.25
            result = pipe.run_history(init, ops, recursive=recursive, full=full, as_bytes=as_bytes, probes=prop in ("C02", "C07"))
            if result["timeout"] and not result["thread_errors"]:
                raise RuntimeError("drain timeout (machine stalled?)")
            lines.append(pipe.request(result["init"], result["applied"], recursive, full))
            impl.append(result["line"])
            meta.append((recursive, full, as_bytes, result))
            res.bump("histories")
            res.bump("recursive" if recursive else "non_recursive")
            res.bump("operations", len(result["applied"]))
    outs = lean.run(lines)
    # the theorems' statements evaluated on the very histories that were run (invariant after every operation,
    # per-operation contract, replay): instances of proved statements, recorded as a cross-check of the driver
    spec = lean.run([l.replace("pipe ", "pipespec ", 1) for l in lines])
    res.notes["spec_instances"] = {"histories": len(spec), "inv": sum("inv=1" in o for o in spec),
                                   "contract": sum("contract=1" in o for o in spec), "replay": sum("replay=1" in o for o in spec)}
    if any("inv=0" in o or "contract=0" in o or "replay=0" in o or "crashed=1" in o for o in spec):
        raise RuntimeError("the compiled model contradicts a proved theorem (driver/compiler problem?): " +
                           next(l for l, o in zip(lines, spec) if "=0" in o.replace("crashed=0", "").replace("stopped=0", "")))
    res.notes["histories_all_ops_valid_in_model"] = sum(1 for o in outs if "valid=1" in o)
    res.notes["histories_replayed"] = len(outs)
    invalid = [(l, o) for l, o in zip(lines, outs) if "valid=0" in o]
    if invalid:
        raise RuntimeError("the model's syscall guards reject an operation the real file system accepted: " + invalid[0][0])
    bad, judged = [], []
    for line, o, i, (recursive, full, as_bytes, result) in zip(lines, outs, impl, meta):
        res.count()
        if any(result["per_op"]):
            res.nontrivial(line)
        m, flags = pipe.strip_flags(o)
        v = None
        if result["timeout"] and result["thread_errors"]:
            v = f"a library thread died of an unhandled error and the stream stopped: {result['thread_errors']}"
        elif prop == "C01":
            v = pipe.replay_judge(result, recursive)
        elif prop == "C02":
            for d, depth, seen in result["probes"]:
                if recursive and not seen:
                    v = f"a change inside the existing directory {d} was not reported under a recursive watch"
                if not recursive and depth == 0 and not seen:
                    v = "a change to a direct child of the root was not reported under a non-recursive watch"
                if not recursive and depth > 0 and seen:
                    v = f"a change inside {d} (deeper than the root's children) was reported under a non-recursive watch"
            res.bump("probes", len(result["probes"]))
        elif prop == "C07":
            if result["thread_errors"]:
                v = f"a library thread died of an unhandled error: {result['thread_errors']}"
            elif not result["root_gone"] and any(not seen for d, depth, seen in result["probes"] if recursive or depth == 0):
                v = "later changes in the tree go unreported"
        elif prop == "C19":
            want = bytes if as_bytes else str
            for c, s, d, _y in result["raw"]:
                for pth in (s, d):
                    if pth not in ("", b"") and type(pth) is not want:
                        v = f"event path {pth!r} is {type(pth).__name__}, the watched path was {want.__name__}"
        if v:
            judged.append((line, i, m, v))
        if m != i:
            bad.append((line, i, m))
    res.cov["traces_validated_against_impl"] = len(lines)
    res.sample({"request": lines[0], "implementation": impl[0], "model": outs[0]})
    res.sample({"request": lines[-1], "implementation": impl[-1], "model": outs[-1]})
    if judged:
        judged.sort(key=lambda b: len(b[0]))
        line, i, m, v = judged[0]
        res.violation(f"native observer violates {prop}: {v}", {"request": line, "implementation": i, "model": m,
                                                                "violating_histories": len(judged)},
                      signature=f"{prop.lower()}-judge")
    elif bad:
        bad.sort(key=lambda b: len(b[0]))
        line, i, m = bad[0]
        if prop == "C03":
            res.violation("an operation did not produce its per-operation contract (the model IS the contract in the drained "
                          f"regime): implementation {i[:300]!r} contract {m[:300]!r}",
                          {"request": line, "implementation": i, "model": m, "mismatching_histories": len(bad)},
                          signature="c03-contract")
        else:
            res.violation(f"correspondence WD.Pipe <-> InotifyObserver broken (theorems {prop}.* no longer tied to the code); "
                          "every explored history was judged and none failed",
                          {"correspondence": "harness/pipe_check.py vs lean WD.Pipe", "request": line, "implementation": i,
                           "model": m, "mismatching_histories": len(bad)}, no_input=True, signature=f"{prop.lower()}-model-mismatch")
