"""C20, translation layers.  The real `WindowsApiEmitter.queue_events` / `FSEventsEmitter.queue_events`
(child processes behind import shims) are fed the native batches that the Lean documented-semantics
simulators (WD.Win.winRecs, WD.Mac.macEvents) render for real operation histories executed on a
scratch directory, and compared with the Lean emitter models (WD.Win.emitBatch, WD.Mac.emitBatch)
event for event; the real streams are also judged by C01's replay predicate.  Regimes: every
operation drained (the theorems' regime) with arbitrary buffer cuts, extra MODIFIED noise, bursts of
several operations read at once, and arbitrary (malformed) record streams for the emitter tie."""
from __future__ import annotations

import json
import os
import subprocess
import sys

import common
import fsops
import pipe

HERE = os.path.dirname(os.path.abspath(__file__))


class Divergence(RuntimeError):
    """the scratch file system and the Lean file-system model disagree on an operation's applicability"""


class Child:
    def __init__(self, script):
        self.p = subprocess.Popen([sys.executable, os.path.join(HERE, "shims", script), os.path.join(common.REPO, "src")],
                                  stdin=subprocess.PIPE, stdout=subprocess.PIPE, stderr=subprocess.PIPE, text=True)

    def rpc(self, m):
        self.p.stdin.write(json.dumps(m) + "\n")
        self.p.stdin.flush()
        line = self.p.stdout.readline()
        if not line:
            err = self.p.stderr.read()[-1500:]
            raise RuntimeError(f"emitter child died: {err}")
        return json.loads(line)

    def close(self):
        try:
            self.p.stdin.write(json.dumps({"cmd": "quit"}) + "\n")
            self.p.stdin.flush()
            self.p.wait(timeout=5)
        except Exception:  # noqa: BLE001
            self.p.kill()


# ------------------------------------------------------------------ Windows

def win_request(init_ops, groups, recursive):
    return (f"winrun {int(recursive)} I {len(init_ops)} " + " ".join(pipe.op_token(o) for o in init_ops) +
            f" G {len(groups)} " + " ".join(f"{len(g)} " + " ".join(pipe.op_token(o) for o in g) for g in groups)).replace("  ", " ")


def parse_run(line):
    head, _, tail = line.partition(" | tree=")
    flags = dict(kv.split("=") for kv in tail.split(" ")[1:])
    tree = tail.split(" ")[0]
    groups = []
    for g in head.split(" ; "):
        a, rr, e = g.split("|")
        recs = [tuple(x.split(":", 1)) for x in rr[2:].split(",") if x]
        groups.append({"mask": a[2:], "recs": recs, "events": [x for x in e[2:].split(",") if x]})
    return groups, tree, flags


def rel_name(p):
    """'W/a/b' -> name relative to the watched root, as ReadDirectoryChangesW reports it ('/' for '\\')"""
    return "." if p == "W" else p[2:]


def structural(canon):
    return [x for x in canon if "ModifiedEvent" not in x.split(":")[0]]


def win_one(lean, r, init_ops, groups, recursive, *, noise, res, label, cuts=True):
    """one history through the real emitter; returns the violations: concrete ones (exception, stop flag, replay) or, when
    none of those shows, the first break of the model <-> implementation tie"""
    line = win_request(init_ops, groups, recursive)
    out = lean.run([line])[0]
    if out == "bad-op":
        raise RuntimeError("driver refused " + line)
    mgroups, mtree, flags = parse_run(out)
    uni = fsops.Universe()
    child = Child("win_emitter_child.py")
    trace = []
    ties = []
    try:
        for op in init_ops:
            uni.apply(op)
        initial = uni.tree()
        child.rpc({"cmd": "new", "root": uni.root, "recursive": recursive})
        per_group = []
        running = True
        for gi, (ops, mg) in enumerate(zip(groups, mgroups)):
            for op, m in zip(ops, mg["mask"]):
                if m == "1" and not uni.apply(op):
                    raise Divergence(f"{op} refused by the scratch file system but accepted by the model in {line}")
            recs = list(mg["recs"])
            if noise:
                live = [p for p in uni.tree() if (recursive or p.count("/") == 1)]
                for _ in range(r.randint(0, 3)):
                    if live:
                        recs.insert(r.randint(0, len(recs)), ("mod", r.choice(live)))
            # arbitrary buffer cuts
            batches, cur = [], []
            for rc in recs:
                cur.append(rc)
                if cuts and r.random() < 0.35:
                    batches.append(cur)
                    cur = []
            if cur or not batches:
                batches.append(cur)
            evs = []
            if running:
                for b in batches:
                    resp = child.rpc({"cmd": "batch", "recs": [[a, rel_name(p)] for a, p in b]})
                    if "error" in resp:
                        return [{"what": f"Windows emitter raised {resp['error']} on a native batch the documented semantics allow",
                                 "replay": {"request": line, "group": gi, "batches": batches}, "signature": "c20-win-exception"}]
                    evs += [(c, uni.rel(s), uni.rel(d), syn) for c, s, d, syn in resp["events"]]
                    running = resp["running"]
            per_group.append(evs)
            trace.append({"ops": ops, "batches": batches, "events": pipe.canon_events(evs), "model": mg["events"]})
            real = pipe.canon_events(evs)
            want = mg["events"]
            res.count()
            res.bump(f"{label}_groups")
            for a, _p in mg["recs"]:
                res.bump("win_rec_" + a)
            if len(batches) > 1:
                res.bump("win_cut_groups")
            if evs:
                res.nontrivial((label, gi, line))
            if (structural(real) != structural(want)) if noise else (real != want):
                if not ties:
                    cutonly = len(batches) > 1 and not noise
                    ties.append({"what": ("Windows emitter: the events delivered for a buffer cut into several reads differ from "
                                          "those of a single read" if cutonly else
                                          "correspondence WD.Win.emitBatch <-> WindowsApiEmitter.queue_events broken") +
                                         f": real {real}, model {want}",
                                 "replay": {"request": line, "group": gi, "ops": ops, "batches": batches, "real": real,
                                            "model": want, "trace": list(trace)},
                                 "signature": "c20-win-corr" + ("-cut" if cutonly else ""), "tie": True})
        final = uni.tree()
        result = {"initial_tree": initial, "per_op": per_group, "tree": final}
        stopped = flags.get("stopped") == "1"
        if stopped != (not running):
            return [{"what": f"Windows emitter stops {'although' if not running else 'not although'} the root "
                             f"{'is still there' if not running else 'was removed'}: real running={running}, model stopped={stopped}",
                     "replay": {"request": line, "trace": trace}, "signature": "c20-win-stop"}]
        mt = sorted(p + ("/" if k == "d" else "") for p, k in final.items())
        if "[" + ",".join(mt) + "]" != mtree:
            raise Divergence(f"final trees differ: disk {mt}, model {mtree} in {line}")
        if not stopped:
            why = pipe.replay_judge(result, recursive)
            if why:
                return [{"what": "Windows translation layer: " + why, "replay": {"request": line, "trace": trace},
                         "signature": "c20-win-replay"}]
            if flags.get("replay") != "1":
                ties.append({"what": "WD.Win model: replay of the modelled stream does not reproduce the tree (model instance)",
                             "replay": {"request": line, "model": out}, "signature": "c20-win-model-replay", "tie": True})
        if flags.get("contract") != "1":
            ties.append({"what": "WD.Win model: a drained operation's events differ from the Windows contract (theorem instance fails)",
                         "replay": {"request": line, "model": out}, "signature": "c20-win-model-contract", "tie": True})
        return ties
    finally:
        child.close()
        uni.cleanup()


WIN_FIXED = [
    # names announced by the walk of an arrived directory, vacated by a rename (of the entry / of an ancestor), then re-used
    ([("mkdir", "O/d"), ("create", "O/d/x"), ("mkdir", "O/d/dd"), ("create", "O/d/dd/a")],
     [[("rename", "O/d", "W/d")], [("rename", "W/d/x", "W/d/b")], [("create", "W/d/x")], [("rename", "W/d/dd", "W/dd")],
      [("mkdir", "W/d/dd")], [("create", "W/d/dd/a")]]),
    ([("mkdir", "O/d"), ("create", "O/d/x")],
     [[("rename", "O/d", "W/d")], [("rename", "W/d", "W/b")], [("mkdir", "W/d")], [("create", "W/d/x")], [("rename", "W/b", "O/b")],
      [("rename", "W/d", "W/b")]]),
    ([("mkdir", "O/d"), ("create", "O/d/x"), ("mkdir", "O/d/dd"), ("create", "O/d/dd/a")],
     [[("rename", "O/d", "W/d"), ("create", "W/d/y")], [("write", "W/d/y")]]),
    ([("mkdir", "O/d"), ("create", "O/d/x"), ("mkdir", "W/e")],
     [[("rename", "O/d", "W/e/d"), ("mkdir", "W/e/d/b"), ("create", "W/e/d/b/a")], [("chmod", "W/e")]]),
    # a populated directory arrives and a child is added before the next read (the descendant walk is the only announcement)
    ([("mkdir", "O/d"), ("create", "O/d/x"), ("mkdir", "O/d/dd"), ("create", "O/d/dd/a")],
     [[("rename", "O/d", "W/d"), ("create", "W/d/y")], [("rename", "W/d", "W/dd")], [("rename", "W/dd", "O/b")]]),
    ([("mkdir", "W/d"), ("create", "W/d/a")],
     [[("rename", "W/d", "W/b")], [("create", "W/d")], [("rename", "W/d", "W/a"), ("unlink", "W/a")], [("rmtree", "W/b")]]),
    ([("mkdir", "W/d"), ("mkdir", "W/d/dd"), ("create", "W/d/dd/a")],
     [[("rename", "W/d", "W/a"), ("rename", "W/a/dd", "W/dd")], [("rmdir", "W/a"), ("mkdir", "W/a"), ("create", "W/a/b")],
      [("rmdir", "W")]]),
    ([], [[("mkdir", "W/d"), ("create", "W/d/a"), ("rename", "W/d", "W/dd")], [("write", "W/dd/a"), ("chmod", "W/dd")]]),
    # the same record twice in one read with something between that changes what the second one means
    ([], [[("create", "W/a"), ("unlink", "W/a"), ("create", "W/a")], [("write", "W/a")]]),
    ([("mkdir", "W/d"), ("create", "W/d/a")],
     [[("rename", "W/d", "W/dd"), ("rename", "W/dd", "W/d"), ("rename", "W/d", "W/dd")], [("create", "W/dd/b")]]),
    ([("mkdir", "W/d")], [[("rmdir", "W/d"), ("mkdir", "W/d"), ("rmdir", "W/d"), ("mkdir", "W/d")], [("create", "W/d/a")]]),
    # growth bursts (the regime of C20.win_burst_grow_partial): mkdir -p + populate in one read, inside old and new directories
    ([("mkdir", "W/d")], [[("mkdir", "W/a"), ("mkdir", "W/a/b"), ("create", "W/a/f"), ("mkdir", "W/a/b/d"), ("create", "W/d/a"),
                           ("mkdir", "W/d/dd"), ("create", "W/d/dd/b")], [("create", "W/a/b/d/a")]]),
    # a name the walk of a NEW directory announced is vacated by a rename and re-used, all within the same read
    ([], [[("mkdir", "W/d"), ("create", "W/d/x"), ("rename", "W/d/x", "W/d/b"), ("create", "W/d/x")], [("write", "W/d/x")]]),
    ([("mkdir", "O/d"), ("create", "O/d/x")],
     [[("rename", "O/d", "W/d"), ("rename", "W/d/x", "W/d/b"), ("create", "W/d/x")], [("unlink", "W/d/b")]]),
    ([], [[("mkdir", "W/d"), ("mkdir", "W/d/dd"), ("rename", "W/d/dd", "W/d/a"), ("mkdir", "W/d/dd"), ("create", "W/d/dd/b")],
          [("rename", "W/d", "W/b")]]),
]


def win_runs(res, lean, r, thorough):
    n_hist = 60 if thorough else 14
    bad = []
    cases = []
    for init, groups in WIN_FIXED:
        for rec in (True, False):
            cases.append((init, groups, rec, False, "win_fixed"))
            cases.append((init, groups, rec, False, "win_fixed_one_read"))
            cases.append((init, [[op] for g in groups for op in g], rec, False, "win_fixed_drained"))
    for i in range(n_hist):
        t0 = {"W": "d", "O": "d"}
        init = pipe.gen_history(r, r.randint(2, 8), no_replace=True) if r.random() < 0.7 else []
        t1 = pipe.tree_after(t0, init)
        ops = pipe.gen_history(r, r.randint(5, 14), tree=t1, allow_outside_ops=True, no_replace=True)
        if r.random() < 0.08:
            ops.append(("rmtree", "W")) if False else ops.append(("rmdir", "W"))
        rec = r.random() < 0.7
        mode = i % 3
        if mode == 0:
            cases.append((init, [[op] for op in ops], rec, False, "win_drained"))
        elif mode == 1:
            cases.append((init, [[op] for op in ops], rec, True, "win_noise"))
        else:
            groups, k = [], 0
            while k < len(ops):
                s = r.randint(1, 4)
                groups.append(ops[k:k + s])
                k += s
            cases.append((init, groups, rec, False, "win_burst"))
    for init, groups, rec, noise, label in cases:
        res.bump(label)
        bad += win_one(lean, r, init, groups, rec, noise=noise, res=res, label=label,
                       cuts=(label != "win_fixed_one_read" and not (label == "win_burst" and r.random() < 0.5)))
    # the emitter tie on arbitrary record streams (what no well-behaved OS sends included)
    bad += win_adversarial(res, lean, r, 40 if thorough else 10)
    return bad


def win_adversarial(res, lean, r, n):
    bad = []
    names = ["W/a", "W/b", "W/d", "W/d/a", "W/d/dd", "W/d/dd/a", "W/dd", "W/zz", "W/d/zz"]
    for _ in range(n):
        init = pipe.gen_history(r, r.randint(3, 9), no_replace=True)
        rec = r.random() < 0.7
        recs = [(r.choice(["add", "rem", "mod", "old", "new", "add", "new"]), r.choice(names)) for _ in range(r.randint(1, 7))]
        if len(recs) >= 2 and r.random() < 0.35:
            recs.append(r.choice(recs[:-1]))          # a record identical to an earlier one of the same read
        if r.random() < 0.1:
            recs.append(("self", "W"))
        line = (f"winemit {int(rec)} - I {len(init)} " + " ".join(pipe.op_token(o) for o in init) +
                f" R {len(recs)} " + " ".join(f"{a}:{p}" for a, p in recs)).replace("  ", " ")
        out = lean.run([line])[0]
        if out == "bad-op":
            raise RuntimeError("driver refused " + line)
        want = [x for x in out.split(" | ")[0].split(",") if x]
        mtree = out.split("tree=")[1]
        uni = fsops.Universe()
        child = Child("win_emitter_child.py")
        try:
            for op in init:
                uni.apply(op)
            final = uni.tree()
            mt = "[" + ",".join(sorted(p + ("/" if k == "d" else "") for p, k in final.items())) + "]"
            if mt != mtree:
                raise Divergence(f"trees differ: disk {mt}, model {mtree} in {line}")
            child.rpc({"cmd": "new", "root": uni.root, "recursive": rec})
            cut = r.randint(0, len(recs))
            evs = []
            for b in (recs[:cut], recs[cut:]):
                resp = child.rpc({"cmd": "batch", "recs": [[a, rel_name(p)] for a, p in b]})
                if "error" in resp:
                    bad.append({"what": f"Windows emitter raised {resp['error']}", "replay": {"request": line},
                                "signature": "c20-win-exception"})
                    break
                evs += [(c, uni.rel(s), uni.rel(d), syn) for c, s, d, syn in resp["events"]]
            real = pipe.canon_events(evs)
            res.count()
            res.bump("win_adversarial")
            if real:
                res.nontrivial(("adv", line))
            if real != want:
                bad.append({"what": f"correspondence WD.Win.emitBatch <-> WindowsApiEmitter.queue_events broken on an arbitrary "
                                    f"record stream: real {real}, model {want}",
                            "replay": {"request": line, "cut": cut, "real": real, "model": want},
                            "signature": "c20-win-corr-adv", "tie": True})
        finally:
            child.close()
            uni.cleanup()
    return bad


# ------------------------------------------------------------------ macOS (FSEvents)

def inode_map(uni):
    out = {}
    for root, dirs, files in os.walk(uni.base):
        for n in dirs + files:
            pth = os.path.join(root, n)
            try:
                out[os.path.relpath(pth, uni.base)] = os.lstat(pth).st_ino
            except OSError:
                pass
    return out


def parse_mac(line):
    head, _, tail = line.partition(" | tree=")
    flags = dict(kv.split("=") for kv in tail.split(" ")[1:])
    tree = tail.split(" ")[0]
    ops = []
    for g in head.split(" ; "):
        if g == "":
            continue
        if g == "skip":
            ops.append(None)
            continue
        n, b, e = g.split("|")
        native = [tuple(x.split("@")) for x in n[2:].split(",") if x]
        sizes = [int(x) for x in b[2:].split(",") if x]
        ops.append({"native": native, "sizes": sizes, "events": [x for x in e[2:].split(",") if x]})
    return ops, tree, flags


def flat_dir_children_only(result):
    """is the only thing wrong with the replay of a non-recursive FSEvents watch that direct child DIRECTORIES of the
    root are missing from / left over in the replayed tree?  (known finding: `_is_recursive_event` drops their events)"""
    t = dict(result)
    why = pipe.replay_judge(t, False)
    if not why:
        return None, None
    files_only = {"initial_tree": {p: k for p, k in t["initial_tree"].items() if k == "f"},
                  "per_op": [[e for e in evs if not e[0].startswith("Dir")] for evs in t["per_op"]],
                  "tree": {p: k for p, k in t["tree"].items() if k == "f"}}
    return why, pipe.replay_judge(files_only, False) is None


def mac_one(lean, r, init_ops, ops, recursive, seed, cuts, *, res, label):
    line = (f"macrun {int(recursive)} {seed} I {len(init_ops)} " + " ".join(pipe.op_token(o) for o in init_ops) +
            f" O {len(ops)} " + " ".join(pipe.op_token(o) for o in ops) + f" C {len(cuts)} " + " ".join(map(str, cuts))).replace("  ", " ")
    out = lean.run([line])[0]
    if out == "bad-op":
        raise RuntimeError("driver refused " + line)
    mops, mtree, flags = parse_mac(out)
    uni = fsops.Universe(pin_inodes=True)
    child = Child("mac_emitter_child.py")
    trace, ties = [], []
    try:
        for op in init_ops:
            uni.apply(op)
        initial = uni.tree()
        child.rpc({"cmd": "new", "root": uni.root, "recursive": recursive})
        per_op = []
        running = True
        for oi, (op, mo) in enumerate(zip(ops, mops)):
            if mo is None:
                per_op.append([])
                continue
            before = inode_map(uni)
            if not uni.apply(op):
                raise Divergence(f"{op} refused by the scratch file system but accepted by the model in {line}")
            after = inode_map(uni)
            native = []
            for pth, mino, kind, fl in mo["native"]:
                ino = 0 if "x" in fl else before.get(pth, after.get(pth))
                if "n" in fl and pth not in before:
                    ino = after.get(pth)
                if ino is None:
                    raise Divergence(f"no inode for {pth} in {line}")
                native.append([uni.p(pth), ino, fl + ("d" if kind == "d" else "")])
                for ch in fl:
                    res.bump("mac_flag_" + ch)
            evs, k = [], 0
            if running:
                for sz in (mo["sizes"] or [0]):
                    resp = child.rpc({"cmd": "batch", "events": native[k:k + sz]})
                    k += sz
                    if "error" in resp:
                        return [{"what": f"FSEvents emitter raised {resp['error']} on a callback the documented semantics allow",
                                 "replay": {"request": line, "op": oi, "native": native, "tb": resp.get("tb")},
                                 "signature": "c20-mac-exception"}]
                    evs += [(c, uni.rel(s), uni.rel(d), syn) for c, s, d, syn in resp["events"]]
                    running = resp["running"]
            per_op.append(evs)
            real = pipe.canon_events(evs)
            trace.append({"op": op, "native": mo["native"], "sizes": mo["sizes"], "events": real, "model": mo["events"]})
            res.count()
            res.bump(f"{label}_ops")
            if len(mo["sizes"]) > 1:
                res.bump("mac_cut_pairs")
            if evs:
                res.nontrivial((label, oi, line))
            if real != mo["events"] and not ties:
                ties.append({"what": f"correspondence WD.Mac.emitBatch <-> FSEventsEmitter.queue_events broken: real {real}, "
                                     f"model {mo['events']}",
                             "replay": {"request": line, "op": oi, "trace": list(trace)}, "signature": "c20-mac-corr", "tie": True})
        final = uni.tree()
        result = {"initial_tree": initial, "per_op": per_op, "tree": final}
        stopped = flags.get("stopped") == "1"
        if stopped != (not running):
            return [{"what": f"FSEvents emitter stop flag differs: real running={running}, model stopped={stopped}",
                     "replay": {"request": line, "trace": trace}, "signature": "c20-mac-stop"}]
        mt = sorted(p + ("/" if k == "d" else "") for p, k in final.items())
        if "[" + ",".join(mt) + "]" != mtree:
            raise Divergence(f"final trees differ: disk {mt}, model {mtree} in {line}")
        if not stopped:
            if recursive:
                why = pipe.replay_judge(result, True)
                if why:
                    return [{"what": "FSEvents translation layer: " + why, "replay": {"request": line, "trace": trace},
                             "signature": "c20-mac-replay"}]
            else:
                why, dirs_only = flat_dir_children_only(result)
                if why:
                    return [{"what": "FSEvents translation layer, non-recursive watch: " + why +
                                     (" [only direct child directories of the root are affected]" if dirs_only else ""),
                             "replay": {"request": line, "trace": trace},
                             "signature": "c20-mac-flat-dir-children" if dirs_only else "c20-mac-flat-replay"}]
                deep = [e for evs in per_op for e in evs
                        if not (e[1].count("/") <= 1 or (e[2] and e[2].count("/") <= 1))]
                if deep:
                    return [{"what": f"non-recursive FSEvents watch reported something below the root's direct children: {deep[:3]}",
                             "replay": {"request": line, "trace": trace}, "signature": "c20-mac-flat-deep"}]
            if flags.get("replay") != "1":
                ties.append({"what": "WD.Mac model: replay of the modelled stream does not reproduce the tree (theorem instance fails)",
                             "replay": {"request": line, "model": out}, "signature": "c20-mac-model-replay", "tie": True})
        if flags.get("contract") != "1":
            ties.append({"what": "WD.Mac model: a drained operation's events differ from the FSEvents contract (theorem instance fails)",
                         "replay": {"request": line, "model": out}, "signature": "c20-mac-model-contract", "tie": True})
        return ties
    finally:
        child.close()
        uni.cleanup()


MAC_FIXED = [
    # an item that became known, left the tree inside its parent and comes back alone (its inode is still in `_fs_view`)
    ([("mkdir", "W/d")],
     [("create", "W/d/x"), ("write", "W/d/x"), ("rename", "W/d", "O/d"), ("rename", "O/d/x", "W/x"), ("write", "W/x"),
      ("mkdir", "O/d/dd"), ("rename", "O/d", "W/d"), ("rename", "W/d/dd", "O/dd"), ("rename", "O/dd", "W/dd")]),
    # an item announced in one callback, then removed while its created flag is still stuck to it
    ([], [("create", "W/a"), ("write", "W/a"), ("unlink", "W/a"), ("mkdir", "W/d"), ("chmod", "W/d"), ("rmdir", "W/d")]),
    ([("mkdir", "O/d"), ("create", "O/d/x"), ("mkdir", "O/d/dd")],
     [("rename", "O/d", "W/d"), ("write", "W/d/x"), ("rename", "W/d", "W/b"), ("chmod", "W/b"), ("rename", "W/b", "O/b"),
      ("rename", "O/b", "W/b"), ("rmtree", "W/b")]),
    ([("mkdir", "W/d"), ("create", "W/d/a"), ("create", "W/a")],
     [("rename", "W/d/a", "W/b"), ("rename", "W/a", "W/d/a"), ("unlink", "W/b"), ("rename", "W/d", "W/dd"), ("rmdir", "W")]),
    # an item that arrives (or is renamed) and is removed before the callback fires: ONE native event with the renamed and
    # the removed flag, no partner, its path gone - announced as gone once
    ([("create", "O/a"), ("mkdir", "O/d"), ("create", "W/x")],
     [("rename", "O/a", "W/a"), ("unlink", "W/a"), ("rename", "O/d", "W/d"), ("rmdir", "W/d"), ("rename", "W/x", "W/y"), ("unlink", "W/y"),
      ("create", "W/a")]),
]


def mac_runs(res, lean, r, thorough):
    bad = []
    cases = []
    for init, ops in MAC_FIXED:
        for rec in (True, False):
            for seed in (0, 3, 11, 12345):
                cases.append((init, ops, rec, seed, [0] * len(ops), "mac_fixed"))
            cases.append((init, ops, rec, 5, [1] * len(ops), "mac_fixed_cut"))
    for i in range(60 if thorough else 14):
        init = pipe.gen_history(r, r.randint(2, 8), no_replace=True) if r.random() < 0.7 else []
        t1 = pipe.tree_after({"W": "d", "O": "d"}, init)
        ops = pipe.gen_history(r, r.randint(5, 14), tree=t1, allow_outside_ops=True, no_replace=True)
        if r.random() < 0.08:
            ops.append(("rmdir", "W"))
        rec = r.random() < 0.7
        mode = i % 3
        seed = 0 if mode == 0 else r.randint(1, 10 ** 6)
        cuts = [1 if (mode == 2 and r.random() < 0.5) else 0 for _ in ops]
        cases.append((init, ops, rec, seed, cuts, ["mac_drained", "mac_sticky", "mac_sticky_cut"][mode]))
    for init, ops, rec, seed, cuts, label in cases:
        res.bump(label)
        bad += mac_one(lean, r, init, ops, rec, seed, cuts, res=res, label=label)
    bad += mac_adversarial(res, lean, r, 40 if thorough else 10)
    return bad


def mac_adversarial(res, lean, r, n):
    bad = []
    names = ["W/a", "W/b", "W/d", "W/d/a", "W/d/dd", "W/d/dd/a", "W/dd", "W/zz", "W/d/zz"]
    # fixed callbacks first: an unpaired rename half whose path is occupied by ANOTHER item when the callback runs (a move
    # out followed by the re-use of the name, or a name taken over by a directory): the item is gone, not "still there"
    fixed = [
        ([("create", "W/a"), ("create", "W/b")], [("W/a", "~W/b", "f", "n")]),
        ([("create", "W/a"), ("mkdir", "W/d")], [("W/a", "999", "f", "n"), ("W/a", "=", "f", "c")]),
        ([("mkdir", "W/d"), ("create", "W/d/a")], [("W/d", "999", "f", "n"), ("W/d", "=", "d", "c")]),
        ([("create", "W/a")], [("W/a", "=", "f", "n")]),
        # one native event with the renamed AND the removed flag, no partner, its path gone (an item that arrived, or was
        # renamed, and was removed before the callback fired): announced as gone once
        ([("create", "W/a")], [("W/zz", "999", "f", "rn")]),
        ([("mkdir", "W/d")], [("W/d/zz", "998", "d", "rn"), ("W/d", "=", "d", "m")]),
        ([("create", "W/a")], [("W/zz", "999", "f", "crn")]),
    ]
    for k_case in range(len(fixed) + n):
        init = fixed[k_case][0] if k_case < len(fixed) else pipe.gen_history(r, r.randint(3, 9), no_replace=True)
        rec = r.random() < 0.7
        uni = fsops.Universe(pin_inodes=True)
        child = Child("mac_emitter_child.py")
        try:
            for op in init:
                uni.apply(op)
            inos = inode_map(uni)
            live = [p for p in inos if p.startswith("W/")]
            evs = []
            for _k in (range(r.randint(1, 5)) if k_case >= len(fixed) else ()):
                pth = r.choice(names + live)
                mode = r.random()
                other = r.choice(live) if live else "W/zz"
                spec = "=" if mode < 0.6 else ("~" + other if mode < 0.9 else "999")
                kind = ("d" if os.path.isdir(uni.p(pth)) else "f") if r.random() < 0.85 else r.choice("df")
                fl = "".join(ch for ch in "crnmt" if r.random() < 0.35)
                evs.append((pth, spec, kind, fl))
            if k_case < len(fixed):
                evs = list(fixed[k_case][1])
            elif live and r.random() < 0.6:
                # the two halves of a rename (old name gone, new name = an existing item, same inode) with 0-2 events of
                # other items between them: the emitter pairs them by inode wherever the partner is in the callback
                new = r.choice(live)
                old = r.choice([n for n in names if n not in inos] or ["W/zz"])
                k = "d" if os.path.isdir(uni.p(new)) else "f"
                pair = [(old, "~" + new, k, "n" + "".join(ch for ch in "mt" if r.random() < 0.2)),
                        (new, "=", k, "n" + "".join(ch for ch in "mt" if r.random() < 0.3))]
                mid = evs[:r.randint(0, 2)]
                evs = evs[len(mid):][:2] + [pair[0]] + mid + [pair[1]]
            if k_case >= len(fixed) and r.random() < 0.1:
                evs.append(("W", "=", "d", "x"))
            view = [p for p in live if r.random() < 0.4] if k_case >= len(fixed) else []
            line = (f"macemit {int(rec)} {','.join(view) or '-'} I {len(init)} " + " ".join(pipe.op_token(o) for o in init) +
                    f" R {len(evs)} " + " ".join("@".join(e) for e in evs)).replace("  ", " ")
            out = lean.run([line])[0]
            if out == "bad-op":
                raise RuntimeError("driver refused " + line)
            want = [x for x in out.split(" | ")[0].split(",") if x]
            mview = out.split("view=")[1].split(" ")[0]
            mtree = out.split("tree=")[1]
            final = uni.tree()
            mt = "[" + ",".join(sorted(p + ("/" if k == "d" else "") for p, k in final.items())) + "]"
            if mt != mtree:
                raise Divergence(f"trees differ: disk {mt}, model {mtree} in {line}")
            child.rpc({"cmd": "new", "root": uni.root, "recursive": rec, "view": [inos[p] for p in view]})
            native = []
            for pth, spec, kind, fl in evs:
                ino = inos.get(pth, 0) if spec == "=" else (inos.get(spec[1:], 0) if spec.startswith("~") else int(spec))
                native.append([uni.p(pth), ino, fl + ("d" if kind == "d" else "")])
            resp = child.rpc({"cmd": "batch", "events": native})
            res.count()
            res.bump("mac_adversarial")
            if "error" in resp:
                bad.append({"what": f"FSEvents emitter raised {resp['error']}", "replay": {"request": line, "tb": resp.get("tb")},
                            "signature": "c20-mac-exception-adv", "tie": True})
                continue
            real = pipe.canon_events([(c, uni.rel(s), uni.rel(d), syn) for c, s, d, syn in resp["events"]])
            back = {v: k for k, v in inos.items()}
            rview = "[" + ",".join(sorted(back[i] for i in resp["view"] if i in back)) + "]"
            if real:
                res.nontrivial(("madv", line))
            if real != want or rview != mview:
                bad.append({"what": f"correspondence WD.Mac.emitBatch <-> FSEventsEmitter.queue_events broken on an arbitrary "
                                    f"callback: real {real} view {rview}, model {want} view {mview}",
                            "replay": {"request": line, "real": real, "model": want}, "signature": "c20-mac-corr-adv", "tie": True})
        finally:
            child.close()
            uni.cleanup()
    return bad


def translation_runs(res, lean, r, thorough):
    bad = win_runs(res, lean, r, thorough)
    bad += mac_runs(res, lean, r, thorough)
    return bad
