"""C04 — see harness/obs_check.py (shared observer correspondence)"""
import obs_check


def run(res, tier, lean, proof_breaks=(), build_log=""):
    obs_check.run(res, tier, lean, prop="C04", proof_breaks=proof_breaks, build_log=build_log)


def replay(res, path, lean):
    run(res, "quick", lean)
