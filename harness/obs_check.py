"""C04 / C05 / C06 correspondence: client programs on the real BaseObserver under the deterministic
scheduler (harness/obs_scenario.py) replayed step by step in WD.Obs (enabled sets, observable
history, threads left), and judged against the properties' trace predicates."""
from __future__ import annotations

import obs_scenario  # installs detsched

import common
import detsched
import explore


def op_tokens(ops):
    out = []
    for op in ops:
        if op[0] == "schedule":
            out.append(f"sch:{op[1]}:{op[2]}:{ {'n': 0, 'c': 1, 's': 2}[op[3]] }".replace(" ", ""))
        elif op[0] == "unschedule":
            out.append(f"uns:{op[1]}")
        elif op[0] == "add":
            out.append(f"add:{op[1]}:{op[2]}")
        elif op[0] == "remove":
            out.append(f"rem:{op[1]}:{op[2]}")
        elif op[0] == "uall":
            out.append("uall")
        else:
            out.append(op[0])
    return out


def request(scn, schedule):
    toks = ["obs", "C", str(len(scn["threads"]))]
    for ops in scn["threads"]:
        t = op_tokens(ops)
        toks += [str(len(t))] + t
    cbs = scn.get("callbacks", {})
    toks += ["CB", str(len(cbs))]
    for h in sorted(cbs):
        toks += [str(h), str(len(cbs[h]))]
        for ops in cbs[h]:
            t = op_tokens(ops)
            toks += [str(len(t))] + t
    em = scn.get("emit", {})
    toks += ["EM", str(len(em))]
    for w in sorted(em):
        toks += [str(w), str(len(em[w]))] + [str(v) for v in em[w]]
    toks += ["S", str(len(schedule))] + list(schedule)
    return " ".join(toks)


SETUP = [("schedule", 0, 0, "n"), ("schedule", 1, 0, "n"), ("start",)]


def fixed_scenarios():
    S = []
    S.append(("basic", {"emit": {0: [1, 2, 3]}, "threads": [[("schedule", 0, 0, "n"), ("start",), ("stop",), ("join",)]]}))
    # start() on a started observer raises RuntimeError and touches nothing: the emitters keep delivering
    S.append(("double-start", {"emit": {0: [1, 2, 3]}, "threads": [[("schedule", 0, 0, "n"), ("start",), ("start",), ("stop",), ("join",)]]}))
    S.append(("double-start-2", {"emit": {0: [1, 2], 1: [3, 4]},
                                 "threads": [[("schedule", 0, 0, "n"), ("schedule", 1, 1, "n"), ("start",), ("start",)], [("stop",), ("join",)]]}))
    S.append(("cb-start", {"emit": {0: [1, 2]}, "callbacks": {0: [[("start",)]]}, "threads": [SETUP + [("stop",), ("join",)]]}))
    # a handler registered from inside a callback receives every entry whose dispatch begins afterwards - also those that
    # were already queued when it was added
    S.append(("cb-add-handler", {"emit": {0: [1, 2, 3]}, "callbacks": {0: [[("add", 1, 0)]]},
                                 "threads": [[("schedule", 0, 0, "n"), ("start",), ("join",)]]}))
    S.append(("cb-schedule-equal", {"emit": {0: [1, 2, 3]}, "callbacks": {0: [[("schedule", 1, 0, "n")]]},
                                    "threads": [[("schedule", 0, 0, "n"), ("start",), ("join",)]]}))
    S.append(("cb-add-handler-2", {"emit": {0: [1, 2], 1: [3, 4]}, "callbacks": {0: [[("add", 1, 1)]]},
                                   "threads": [[("schedule", 0, 0, "n"), ("schedule", 0, 1, "n"), ("start",)], [("join",)]]}))
    S.append(("cb-unschedule", {"emit": {0: [1, 2]}, "callbacks": {0: [[("unschedule", 0)]]},
                                "threads": [SETUP + [("stop",), ("join",)]]}))
    S.append(("cb-remove-other", {"emit": {0: [1, 2]}, "callbacks": {0: [[("remove", 1, 0)]]},
                                  "threads": [SETUP + [("stop",), ("join",)]]}))
    S.append(("cb-remove-self", {"emit": {0: [1, 2, 3]}, "callbacks": {1: [[("remove", 1, 0)]]},
                                 "threads": [SETUP + [("stop",), ("join",)]]}))
    S.append(("thread-unschedule", {"emit": {0: [1, 2, 3]}, "threads": [SETUP + [("join",)], [("unschedule", 0), ("stop",)]]}))
    S.append(("thread-remove", {"emit": {0: [1, 2, 3]}, "threads": [SETUP, [("remove", 0, 0), ("stop",), ("join",)]]}))
    S.append(("two-watches", {"emit": {0: [1, 2], 1: [7, 8]},
                              "threads": [[("schedule", 0, 0, "n"), ("schedule", 1, 1, "n"), ("schedule", 0, 1, "n"), ("start",)],
                                          [("unschedule", 1), ("stop",), ("join",)]]}))
    S.append(("cb-schedule-new", {"emit": {0: [1], 1: [5]}, "callbacks": {0: [[("schedule", 1, 1, "n")]]},
                                  "threads": [[("schedule", 0, 0, "n"), ("start",), ("stop",), ("join",)]]}))
    S.append(("cb-stop", {"emit": {0: [1, 2]}, "callbacks": {0: [[("stop",)]]}, "threads": [SETUP + [("join",)]]}))
    S.append(("cb-uall", {"emit": {0: [1, 2], 1: [3]}, "callbacks": {1: [[("uall",)]]},
                          "threads": [[("schedule", 0, 0, "n"), ("schedule", 1, 1, "n"), ("start",), ("stop",), ("join",)]]}))
    S.append(("duplicates", {"emit": {0: [1, 1, 2, 1]}, "threads": [SETUP + [("stop",), ("join",)]]}))
    S.append(("failed-schedule", {"emit": {0: [1]}, "threads": [[("schedule", 0, 0, "c"), ("schedule", 1, 0, "n"), ("start",),
                                                                 ("schedule", 0, 1, "s"), ("stop",), ("join",)]]}))
    S.append(("stop-twice", {"emit": {0: [1]}, "threads": [SETUP + [("stop",), ("stop",), ("join",)], [("stop",)]]}))
    S.append(("schedule-after-stop", {"emit": {0: [1], 1: [2]},
                                      "threads": [[("schedule", 0, 0, "n"), ("start",), ("stop",), ("schedule", 0, 1, "n"), ("join",)]]}))
    S.append(("cb-join-self", {"emit": {0: [1]}, "callbacks": {0: [[("join",)]]}, "threads": [[("schedule", 0, 0, "n"), ("start",), ("stop",), ("join",)]]}))
    S.append(("cb-raises", {"emit": {0: [1, 2, 3]}, "callbacks": {0: [[], [("raise",)]]},
                            "threads": [SETUP + [("stop",), ("join",)]]}))
    S.append(("cb-raises-no-stop", {"emit": {0: [1, 2, 3]}, "callbacks": {0: [[], [("raise",)]]}, "threads": [SETUP]}))
    S.append(("cb-raises-first", {"emit": {0: [1, 2], 1: [4]}, "callbacks": {0: [[("raise",)]]},
                                  "threads": [[("schedule", 0, 0, "n"), ("schedule", 1, 0, "n"), ("schedule", 1, 1, "n"), ("start",),
                                               ("stop",), ("join",)]]}))
    # an equal watch scheduled again while an entry of the old one may still be queued (entries compare by value)
    S.append(("reschedule-equal", {"emit": {0: [1]}, "threads": [[("schedule", 0, 0, "n"), ("start",), ("unschedule", 0),
                                                                   ("schedule", 0, 0, "n"), ("stop",), ("join",)]]}))
    S.append(("reschedule-equal-2", {"emit": {0: [1, 1]}, "threads": [[("schedule", 0, 0, "n"), ("start",)],
                                                                     [("unschedule", 0), ("schedule", 1, 0, "n"), ("stop",), ("join",)]]}))
    # a handler unschedules its watch and schedules an equal one again while entries of the old watch are still queued
    S.append(("cb-reschedule-equal", {"emit": {0: [1, 2, 1]}, "callbacks": {0: [[("unschedule", 0), ("schedule", 0, 0, "n")]]},
                                      "threads": [[("schedule", 0, 0, "n"), ("start",)]]}))
    # equal watches scheduled from two threads at once: they must share one emitter
    S.append(("concurrent-schedule-equal", {"emit": {0: [1]}, "threads": [[("start",), ("schedule", 0, 0, "n")],
                                                                          [("schedule", 1, 0, "n")]]}))
    # a handler removed from a watch and registered for it again (from a client thread; from its own callback): exactly
    # one delivery per event afterwards
    S.append(("remove-readd", {"emit": {0: [1, 2, 3]}, "callbacks": {0: [[], [], [("stop",)]]},
                               "threads": [[("schedule", 0, 0, "n"), ("schedule", 1, 0, "n"), ("remove", 1, 0), ("add", 1, 0),
                                            ("start",), ("join",)]]}))
    S.append(("remove-readd-running", {"emit": {0: [1, 2, 3]}, "callbacks": {0: [[], [], [("stop",)]]},
                                       "threads": [SETUP + [("remove", 1, 0), ("add", 1, 0), ("join",)]]}))
    S.append(("cb-remove-readd", {"emit": {0: [1, 2, 3]}, "callbacks": {1: [[("remove", 1, 0), ("add", 1, 0)]], 0: [[], [], [("stop",)]]},
                                  "threads": [SETUP + [("join",)]]}))
    # schedule() of a new watch racing stop() on a running observer: whichever comes first, no emitter thread may be left
    # behind once stop() + join() have returned
    S.append(("schedule-vs-stop", {"emit": {0: [1], 1: [2]},
                                   "threads": [[("schedule", 0, 0, "n"), ("start",), ("schedule", 1, 1, "n")], [("stop",), ("join",)]]}))
    S.append(("schedule-vs-stop-2", {"emit": {0: [1], 1: [2, 3]},
                                     "threads": [[("schedule", 0, 0, "n"), ("start",)], [("schedule", 1, 1, "n")], [("stop",), ("join",)]]}))
    S.append(("unschedule-unknown", {"threads": [[("unschedule", 0), ("remove", 0, 0), ("add", 0, 0), ("stop",)]]}))
    return S


def random_scenario(r, i):
    nw = r.randint(1, 2)
    emit = {w: [r.randint(1, 3) for _ in range(r.randint(1, 3))] for w in range(nw)}
    api = []
    for _ in range(r.randint(1, 3)):
        k = r.random()
        if k < 0.3:
            api.append(("schedule", r.randint(0, 1), r.randrange(nw), r.choice("nnncs")))
        elif k < 0.5:
            api.append(("unschedule", r.randrange(nw)))
        elif k < 0.65:
            api.append(("remove", r.randint(0, 1), r.randrange(nw)))
        elif k < 0.8:
            api.append(("add", r.randint(0, 1), r.randrange(nw)))
        elif k < 0.9:
            api.append(("uall",))
        else:
            api.append(("stop",))
    main = [("schedule", 0, 0, "n")]
    if r.random() < 0.7:
        main.append(("schedule", 1, r.randrange(nw), "n"))
    main.append(("start",))
    threads = [main + [("stop",), ("join",)]] if r.random() < 0.5 else [main, api + [("stop",), ("join",)]]
    cbs = {}
    if r.random() < 0.6:
        h = r.randint(0, 1)
        cbs[h] = [[r.choice([("unschedule", r.randrange(nw)), ("remove", r.randint(0, 1), r.randrange(nw)),
                             ("schedule", r.randint(0, 1), r.randrange(nw), "n"), ("uall",), ("stop",),
                             ("add", r.randint(0, 1), r.randrange(nw))])]]
    if len(threads) == 1 and r.random() < 0.5:
        threads.append(api)
    return (f"random{i}", {"emit": emit, "callbacks": cbs, "threads": threads})


def parse_hist(hist):
    out = []
    for h in hist:
        f = h.split(":")
        out.append(f)
    return out


def judge_c04(scn, result):
    """every callback is for an event that was queued for that watch; per (handler, watch) the values
    arrive in queue order, none more often than queued"""
    enq = {}
    calls = {}
    for f in parse_hist(result["hist"]):
        if f[0] == "enq" and f[1] != "STOP":
            enq.setdefault(int(f[1]), []).append(f[2])
        elif f[0] == "call":
            h, w, v = int(f[1]), int(f[2]), f[3]
            seq = calls.setdefault((h, w), [])
            seq.append(v)
            # subsequence check against what has been enqueued for w so far
            src = enq.get(w, [])
            it = iter(src)
            if not all(any(x == y for y in it) for x in seq):
                return f"handler {h} received {seq} for watch {w}, not a subsequence of the queued {src}"
    return None


def judge_c04_gap(scn, result):
    """in order, nothing skipped: what a handler receives for a watch is a contiguous run of what was
    queued for that watch, as long as no call that could (un)register it had begun before its last
    reception"""
    hist = parse_hist(result["hist"])
    threads = scn["threads"]
    cbs = scn.get("callbacks", {})

    def op_of(label, idx):
        if label.startswith("cb"):
            h, k = label[2:].split(".")
            return cbs[int(h)][int(k)][idx]
        return threads[int(label)][idx]

    changes = []   # (position where the call began, handler or None, watch or None)
    for pos, label, idx in result.get("begs", []):
        op = op_of(label, idx)
        if op[0] in ("remove", "add"):
            changes.append((pos, op[1], op[2]))
        elif op[0] == "schedule":
            changes.append((pos, op[1], op[2]))
        elif op[0] == "unschedule":
            changes.append((pos, None, op[1]))
        elif op[0] in ("uall", "stop"):
            changes.append((pos, None, None))
    enq = {}
    got = {}
    first_call = {}
    for i, f in enumerate(hist):
        if f[0] == "enq" and f[1] != "STOP":
            enq.setdefault(int(f[1]), []).append(f[2])
        elif f[0] == "call":
            key = (int(f[1]), int(f[2]))
            got.setdefault(key, []).append((i, f[3]))
            first_call.setdefault(key, i)
    for (h, w), calls in got.items():
        last_pos = calls[-1][0]
        first_pos = calls[0][0]
        if any(first_pos <= pos <= last_pos and (ch is None or ch == h) and (cw is None or cw == w) for pos, ch, cw in changes):
            continue
        seq = [v for _i, v in calls]
        src = enq.get(w, [])
        if not any(src[start:start + len(seq)] == seq for start in range(len(src) + 1)):
            return f"handler {h} received {seq} for watch {w}: not a contiguous run of the queued {src} (an event was skipped)"
    return None


def judge_c04_complete(scn, result):
    """completeness for a handler registered before an event's dispatch began: if `add`/`schedule` of (h, w) returned at
    position p and every callback for the entry (w, v) happens after p - so its handler copy was taken after the call took
    effect: the dispatcher holds the observer's lock from the copy to the last callback - then h receives (w, v) too,
    unless something that removes it began in between or inside that dispatch"""
    hist = parse_hist(result["hist"])
    threads = scn["threads"]
    cbs = scn.get("callbacks", {})

    def op_of(label, idx):
        if label.startswith("cb"):
            h, k = label[2:].split(".")
            return cbs[int(h)][int(k)][idx]
        return threads[int(label)][idx]

    begs = [(pos, str(label), int(idx), op_of(label, idx)) for pos, label, idx in result.get("begs", [])]
    beg_of = {(str(label), int(idx)): pos for pos, label, idx in result.get("begs", [])}
    ret_of = {(f[1], int(f[2])): i for i, f in enumerate(hist) if f[0] == "ret"}
    enq = {}
    calls = {}        # (w, v) -> [(pos, h)]
    for i, f in enumerate(hist):
        if f[0] == "enq" and f[1] != "STOP":
            enq.setdefault(int(f[1]), []).append(f[2])
        elif f[0] == "call":
            calls.setdefault((int(f[2]), f[3]), []).append((i, int(f[1])))

    def removes(op, h, w):
        return (op[0] == "remove" and op[1] == h and op[2] == w) or (op[0] == "unschedule" and op[1] == w) or \
            op[0] in ("uall", "stop")

    for p, f in enumerate(hist):
        if f[0] != "ret" or f[3] != "ok":
            continue
        op = op_of(f[1], int(f[2]))
        if op[0] not in ("add", "schedule"):
            continue
        h, w = op[1], op[2]
        for (w2, v), cl in calls.items():
            if w2 != w or enq.get(w, []).count(v) != 1:
                continue
            first, last = min(c[0] for c in cl), max(c[0] for c in cl)
            if first <= p or any(hh == h for _c, hh in cl):
                continue
            # the dispatch of (w, v) is over: a callback for another entry follows, or a client call that began during it returned
            nxt = [i for i, g in enumerate(hist) if i > last and g[0] == "call" and (int(g[2]), g[3]) != (w, v)]
            done = [i for i, g in enumerate(hist) if i > last and g[0] == "ret" and not g[1].startswith("cb")
                    and beg_of.get((g[1], int(g[2])), -1) > first]
            if not nxt and not done:
                continue
            end = min(nxt + done)
            if any(g[0] == "died" for g in hist[first:end + 1]):
                continue          # a callback raised: the dispatching thread ended inside this dispatch
            # a removing call that had not returned by p and began before the dispatch may take effect in between; one
            # made from a callback inside the dispatch takes effect at once
            if any(removes(o_, h, w) and ((pos < first and ret_of.get((label, idx_), len(hist)) > p) or
                                          (label.startswith("cb") and first <= pos <= end))
                   for pos, label, idx_, o_ in begs):
                continue
            return (f"handler {h} was registered for watch {w} (the call returned at history position {p}) before the dispatch "
                    f"of the entry ({w}, {v}) began (first callback at {first}), nothing removed it, and it never received it")
    return None


def judge_c05(scn, result):
    """after a removing call has returned, the removed handler is not called for that watch any more
    (unless a registering call for it returns later: it may already have taken effect)"""
    hist = parse_hist(result["hist"])
    threads = scn["threads"]
    cbs = scn.get("callbacks", {})

    def op_of(label, idx):
        if label.startswith("cb"):
            h, k = label[2:].split(".")
            return cbs[int(h)][int(k)][idx]
        return threads[int(label)][idx]

    began = {(str(t), int(k)): pos for pos, t, k in result.get("begs", [])}
    for i, f in enumerate(hist):
        if f[0] != "ret" or f[3] != "ok":
            continue
        op = op_of(f[1], int(f[2]))
        # a registering call that returns after the removing call BEGAN overlaps it (or follows it): it may take effect
        # after the removal (linearisation), exactly like one that returns later
        i0 = began.get((f[1], int(f[2])), i + 1)
        removed = None
        if op[0] == "unschedule":
            removed = (None, op[1])
        elif op[0] == "remove":
            removed = (op[1], op[2])
        elif op[0] in ("uall", "stop"):
            removed = (None, None)
        if removed is None:
            continue
        for j in range(i + 1, len(hist)):
            g = hist[j]
            if g[0] == "enq" and g[1] != "STOP" and removed[0] is None and (removed[1] is None or removed[1] == int(g[1])):
                # the emitter of an unscheduled watch has stopped producing events
                resched = any(r[0] == "ret" and r[3] == "ok" and op_of(r[1], int(r[2]))[0] in ("schedule", "start")
                              for r in hist[min(i0, i + 1):])
                if not resched:
                    return f"emitter of watch {g[1]} queued an event after {op} had returned (history positions {i} < {j})"
            if g[0] == "call":
                h, w = int(g[1]), int(g[2])
                if (removed[0] is None or removed[0] == h) and (removed[1] is None or removed[1] == w):
                    # legit only if some registering call for (h, w) returns after i
                    rereg = False
                    for k in range(min(i0, i + 1), len(hist)):
                        r = hist[k]
                        if r[0] == "ret" and r[3] == "ok":
                            o = op_of(r[1], int(r[2]))
                            if o[0] in ("schedule", "add") and o[1] == h and o[2] == w:
                                rereg = True
                    if not rereg:
                        return (f"handler {h} called for watch {w} after {op} had returned "
                                f"(history positions {i} < {j})")
    return None


def judge_c06(scn, result):
    """no call blocks forever (join() on an observer nobody stops excepted: that is its purpose); once a
    client has completed stop() and then join(), no library thread is left; no thread died of an
    uncaught exception"""
    if result["uncaught"]:
        return f"uncaught exception in a thread: {result['uncaught']!r}"
    if not isinstance(result["failure"], detsched.Deadlock):
        return None
    hist = parse_hist(result["hist"])
    threads = scn["threads"]
    stop_returned = False
    stop_join_done = False
    for f in hist:
        if f[0] == "ret" and not f[1].startswith("cb") and f[3] == "ok":
            op = threads[int(f[1])][int(f[2])]
            if op[0] == "stop":
                stop_returned = True
            if op[0] == "start":
                stop_returned = False
                stop_join_done = False
            if op[0] == "join" and stop_returned:
                stop_join_done = True
    labels = result.get("stuck_labels", {})
    for name in result.get("stuck", []):
        lab = labels.get(name, "")
        if name.isdigit():
            if lab.startswith("join D") and not stop_returned:
                continue   # waiting for an observer nobody stopped
            return f"client thread {name} blocked forever at '{lab}'"
    lib = [n for n in result.get("stuck", []) if not n.isdigit()]
    if lib and stop_join_done:
        return f"library threads {lib} still alive after stop() and join() had returned"
    return None


def judge_c13(scn, result):
    """equal watches share one emitter: the observer never reports two emitters for one watch"""
    fe = result.get("final_emitters", [])
    dup = sorted({w for w in fe if fe.count(w) > 1})
    if dup:
        return f"the observer reports {len(fe)} emitters {fe}: more than one for watch(es) {dup}"
    return None


def judge_c07(scn, result):
    """no sequence of API calls makes a thread of the library terminate with an unhandled error"""
    if result["uncaught"]:
        return f"a library thread died of an uncaught exception: {result['uncaught']!r}"
    return None


def run(res, tier, lean, prop="C04", proof_breaks=(), build_log=""):
    r = common.rng("obs-" + prop)
    thorough = tier == "thorough"
    res.cov["rule"] = ("client programs (1-2 watches, 1-2 handlers, scripted emitters, API calls from client threads and "
                       "re-entrantly from callbacks, injected emitter failures) on the real BaseObserver; all schedules within "
                       "a preemption bound by stateless DFS (capped) + random schedules; every run replayed step by step in "
                       "WD.Obs and judged by the trace predicates of C04/C05/C06; distinct = distinct (program, schedule); "
                       "non-trivial = at least one callback delivered")
    bound = 2
    cap = 400 if thorough else 60
    scns = fixed_scenarios() + [random_scenario(r, i) for i in range(60 if thorough else 14)]
    lines, impl, meta = [], [], []
    exhausted_all = True
    for name, scn in scns:
        run_one = obs_scenario.make_run(scn)
        info = {}
        runs = list(explore.dfs(run_one, bound, cap, info))
        exhausted_all &= info.get("exhausted", False)
        runs += list(explore.random_runs(run_one, r, 30 if thorough else 8))
        for sched, result in runs:
            lines.append(request(scn, result["schedule"]))
            impl.append(result["line"])
            meta.append((name, scn, result))
            res.bump("runs")
    outs_full = lean.run(lines)
    outs = [o.split(" # ")[0] for o in outs_full]
    res.notes["runs_with_runOk"] = sum(1 for o in outs_full if "runOk=1" in o)
    res.notes["runs_with_one_dispatcher"] = sum(1 for o in outs_full if "oneDispatcher=1" in o)
    # instances of the global C06 theorems on the replayed runs (final state of the model): hypotheses => conclusions
    hyp = [o for o in outs_full if "runOk=1" in o and "oneDispatcher=1" in o and "quiescent=1" in o]
    res.notes["c06_no_deadlock_instances"] = len(hyp)
    res.notes["c06_stop_ends_all_instances"] = sum(1 for o in hyp if "stopOk=1" in o and "regEmpty=1" in o)
    for o in hyp:
        if "idle=0" in o or ("stopOk=1" in o and "regEmpty=1" in o and "allDone=0" in o):
            raise RuntimeError("the compiled model contradicts a proved theorem of WD.Props.C06 (driver/compiler problem?): " + o[-300:])
    res.notes["runs_replayed"] = len(outs_full)
    bad, judged = [], []
    judges = {"C04": [judge_c04, judge_c05, judge_c04_gap, judge_c04_complete], "C05": [judge_c05], "C06": [judge_c06], "C07": [judge_c07], "C13": [judge_c13]}[prop]
    for line, o, i, (name, scn, result) in zip(lines, outs, impl, meta):
        res.count()
        if any(h.startswith("call:") for h in result["hist"]):
            res.nontrivial(line)
        if any(h.startswith("ret:cb") for h in result["hist"]):
            res.bump("runs_with_reentrant_api_call")
        if any(h.startswith("drop:") for h in result["hist"]):
            res.bump("runs_with_coalesced_event")
        for jf in judges:
            v = jf(scn, result)
            if v:
                judged.append((line, i, o, name, scn, v))
        if o != i:
            bad.append((line, i, o, name, scn))
    res.cov["traces_validated_against_impl"] = len(lines)
    res.notes["dfs_exhausted_within_bound"] = exhausted_all
    res.notes["preemption_bound"] = bound
    res.notes["programs"] = len(scns)
    res.sample({"request": lines[1], "implementation": impl[1], "model": outs[1]})
    res.sample({"request": lines[-1], "implementation": impl[-1], "model": outs[-1]})
    if bad and not judged:
        # the correspondence is broken but no explored run violated the property: search the neighbourhood of the
        # mismatching programs on the REAL code with the judges as oracle (more schedules, higher preemption bound)
        seen_prog = []
        for b in bad:
            if b[3] not in [n for n, _ in seen_prog]:
                seen_prog.append((b[3], b[4]))
        searched = 0
        for name, scn in seen_prog[:12]:
            run_one = obs_scenario.make_run(scn)
            info = {}
            runs = list(explore.dfs(run_one, 3, 300, info)) + list(explore.random_runs(run_one, r, 100, 0.7))
            # line-level preemption: races inside what the model treats as one step
            run_lp = obs_scenario.make_run(scn, line_preempt=True)
            runs += list(explore.random_runs(run_lp, r, 150, 0.1))
            # one thread parked at one line while the others run on (every thread, every line it reaches)
            runs += list(explore.park_runs(run_lp, 300))
            # long uninterrupted stretches with rare switches (a whole API call fits between two lines of another thread)
            runs += list(explore.random_runs(run_lp, r, 400, 0.02))
            for sched, result in runs:
                searched += 1
                for jf in judges:
                    v = jf(scn, result)
                    if v:
                        judged.append((request(scn, result["schedule"]), result["line"], "(not replayed)", name, scn, v))
            if judged:
                break
        res.notes["failing_input_search_runs"] = searched
    if prop == "C06" and not judged:
        # the model's `put` never blocks: that is true of the code only while the observer's event queue is
        # unbounded.  If it is not, search the real code with a burst that fills it.
        from watchdog.observers.api import BaseObserver, EventEmitter
        cap_q = BaseObserver(EventEmitter).event_queue.maxsize
        res.notes["event_queue_maxsize"] = cap_q
        if cap_q and cap_q > 0:
            n_ev = cap_q + 3
            scn = {"emit": {0: [1 + (i % 2) for i in range(n_ev)]}, "callbacks": {0: [[("unschedule", 0)]]},
                   "threads": [SETUP + [("stop",), ("join",)]]}
            run_big = obs_scenario.make_run(scn, max_steps=20 * n_ev + 4000)
            found = None

            def emitter_first(_s, en):
                # let the emitter run whenever it can (it fills the queue), then the clients, the dispatcher last
                for pref in (lambda t: not t.name.isdigit() and not t.name.startswith("D"), lambda t: t.name.isdigit()):
                    pick = next((t for t in en if pref(t)), None)
                    if pick is not None:
                        return pick
                return en[0]

            runs_big = [run_big(emitter_first)] + list(explore.random_runs(run_big, r, 3, 0.05))
            for sched, result in runs_big:
                v = judge_c06(scn, result)
                if v:
                    found = (sched, result, v)
                    break
            if found:
                res.violation(f"observer run violates C06 (event queue bounded at {cap_q}: a full queue blocks the emitter while the "
                              f"dispatcher joins it): {found[2]}",
                              {"program": "fill-the-queue", "events_emitted": n_ev, "callback": "unschedule(0)",
                               "stuck": found[1].get("stuck"), "stuck_labels": found[1].get("stuck_labels")},
                              signature="c06-bounded-queue")
            else:
                res.violation(f"correspondence WD.Obs <-> BaseObserver broken: the model's put never blocks, the observer's event "
                              f"queue is bounded at {cap_q}; a burst of {n_ev} events found no blocked call",
                              {"correspondence": "WD.Obs.State.putItem (non-blocking) vs EventQueue(maxsize)", "maxsize": cap_q},
                              no_input=True, signature="c06-bounded-queue-model")
    if judged:
        judged.sort(key=lambda b: len(b[0]))
        groups = {}
        for j in judged:
            sig = f"{prop.lower()}-judge"
            if prop == "C06" and "schedule-after-stop" in j[3]:
                sig = "c06-schedule-after-stop"
            groups.setdefault(sig, []).append(j)
        for sig, js in groups.items():
            line, i, o, name, scn, v = js[0]
            res.violation(f"observer run violates {prop}: {v}",
                          {"program": name, "scenario": scn, "request": line, "implementation": i, "model": o,
                           "violating_runs": len(js)}, signature=sig)
    elif bad:
        bad.sort(key=lambda b: len(b[0]))
        line, i, o, name, scn = bad[0]
        res.violation(f"correspondence WD.Obs <-> BaseObserver broken (theorems {prop}.* no longer tied to the code); every "
                      "explored run was judged against the property's trace predicates and none failed",
                      {"correspondence": "harness/obs_check.py vs lean WD.Obs.step", "program": name, "scenario": scn,
                       "request": line, "implementation": i, "model": o, "mismatching_runs": len(bad)},
                      no_input=True, signature=f"{prop.lower()}-model-mismatch")
