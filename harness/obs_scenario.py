"""Runs client programs against the real BaseObserver (scripted emitters, recording handlers whose
callbacks may call the API re-entrantly) under the deterministic scheduler, with the event queue
abstracted as atomic (its fine-grained behaviour is C16's).  Shared by C04, C05, C06."""
from __future__ import annotations

import detsched

detsched.install()
detsched.ATOMIC_QUEUES = True

import common  # noqa: E402,F401


class Injected(Exception):
    pass


class Boom(Exception):
    """raised by a handler callback on purpose"""


def build_env(scn, sched, hist):
    """scn: {'watches': n, 'emit': {wid: [v,...]}, 'callbacks': {hid: [[ops of 1st invocation], ...]},
             'filters': {wid: bool accept}, 'threads': [[ops], ...]}"""
    from watchdog.events import FileModifiedEvent, FileSystemEventHandler
    from watchdog.observers.api import BaseObserver, EventEmitter, ObservedWatch

    env = {}
    begs = []      # (history position at which an API call began, caller label, index): harness-side only
    env["begs"] = begs

    class Rec(FileSystemEventHandler):
        def __init__(self, hid):
            self.hid = hid
            self.invocations = 0

        def __hash__(self):          # deterministic set iteration order (by id) for handler sets
            return self.hid

        def on_any_event(self, event):
            wid = int(event.src_path.split(":")[0][1:])
            v = event.src_path.split(":")[1]
            hist.append(f"call:{self.hid}:{wid}:{v}")
            scripts = scn.get("callbacks", {}).get(self.hid, [])
            k = self.invocations
            self.invocations += 1
            if k < len(scripts):
                run_ops(f"cb{self.hid}.{k}", scripts[k], reentrant=True)

    class ScriptedEmitter(EventEmitter):
        fail = {}     # (thread name, "ctor"|"start") -> watch id: the fault belongs to the calling thread's call

        def __init__(self, event_queue, watch, *, timeout=1, event_filter=None):
            wid = int(watch.path[2:])
            if ScriptedEmitter.fail.pop((sched.me().name, "ctor"), None) == wid:
                raise Injected("ctor")
            self.wid = wid
            super().__init__(event_queue, watch, timeout=timeout, event_filter=event_filter)
            self._det_name = f"E{wid}"
            self.script = list(scn.get("emit", {}).get(wid, []))

        def __hash__(self):          # deterministic iteration order of the observer's emitter set
            return self.wid

        def on_thread_start(self):
            if ScriptedEmitter.fail.pop((sched.me().name, "start"), None) == self.wid:
                raise Injected("start")

        def queue_events(self, timeout):
            if self.script:
                detsched.cur().yield_point("emit")
                v = self.script.pop(0)
                self.queue_event(FileModifiedEvent(f"w{self.wid}:{v}"))
            else:
                self.stopped_event.wait()

    obs = sched.create(lambda: BaseObserver(ScriptedEmitter, timeout=1))
    obs._det_name = "D"
    q = obs.event_queue
    orig_put_hook = q._put

    def _put(item, _orig=orig_put_hook):
        _orig(item)
        if isinstance(item, tuple):
            hist.append(f"enq:{item[0].src_path[1:]}")
        else:
            hist.append("enq:STOP")

    q._put = _put
    orig_put = q.put

    def put(item, block=True, timeout=None, _orig=orig_put):
        n = len(hist)
        _orig(item, block, timeout)
        if not any(h.startswith("enq:") for h in hist[n:]):
            hist.append(f"drop:{item[0].src_path[1:]}" if isinstance(item, tuple) else "drop:STOP")

    q.put = put
    handlers = {}

    def H(hid):
        return handlers.setdefault(hid, Rec(hid))

    def W(wid):
        return ObservedWatch(f"/w{wid}", recursive=False)

    def run_ops(tid, ops, reentrant=False):
        for k, op in enumerate(ops):
            begs.append((len(hist), tid, k))
            try:
                if op[0] == "schedule":
                    me = sched.me().name
                    if op[3] == "c":
                        ScriptedEmitter.fail[(me, "ctor")] = op[2]
                    elif op[3] == "s":
                        ScriptedEmitter.fail[(me, "start")] = op[2]
                    try:
                        obs.schedule(H(op[1]), f"/w{op[2]}")
                    finally:
                        ScriptedEmitter.fail.pop((me, "ctor"), None)
                        ScriptedEmitter.fail.pop((me, "start"), None)
                elif op[0] == "unschedule":
                    obs.unschedule(W(op[1]))
                elif op[0] == "add":
                    obs.add_handler_for_watch(H(op[1]), W(op[2]))
                elif op[0] == "remove":
                    obs.remove_handler_for_watch(H(op[1]), W(op[2]))
                elif op[0] == "uall":
                    obs.unschedule_all()
                elif op[0] == "start":
                    obs.start()
                elif op[0] == "stop":
                    obs.stop()
                elif op[0] == "join":
                    obs.join()
                elif op[0] == "raise":
                    hist.append(f"died:{sched.me().name}")
                    raise Boom()
                res = "ok"
            except Injected as e:
                res = "raised:" + str(e)
            except KeyError:
                res = "raised:KeyError"
            except RuntimeError:
                res = "raised:RuntimeError"
            hist.append(f"ret:{tid}:{k}:{res}")

    env["obs"] = obs
    env["run_ops"] = run_ops
    env["emitter_class"] = ScriptedEmitter
    return env


def make_run(scn, max_steps=4000, line_preempt=False):
    def run_one(chooser):
        sched = detsched.Scheduler(chooser, max_steps=max_steps * (25 if line_preempt else 1), line_preempt=line_preempt)
        hist = []
        env = build_env(scn, sched, hist)
        fns = [(lambda i=i, ops=ops: env["run_ops"](str(i), ops)) for i, ops in enumerate(scn["threads"])]
        failure = None
        try:
            sched.run_threads(fns, [str(i) for i in range(len(fns))])
        except (detsched.Deadlock, detsched.StepLimit) as e:
            failure = e
        steps = " ".join(f"{','.join(en)}>{ch}" for _n, _clk, en, ch, _l in sched.trace)
        alive = list(sched.stuck) if failure is not None else []
        result = {
            "line": f"{steps} | {' '.join(hist)} | left=[{','.join(alive)}]",
            "schedule": [t[3] for t in sched.trace],
            "failure": failure, "uncaught": [u for u in sched.uncaught if not isinstance(u[1], Boom)], "hist": hist,
            "threads": [t.name for t in sched.order], "stuck": alive, "stuck_labels": dict(sched.stuck_labels), "begs": list(env["begs"]),
            # the registry at the end of the run: (watch id) of every emitter the observer reports
            "final_emitters": sorted(getattr(e, "wid", -1) for e in list(env["obs"].emitters)),
        }
        return sched, result

    return run_one
