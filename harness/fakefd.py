"""A small in-process fake of the kernel interface watchdog.observers.inotify_c uses (inotify_init /
inotify_add_watch / inotify_rm_watch, os.pipe/read/write/close, select.poll), driven by the
deterministic scheduler: descriptors are a state machine open -> closed and every use of a closed
descriptor (read, poll, write, rm_watch, add_watch, second close) is recorded as a violation."""
from __future__ import annotations

import ctypes
import errno
import os as real_os
import select as real_select

import detsched


class FakeKernel:
    def __init__(self):
        self.fds = {}            # fd -> {"kind", "open", "data": [bytes], "label"}
        self.next_fd = 100
        self.next_wd = 1
        self.violations = []
        self.log = []
        self.calls = 0           # counts kernel calls that may be made to fail
        self.fail_at = {}        # call index -> errno
        self.pipes = {}          # write end -> read end

    # -- helpers
    def _new(self, kind):
        fd = self.next_fd
        self.next_fd += 1
        self.fds[fd] = {"kind": kind, "open": True, "data": [], "closes": 0}
        return fd

    def _use(self, fd, what):
        st = self.fds.get(fd)
        if st is None:
            self.violations.append(f"{what} on a descriptor the library never owned ({fd})")
            return False
        if not st["open"]:
            self.violations.append(f"{what} after close of {st['kind']}")
            return False
        return True

    def _maybe_fail(self):
        k = self.calls
        self.calls += 1
        e = self.fail_at.get(k)
        if e is not None:
            ctypes.set_errno(e)
            return True
        return False

    def open_fds(self):
        return sorted(st["kind"] for st in self.fds.values() if st["open"])

    # -- the three libc functions (module-level names in inotify_c)
    def inotify_init(self):
        if self._maybe_fail():
            return -1
        return self._new("inotify")

    def inotify_add_watch(self, fd, path, mask):
        if not self._use(fd, "inotify_add_watch"):
            ctypes.set_errno(errno.EBADF)
            return -1
        if self._maybe_fail():
            return -1
        wd = self.next_wd
        self.next_wd += 1
        self.log.append(("add_watch", path))
        return wd

    def inotify_rm_watch(self, fd, wd):
        if not self._use(fd, "inotify_rm_watch"):
            ctypes.set_errno(errno.EBADF)
            return -1
        # the kernel answers with IN_IGNORED for that wd
        self.fds[fd]["data"].append(_record(wd, 0x8000, 0, b""))
        return 0

    # -- os.* used on descriptors
    def pipe(self):
        k = self.calls
        self.calls += 1
        e = self.fail_at.get(k)
        if e is not None:
            raise OSError(e, real_os.strerror(e))
        r = self._new("kill_r")
        w = self._new("kill_w")
        self.pipes[w] = r
        return r, w

    def read(self, fd, n):
        if not self._use(fd, "read"):
            raise OSError(errno.EBADF, "Bad file descriptor")
        st = self.fds[fd]
        if not st["data"]:
            self.violations.append(f"read would block on {st['kind']}")
            return b""
        buf = b"".join(st["data"])
        st["data"] = []
        return buf

    def write(self, fd, data):
        if not self._use(fd, "write"):
            raise OSError(errno.EBADF, "Bad file descriptor")
        self.fds[self.pipes[fd]]["data"].append(data)
        return len(data)

    def close(self, fd):
        st = self.fds.get(fd)
        if st is None:
            return real_os.close(fd)
        st["closes"] += 1
        if not st["open"]:
            self.violations.append(f"second close of {st['kind']}")
            raise OSError(errno.EBADF, "Bad file descriptor")
        st["open"] = False

    def inject(self, fd_kind, data):
        for st in self.fds.values():
            if st["kind"] == fd_kind and st["open"]:
                st["data"].append(data)

    def readable(self, fd):
        st = self.fds.get(fd)
        return st is not None and bool(st["data"])


def _record(wd, mask, cookie, name):
    import struct
    if name:
        name = name + b"\0" * (16 - len(name) % 16)
    return struct.pack("iIII", wd, mask, cookie, len(name)) + name


record = _record


class OsProxy:
    """`os` as seen by inotify_c: descriptor calls go to the fake kernel, the rest to the real module"""

    def __init__(self, k):
        self._k = k

    def __getattr__(self, name):
        if name in ("read", "write", "close", "pipe"):
            return getattr(self._k, name)
        return getattr(real_os, name)


class SelectProxy:
    POLLIN = real_select.POLLIN

    def __init__(self, k):
        self._k = k

    def poll(self):
        k = self._k

        class Poller:
            def __init__(self):
                self.regs = []

            def register(self, fd, ev):
                k._use(fd, "poll register")
                self.regs.append(fd)

            def poll(self, *a):
                for fd in self.regs:
                    k._use(fd, "poll")
                s = detsched.cur()
                if s:
                    s.block("pred", lambda: any(k.readable(fd) for fd in self.regs), None, "poll")
                return [(fd, real_select.POLLIN) for fd in self.regs if k.readable(fd)]

        return Poller()

    def __getattr__(self, name):
        return getattr(real_select, name)


def install(k):
    """substitute the kernel-facing module-level names of watchdog.observers.inotify_c; returns undo()"""
    from watchdog.observers import inotify_c as m

    saved = {n: getattr(m, n) for n in ("inotify_init", "inotify_add_watch", "inotify_rm_watch", "os", "select")}
    m.inotify_init = k.inotify_init
    m.inotify_add_watch = k.inotify_add_watch
    m.inotify_rm_watch = k.inotify_rm_watch
    m.os = OsProxy(k)
    m.select = SelectProxy(k)

    def undo():
        for n, v in saved.items():
            setattr(m, n, v)

    return undo
