"""C19 — event paths keep the caller's path type and the entry's exact name, native and polling backends.
The real InotifyObserver and PollingObserver watch the same scratch tree, given as str / bytes / pathlib.Path,
absolute and relative (with the root's own text repeated further down), over names that are not valid in the
file-system encoding, not NFC-normalised, and plain.  Every non-empty path of every delivered event is compared
with WD.PT (compiled driver): Python type and, converted back with os.fsencode, the exact bytes
root + "/" + relative name; the names must be names that really existed.  Both backends must report the same
created paths (== on the Python objects)."""
from __future__ import annotations

import os
import pathlib
import shutil
import tempfile
import threading
import time

import common

NAMES = [b"a", "café".encode(), "café".encode(), b"\xff\xfeq", b"w"]


class Rec:
    def __init__(self):
        from watchdog.events import FileSystemEventHandler

        rec = self

        class H(FileSystemEventHandler):
            def on_any_event(self, event):
                rec.events.append(event)

        self.events = []
        self.handler = H()


def hexs(b):
    return b.hex() if b else "-"


def scenario(kind, res, lean_lines, meta):
    """kind: how the root is spelled. Returns a violation text or None."""
    from watchdog.observers.inotify import InotifyObserver
    from watchdog.observers.polling import PollingObserver

    base = os.path.realpath(tempfile.mkdtemp(prefix="wdverif-c19-", dir=os.environ.get("TMPDIR") or None))
    old_cwd = os.getcwd()
    observers = []
    # "+u": the watched root's own name is not ASCII (its str and bytes spellings differ in length)
    full_kind = kind
    kind, _, flags = kind.partition("+")
    uni, slash = "u" in flags, "s" in flags
    data = "d\u00e4ta-\u4e2d" if uni else "data"
    try:
        # the watched root is base/data ; with the relative spellings the process works from `base`
        os.makedirs(os.path.join(base, data, "a", "metadata", "archive"))
        os.makedirs(os.path.join(base, data, "w"))
        rootB_abs = os.fsencode(os.path.join(base, data))
        if kind == "str":
            arg, rootB = os.path.join(base, data), rootB_abs
        elif kind == "bytes":
            arg, rootB = rootB_abs, rootB_abs
        elif kind == "path":
            arg, rootB = pathlib.Path(base, data), rootB_abs
        elif kind == "relstr":
            os.chdir(base)
            arg, rootB = data, os.fsencode(data)
        else:
            os.chdir(base)
            arg, rootB = os.fsencode(data), os.fsencode(data)
        if slash:
            # the root spelled with a trailing separator: joined paths still have exactly one separator
            arg = arg + (b"/" if isinstance(arg, bytes) else "/") if not isinstance(arg, pathlib.Path) else arg
        want_bytes = isinstance(arg, bytes)
        wk = "b" if want_bytes else ("p" if kind == "path" else "s")
        recs = {}
        for name, cls in (("native", InotifyObserver), ("polling", lambda: PollingObserver(timeout=0.04))):
            o = cls()
            r = Rec()
            o.schedule(r.handler, arg, recursive=True)
            o.start()
            observers.append(o)
            recs[name] = r
        time.sleep(0.15)
        existed = {b"a", b"a/metadata", b"a/metadata/archive", b"w"}

        def P(rel):          # absolute bytes path of a relative bytes name
            return os.path.join(rootB_abs, rel)

        def step(fn, *names, see=None):
            """one operation, then the stream is given time to drain (the property's pacing condition): wait until the
            native observer has delivered an event that names the entry (a fixed pause is not enough on a loaded
            machine: the next operation would touch a directory whose rename is still being translated)"""
            fn()
            existed.update(names)
            target = see if see is not None else (names[0] if names else None)
            deadline = time.monotonic() + 10
            while target is not None and time.monotonic() < deadline:
                # BOTH observers: a polling observer that lags behind (loaded machine) compresses two operations into one
                # diff - a file made in `d` and `d` renamed to `dd` before its next snapshot is a creation of `dd/<file>` to
                # it, legitimately, and the two backends' created paths would differ
                hits = 0
                for backend in ("native", "polling"):
                    hit = False
                    for e in list(recs[backend].events):
                        for pth in (e.src_path, e.dest_path):
                            if pth not in ("", b"", None) and os.fsencode(pth).endswith(b"/" + target):
                                hit = True
                    hits += hit
                if hits == 2:
                    break
                time.sleep(0.01)
            time.sleep(0.16)

        made = []

        def touch(rel):
            fd = os.open(P(rel), os.O_CREAT | os.O_EXCL | os.O_WRONLY)
            os.close(fd)
            made.append(rel)

        for n in NAMES[1:4]:
            step(lambda n=n: touch(n), n)
        step(lambda: os.mkdir(P(b"d")), b"d")
        for n in NAMES[:4]:
            step(lambda n=n: touch(b"d/" + n), b"d/" + n)
        step(lambda: os.rename(P(b"d"), P(b"dd")), b"dd", *[b"dd/" + n for n in NAMES[:4]])
        step(lambda: touch(b"dd/x"), b"dd/x")
        # the root's own text further down: data/a/metadata/archive ; rename a -> b, then a change deep inside
        step(lambda: os.rename(P(b"a"), P(b"b")), b"b", b"b/metadata", b"b/metadata/archive")
        step(lambda: touch(b"b/metadata/archive/f.txt"), b"b/metadata/archive/f.txt")
        step(lambda: os.rename(P(b"dd/x"), P(b"w/" + NAMES[3])), b"w/" + NAMES[3])
        step(lambda: os.unlink(P(NAMES[2])), see=NAMES[2])
        step(lambda: shutil.rmtree(P(b"dd")), see=b"dd")
        time.sleep(0.3)
        for o in observers:
            o.stop()
        for o in observers:
            o.join(5)
        created = {}
        for backend, r in recs.items():
            res.bump(f"events_{backend}", len(r.events))
            created[backend] = set()
            for e in r.events:
                if type(e).__name__ == "FileCreatedEvent":
                    created[backend].add(e.src_path)
                for p in (e.src_path, e.dest_path):
                    if p in ("", b"", None):
                        continue
                    res.count()
                    if isinstance(p, bytes) != want_bytes or not isinstance(p, (bytes, str)):
                        return (f"{backend}: event path {p!r} is {type(p).__name__}, the watched path was given as "
                                f"{type(arg).__name__} ({type(e).__name__})")
                    raw = os.fsencode(p)
                    if raw == rootB or raw == rootB + b"/":
                        rel = b""
                    elif raw.startswith(rootB + b"/"):
                        rel = raw[len(rootB) + 1:]
                    else:
                        return (f"{backend}: event path {p!r} is not the watched path joined with a relative name "
                                f"(watched {arg!r}, {type(e).__name__})")
                    if rel and rel not in existed:
                        return (f"{backend}: event path {p!r} names {rel!r}, which never existed under the watched root "
                                f"({type(e).__name__}, synthetic={e.is_synthetic})")
                    comps = [c for c in rel.split(b"/") if c]
                    res.nontrivial((full_kind, backend, rel, type(e).__name__))
                    if e.is_synthetic and backend == "native" and len(comps) > 1:
                        line = f"evpath sub {wk} {hexs(rootB)} 1 {hexs(comps[0])} {len(comps) - 1} " + " ".join(hexs(c) for c in comps[1:])
                    else:
                        line = (f"evpath {'native' if backend == 'native' else 'polling'} {wk} {hexs(rootB)} {len(comps)} "
                                + " ".join(hexs(c) for c in comps) + " 0").replace("  ", " ")
                    lean_lines.append(line)
                    meta.append((full_kind, backend, ("b:" if isinstance(p, bytes) else "s:") + (rootB + (b"/" + rel if rel else b"")).hex(), repr(p)))
        # every file the history made is announced by BOTH backends under its exact name (the bytes the file system holds,
        # joined onto the root as given).  The two sets of created paths need not be equal beyond that: a polling walk that
        # races a directory rename legitimately reports the directory's files as deleted and, one poll later, as created
        # under the new name
        for backend in ("native", "polling"):
            got = {os.fsencode(p) for p in created[backend]}
            missing = sorted(rel for rel in made if (rootB + b"/" + rel) not in got and (rootB.rstrip(b"/") + b"/" + rel) not in got)
            if missing:
                return (f"{backend}: the created files {missing[:4]!r} were never announced under their exact names "
                        f"(root given as {full_kind}; created paths seen: {sorted(map(repr, created[backend]))[:6]})")
        return None
    finally:
        for o in observers:
            try:
                o.stop()
            except Exception:  # noqa: BLE001
                pass
        os.chdir(old_cwd)
        shutil.rmtree(base, ignore_errors=True)


def double_schedule(cls_name):
    """the same directory scheduled twice on one observer, as str and as bytes: each handler gets its own type"""
    from watchdog.observers.inotify import InotifyObserver
    from watchdog.observers.polling import PollingObserver

    base = os.path.realpath(tempfile.mkdtemp(prefix="wdverif-c19-", dir=os.environ.get("TMPDIR") or None))
    o = InotifyObserver() if cls_name == "native" else PollingObserver(timeout=0.04)
    try:
        rs, rb = Rec(), Rec()
        o.schedule(rs.handler, base, recursive=True)
        o.schedule(rb.handler, os.fsencode(base), recursive=True)
        o.start()
        time.sleep(0.15)
        fd = os.open(os.path.join(base, "f"), os.O_CREAT | os.O_WRONLY)
        os.close(fd)
        time.sleep(0.4)
        deadline = time.monotonic() + 10          # a loaded machine: wait until both handlers have heard of it
        while (not rs.events or not rb.events) and time.monotonic() < deadline:
            time.sleep(0.05)
        for r, want in ((rs, str), (rb, bytes)):
            if not r.events:
                return f"{cls_name}: the handler scheduled with a {want.__name__} path received nothing"
            for e in r.events:
                for p in (e.src_path, e.dest_path):
                    if p not in ("", b"") and type(p) is not want:
                        return (f"{cls_name}: the handler scheduled with a {want.__name__} path received {p!r} "
                                f"({type(p).__name__}) - same directory scheduled as str and as bytes on one observer")
        return None
    finally:
        o.stop()
        o.join(5)
        shutil.rmtree(base, ignore_errors=True)


def run(res, tier, lean, proof_breaks=(), build_log=""):
    res.cov["rule"] = ("every non-empty src/dest path of every event the real InotifyObserver and PollingObserver deliver for a fixed "
                       "history (create, nested create, directory rename with synthetic events, deep change after a rename, move, "
                       "delete, rmtree) over plain / non-NFC / undecodable names, root given as str, bytes, pathlib.Path, relative "
                       "str and relative bytes, and a root whose own name is not ASCII (str, relative str, bytes); distinct = (root spelling, backend, relative name, event class)")
    kinds = ["str", "bytes", "path", "relstr", "relbytes", "str+u", "relstr+u", "bytes+u", "bytes+s", "str+s", "relbytes+s"]
    lean_lines, meta = [], []
    for k in kinds:
        v = scenario(k, res, lean_lines, meta)
        res.bump("scenarios")
        if v:
            res.violation(f"C19 violated: {v}", {"root_spelling": k, "names": [n.hex() for n in NAMES]}, signature="c19-judge")
            break
    if not res.violations:
        for cls_name in ("native", "polling"):
            v = double_schedule(cls_name)
            res.count()
            if v:
                res.violation(f"C19 violated: {v}", {"scenario": "double schedule str+bytes", "backend": cls_name},
                              signature="c19-double-schedule")
                break
    outs = lean.run(lean_lines)
    bad = [(l, o, m) for l, o, m in zip(lean_lines, outs, meta) if o != m[2]]
    res.cov["traces_validated_against_impl"] = len(lean_lines)
    if lean_lines:
        res.sample({"request": lean_lines[0], "model": outs[0], "implementation": meta[0][2], "path": meta[0][3]})
        res.sample({"request": lean_lines[-1], "model": outs[-1], "implementation": meta[-1][2], "path": meta[-1][3]})
    if bad and not res.violations:
        l, o, m = bad[0]
        res.violation(f"event path differs from WD.PT: root spelling {m[0]}, backend {m[1]}, delivered {m[3]} = {m[2]}, model {o}",
                      {"request": l, "model": o, "implementation": m[2], "mismatches": len(bad)}, signature="c19-model")


def replay(res, path, lean):
    run(res, "quick", lean)
