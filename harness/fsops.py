"""Real-kernel helpers shared by the inotify pipeline checks: scratch universe (watched root W and an
outside directory O), file-system operations with the real syscalls' success guards, a recording
handler, and draining of the native observer through a sentinel (public API only)."""
from __future__ import annotations

import os
import shutil
import tempfile
import threading
import time


class Universe:
    """base/W = watched root, base/O = outside; paths in histories are relative to base ('W/a/b')"""

    def __init__(self, as_bytes=False, pin_inodes=False):
        # pin_inodes: keep an O_PATH descriptor on everything that is removed, so that the scratch file system never hands a
        # removed entry's inode number to a new entry (APFS / HFS+ never re-use one; tmpfs and ext4 do at once)
        self.pin_inodes = pin_inodes
        self._pins = []
        self._held = {}
        d = os.environ.get("TMPDIR") or None
        self.base = os.path.realpath(tempfile.mkdtemp(prefix="wdverif-fs-", dir=d))
        os.mkdir(os.path.join(self.base, "W"))
        os.mkdir(os.path.join(self.base, "O"))
        self.as_bytes = as_bytes

    def p(self, rel):
        return os.path.join(self.base, rel)

    @property
    def root(self):
        r = self.p("W")
        return os.fsencode(r) if self.as_bytes else r

    def rel(self, path):
        """event path -> path relative to base, as str ('' stays '')"""
        if path in ("", b""):
            return ""
        if isinstance(path, bytes):
            path = os.fsdecode(path)
        if path == self.base or path.startswith(self.base + "/"):
            return path[len(self.base) + 1:].rstrip("/")      # a root given with a trailing separator reports itself with it
        return "!" + path

    def tree(self, top="W"):
        """{relative path: 'f'|'d'} below top (top itself excluded)"""
        out = {}
        t = self.p(top)
        for root, dirs, files in os.walk(t):
            for d in dirs:
                out[os.path.relpath(os.path.join(root, d), self.base)] = "d"
            for f in files:
                out[os.path.relpath(os.path.join(root, f), self.base)] = "f"
        return out

    def rmtree_order(self, rel):
        """the order in which shutil.rmtree will remove the descendants of `rel` (directory listing order,
        depth first, a directory after its content)"""
        out = []

        def walk(path, relp):
            with os.scandir(path) as it:
                entries = list(it)
            for e in entries:
                r = relp + "/" + e.name
                if e.is_dir(follow_symlinks=False):
                    walk(e.path, r)
                out.append(r)

        if os.path.isdir(self.p(rel)):
            walk(self.p(rel), rel)
        return out

    def cleanup(self):
        for fd in self._pins + list(self._held.values()):
            try:
                os.close(fd)
            except OSError:
                pass
        self._pins = []
        self._held = {}
        shutil.rmtree(self.base, ignore_errors=True)

    def _pin(self, path, deep=False):
        if not self.pin_inodes or not os.path.lexists(path):
            return
        try:
            self._pins.append(os.open(path, os.O_PATH | os.O_NOFOLLOW))
        except OSError:
            pass
        if deep and os.path.isdir(path) and not os.path.islink(path):
            for root, dirs, files in os.walk(path):
                for n in dirs + files:
                    try:
                        self._pins.append(os.open(os.path.join(root, n), os.O_PATH | os.O_NOFOLLOW))
                    except OSError:
                        pass

    # ---- operations; each returns True if it was applicable (guards = the syscalls' own)
    def apply(self, op):
        k = op[0]
        try:
            if k == "create":
                fd = os.open(self.p(op[1]), os.O_CREAT | os.O_EXCL | os.O_WRONLY)
                os.close(fd)
            elif k == "write":
                if not os.path.isfile(self.p(op[1])):
                    return False
                with open(self.p(op[1]), "ab") as f:
                    f.write(b"x")
            elif k == "chmod":
                if not os.path.lexists(self.p(op[1])):
                    return False
                cur = os.stat(self.p(op[1])).st_mode & 0o777
                os.chmod(self.p(op[1]), 0o700 if cur != 0o700 else 0o755)
            elif k == "hold":
                # another process keeps the directory open (its cwd, an open descriptor): when it is removed the kernel
                # announces IN_DELETE at once but IN_DELETE_SELF / IN_IGNORED only once the holder lets go
                if op[1] in self._held or not os.path.isdir(self.p(op[1])):
                    return False
                self._held[op[1]] = os.open(self.p(op[1]), os.O_RDONLY | os.O_DIRECTORY)
            elif k == "release":
                if op[1] not in self._held:
                    return False
                os.close(self._held.pop(op[1]))
            elif k == "unlink":
                self._pin(self.p(op[1]))
                os.unlink(self.p(op[1]))
            elif k == "mkdir":
                os.mkdir(self.p(op[1]))
            elif k == "rmdir":
                self._pin(self.p(op[1]))
                os.rmdir(self.p(op[1]))
            elif k == "rmtree":
                if not os.path.isdir(self.p(op[1])) or os.path.islink(self.p(op[1])):
                    return False
                self._pin(self.p(op[1]), deep=True)
                shutil.rmtree(self.p(op[1]))
            elif k == "rename":
                src, dst = self.p(op[1]), self.p(op[2])
                if not os.path.lexists(src) or os.path.isdir(dst) and os.listdir(dst):
                    return False
                if os.path.lexists(dst) and os.path.isdir(src) != os.path.isdir(dst):
                    return False
                if dst == src or dst.startswith(src + "/"):
                    return False
                if not os.path.isdir(os.path.dirname(dst)):
                    return False
                self._pin(dst)          # an entry the rename replaces
                os.rename(src, dst)
            else:
                raise ValueError(op)
            return True
        except (FileExistsError, FileNotFoundError, NotADirectoryError, IsADirectoryError, OSError):
            return False


class Recorder:
    """FileSystemEventHandler recording every event (thread-safe list append)"""

    def __init__(self):
        from watchdog.events import FileSystemEventHandler

        rec = self

        class H(FileSystemEventHandler):
            def on_any_event(self, event):
                rec.events.append(event)
                if rec.sentinel and event.src_path in rec.sentinel and type(event).__name__ == "FileDeletedEvent":
                    rec._after_deleted = True
                    rec.drained.set()
                elif rec._after_deleted:
                    # the sentinel's deletion is followed by the DirModifiedEvent of the root: only then is the sentinel's
                    # own trail over (a caller woken by `drained` alone can start its next operation before this event is
                    # delivered and would count it as that operation's)
                    rec._after_deleted = False
                    rec.settled.set()

        self.events = []
        self.sentinel = ()
        self.drained = threading.Event()
        self.settled = threading.Event()
        self._after_deleted = False
        self.handler = H()

    def canon(self, uni, skip_sentinel=True):
        """[(class, src rel, dest rel, synthetic)] with the sentinel's own events removed"""
        out = []
        for e in self.events:
            s, d = uni.rel(e.src_path), uni.rel(e.dest_path)
            if skip_sentinel and ("__sentinel" in s or "__sentinel" in d):
                continue
            out.append((type(e).__name__, s, d, bool(e.is_synthetic)))
        return out


def drain(uni, rec, timeout=5.0):
    """create+delete a sentinel file in the root and wait until its deletion reached the handler:
    the pipeline is FIFO, so everything caused by earlier operations has been delivered too (an
    unmatched MOVED_FROM is held back by the pairing delay: callers wait that out separately)"""
    name = "__sentinel%d" % int(time.monotonic_ns() % 10**9)
    path = os.path.join(uni.p("W"), name)
    rec.sentinel = (path, os.fsencode(path))
    rec.drained.clear()
    rec.settled.clear()
    rec._after_deleted = False
    fd = os.open(path, os.O_CREAT | os.O_EXCL | os.O_WRONLY)
    os.close(fd)
    os.unlink(path)
    ok = rec.drained.wait(timeout)
    if ok:
        rec.settled.wait(0.5)       # the root's DirModifiedEvent that accompanies the deletion (absent under some filters)
    rec._after_deleted = False
    rec.sentinel = ()
    return ok


def collapse(seq):
    out = []
    for x in seq:
        if not out or out[-1] != x:
            out.append(x)
    return out


def full_sentinel(uni, rec, timeout=5.0):
    """a sentinel burst that yields, for EVERY concrete event class, at least one event whose path is
    tagged with the sentinel name (so that any filtered watch that accepts anything at all can be
    synchronised on its own last sentinel event); drains `rec` (an unfiltered recorder) on the final
    FileDeletedEvent.  Returns the tagged events `rec` received for this burst, in order."""
    tag = "__sentinel%d" % int(time.monotonic_ns() % 10**9)
    w = uni.p("W")
    f1, f2, d1, d2 = (os.path.join(w, tag + x) for x in ("_f", "_g", "_d", "_e"))
    start = len(rec.events)
    os.mkdir(d1)
    os.chmod(d1, 0o700)
    os.rename(d1, d2)
    os.rmdir(d2)
    fd = os.open(f1, os.O_CREAT | os.O_EXCL | os.O_WRONLY)
    os.write(fd, b"x")
    os.close(fd)
    fd = os.open(f1, os.O_RDONLY)
    os.close(fd)
    os.chmod(f1, 0o600)
    os.rename(f1, f2)
    rec.sentinel = (f2, os.fsencode(f2))
    rec.drained.clear()
    os.unlink(f2)
    ok = rec.drained.wait(timeout)
    rec.sentinel = ()
    if not ok:
        raise RuntimeError("drain timeout")
    return [e for e in rec.events[start:] if tag in (os.fsdecode(e.src_path) + os.fsdecode(e.dest_path))]


def wait_filtered(tagged, recs, filters, positions, timeout=5.0):
    """wait until each filtered recorder has received the last sentinel event its filter accepts"""
    deadline = time.monotonic() + timeout
    for k, (rc, f) in enumerate(zip(recs, filters)):
        fset = tuple(f)
        mine = [e for e in tagged if fset and isinstance(e, fset)]
        if not mine:
            continue
        last = mine[-1]
        while True:
            evs = rc.events
            if any(e == last for e in evs[positions[k]:]):
                positions[k] = len(evs)
                break
            if time.monotonic() > deadline:
                raise RuntimeError(f"filtered watch {[c.__name__ for c in f]} never received {last!r}")
            time.sleep(0.002)
