"""C17 correspondence: the real DelayedQueue under the deterministic scheduler against the Lean
transition system WD.DQ (same scripts, same schedule; enabled sets at every step, the observable
history and the final state must agree)."""
from __future__ import annotations

import itertools

import detsched

detsched.install()

import common  # noqa: E402
import explore  # noqa: E402

TICK = 0.125
DELAY_TICKS = 4
BASE = 1000.0


class Elem:
    """distinct objects with a value; == compares values, identity distinguishes"""

    def __init__(self, uid, val):
        self.uid, self.val = uid, val

    def __eq__(self, other):
        return isinstance(other, Elem) and self.val == other.val

    def __hash__(self):
        return hash(self.val)

    def __repr__(self):
        return f"E{self.uid}:{self.val}"


def ticks(clock):
    t = (clock - BASE) / TICK
    assert abs(t - round(t)) < 1e-9, clock
    return int(round(t))


def script_tokens(script):
    out = []
    for op in script:
        if op[0] == "put":
            out.append(f"p{op[1]}:{op[2]}:{int(op[3])}")
        elif op[0] == "get":
            out.append("g")
        elif op[0] == "remove":
            out.append(f"r{op[1]}")
        elif op[0] == "close":
            out.append("c")
        elif op[0] == "sleep":
            out.append(f"s{op[1]}")
    return out


def make_run(scripts):
    """returns run_one(chooser) -> (sched, result) executing `scripts` on a fresh real DelayedQueue"""
    from watchdog.utils.delayed_queue import DelayedQueue

    if not isinstance(DelayedQueue.__dict__.get("_closed"), detsched.Yielding):
        DelayedQueue._closed = detsched.Yielding("_closed", on=("set",))

    def run_one(chooser):
        import time
        sched = detsched.Scheduler(chooser, max_steps=2000)
        q = sched.create(lambda: DelayedQueue(DELAY_TICKS * TICK))
        hist = []
        elems = {}

        def body(tid, script):
            def fn():
                for op in script:
                    if op[0] == "put":
                        e = elems.setdefault(op[1], Elem(op[1], op[2]))
                        q.put(e, delay=op[3])
                        hist.append(f"put:{tid}:{op[1]}:{int(op[3])}@{ticks(time.time())}")
                    elif op[0] == "get":
                        x = q.get()
                        hist.append(f"gotNone:{tid}@{ticks(time.time())}" if x is None
                                    else f"got:{tid}:{x.uid}@{ticks(time.time())}")
                    elif op[0] == "remove":
                        v = op[1]
                        x = q.remove(lambda e: e.val == v)
                        hist.append(f"removedNone:{tid}@{ticks(time.time())}" if x is None
                                    else f"removed:{tid}:{x.uid}@{ticks(time.time())}")
                    elif op[0] == "close":
                        q.close()
                        hist.append(f"closed:{tid}@{ticks(time.time())}")
                    elif op[0] == "sleep":
                        time.sleep(op[1] * TICK)
            return fn

        failure = None
        try:
            sched.run_threads([body(i, s) for i, s in enumerate(scripts)], [str(i) for i in range(len(scripts))])
        except (detsched.Deadlock, detsched.StepLimit) as e:
            failure = e
        steps = " ".join(f"{ticks(clk)}:{','.join(en)}>{ch}" for _n, clk, en, ch, _l in sched.trace)
        alldone = failure is None and all(t.status == "done" for t in sched.order)
        qs = ",".join(str(x[0].uid) for x in q._queue)
        result = {
            "line": f"{steps} | {' '.join(hist)} | q=[{qs}] closed={int(q.__dict__['_detv__closed'])} "
                    f"done={int(alldone)} clock={ticks(sched.clock)}",
            "schedule": [int(t[3]) for t in sched.trace],
            "failure": failure,
            "uncaught": list(sched.uncaught),
            "hist": hist,
        }
        return sched, result

    return run_one


def request(scripts, schedule):
    toks = [f"dq {DELAY_TICKS} T {len(scripts)}"]
    for s in scripts:
        st = script_tokens(s)
        toks.append(str(len(st)))
        toks += st
    toks.append(f"S {len(schedule)}")
    toks += [str(x) for x in schedule]
    return " ".join(toks)


def scenarios(r, thorough):
    """(name, scripts) — one consumer, one producer, one remover/closer (the property's family)"""
    out = []
    gaps = [0, 3, 4, 5]
    # hand-picked shapes around the delay boundary
    for g in gaps:
        out.append((f"delayed-then-plain gap{g}", [
            [("get",), ("get",), ("get",)],
            [("put", 1, 7, True), ("sleep", g), ("put", 2, 8, False)],
            [("sleep", 2), ("close",)] if g == 0 else [("sleep", g + 5), ("close",)]]))
        out.append((f"remove-while-waiting gap{g}", [
            [("get",), ("get",)],
            [("put", 1, 7, True), ("sleep", g), ("put", 2, 7, True)],
            [("sleep", 1), ("remove", 7), ("sleep", 9), ("close",)]]))
    out.append(("close-races-first-get", [[("get",)], [("close",)]]))
    out.append(("close-then-get", [[("sleep", 1), ("get",), ("get",)], [("put", 1, 1, False), ("close",)]]))
    out.append(("equal-distinct-elements", [
        [("get",), ("get",)],
        [("put", 1, 5, True), ("put", 2, 5, True)],
        [("remove", 5), ("sleep", 6), ("close",)]]))
    out.append(("same-object-twice", [
        [("get",), ("get",), ("get",)],
        [("put", 1, 5, True), ("put", 1, 5, False), ("sleep", 5), ("close",)],
        [("remove", 5)]]))
    n = 60 if thorough else 14
    for i in range(n):
        uid = itertools.count(1)
        prod = []
        for _ in range(r.randint(1, 4)):
            prod.append(("put", next(uid), r.randint(1, 2), r.random() < 0.5))
            if r.random() < 0.6:
                prod.append(("sleep", r.choice(gaps)))
        other = []
        for _ in range(r.randint(1, 3)):
            k = r.random()
            if k < 0.4:
                other.append(("sleep", r.choice([1, 3, 4, 5])))
            elif k < 0.8:
                other.append(("remove", r.randint(1, 2)))
            else:
                other.append(("put", next(uid), r.randint(1, 2), r.random() < 0.5))
        other.append(("sleep", r.choice([0, 4, 9])))
        other.append(("close",))
        cons = [("get",)] * r.randint(1, 4)
        out.append((f"random{i}", [cons, prod, other]))
    return out


def run(res, tier, lean, proof_breaks=(), build_log=""):
    r = common.rng("c17")
    thorough = tier == "thorough"
    res.cov["rule"] = ("scripts for consumer / producer / remover-closer threads on the real DelayedQueue, virtual gaps around "
                       "the delay boundary; all schedules under a preemption bound by stateless DFS (bound 2 quick / 3 "
                       "thorough, capped) + seeded random schedules; each run replayed step by step in the Lean model "
                       "(enabled sets, history with virtual times, final queue); distinct = distinct (scenario, schedule), "
                       "non-trivial = at least one element handed out")
    bound = 3 if thorough else 2
    cap = 1500 if thorough else 250
    lines, impl, meta = [], [], []
    exhausted_all = True
    for name, scripts in scenarios(r, thorough):
        run_one = make_run(scripts)
        info = {}
        runs = list(explore.dfs(run_one, bound, cap, info))
        exhausted_all &= info.get("exhausted", False)
        runs += list(explore.random_runs(run_one, r, 40 if thorough else 10))
        for sched, result in runs:
            lines.append(request(scripts, result["schedule"]))
            impl.append(result["line"])
            meta.append((name, scripts, result))
            res.bump("runs_" + name.split(" ")[0].rstrip("0123456789"))
    outs = lean.run(lines)
    bad, judged_bad = [], []
    for line, o, i, (name, scripts, result) in zip(lines, outs, impl, meta):
        res.count()
        if any(h.startswith(("got:", "removed:")) for h in result["hist"]):
            res.nontrivial(line)
        if result["failure"] is not None or result["uncaught"]:
            judged_bad.append((line, i, o, name, scripts, f"{result['failure']!r} {result['uncaught']!r}"))
        else:
            v = judge(scripts, result["hist"])
            if v:
                judged_bad.append((line, i, o, name, scripts, v))
        if o != i:
            bad.append((line, i, o, name, scripts))
    res.cov["traces_validated_against_impl"] = len(lines)
    res.notes["dfs_exhausted_within_bound"] = exhausted_all
    res.notes["preemption_bound"] = bound
    res.sample({"request": lines[0], "implementation": impl[0], "model": outs[0]})
    res.sample({"request": lines[-1], "implementation": impl[-1], "model": outs[-1]})
    if judged_bad:
        judged_bad.sort(key=lambda b: len(b[0]))
        line, i, o, name, scripts, v = judged_bad[0]
        res.violation(f"DelayedQueue run violates the property: {v}",
                      {"scenario": name, "scripts": scripts, "request": line, "implementation": i, "model": o,
                       "violating_runs": len(judged_bad)}, signature="c17-judge")
    elif bad:
        bad.sort(key=lambda b: len(b[0]))
        line, i, o, name, scripts = bad[0]
        res.violation("correspondence WD.DQ <-> DelayedQueue broken (theorems C17.* no longer tied to the code); every "
                      "explored run was judged against the property's trace predicates and none failed",
                      {"correspondence": "harness/c17.py vs lean WD.DQ.step", "scenario": name, "scripts": scripts,
                       "request": line, "implementation": i, "model": o, "mismatching_runs": len(bad)},
                      no_input=True, signature="c17-model-mismatch")


def judge(scripts, hist):
    """the property as predicates over one observed history (independent of the model):
    FIFO, exactly-once (get xor remove), never early, nothing returned after removal, end marker
    after close; returns a description of the violated clause or None"""
    puts, t_put, delayed = [], {}, {}
    out = []
    removed = []
    closed_at = None
    for h in hist:
        kind, _, rest = h.partition(":")
        body, _, t = rest.partition("@")
        t = int(t)
        f = body.split(":")
        if kind == "put":
            uid = int(f[1])
            puts.append(uid)
            t_put.setdefault(uid, []).append(t)
            delayed.setdefault(uid, []).append(f[2] == "1")
        elif kind == "got":
            out.append((int(f[1]), t))
        elif kind == "removed":
            removed.append((int(f[1]), t))
        elif kind == "closed":
            closed_at = t
    handed = [u for u, _ in out] + [u for u, _ in removed]
    for u in set(handed):
        if handed.count(u) > puts.count(u):
            return f"element {u} handed out {handed.count(u)} times but put {puts.count(u)} times"
    # FIFO: gets in put order (per distinct uid sequence)
    got_seq = [u for u, _ in out]
    rem = [u for u, _ in removed]
    expect = list(puts)
    for u in rem:
        if u in expect:
            expect.remove(u)
    if got_seq != expect[:len(got_seq)] and len(set(puts)) == len(puts):
        return f"get() order {got_seq} is not the put order minus removed {expect}"
    for u, t in out:
        if len(t_put.get(u, [])) == 1 and delayed[u][0] and t < t_put[u][0] + DELAY_TICKS:
            return f"delayed element {u} put at {t_put[u][0]} returned at {t} (< delay {DELAY_TICKS})"
    return None


def replay(res, path, lean):
    run(res, "quick", lean)
