"""Schedule exploration on top of detsched: stateless DFS with a preemption bound, and seeded
random schedules.  `run_one(chooser) -> (sched, result)` is supplied by the component harness."""
from __future__ import annotations

import detsched


def prefix_chooser(prefix):
    """follow `prefix` (thread names); afterwards keep running the last thread while it is enabled,
    otherwise the first enabled one (non-preemptive continuation)"""
    state = {"i": 0, "last": None}

    def choose(s, en):
        i = state["i"]
        state["i"] += 1
        pick = None
        if i < len(prefix):
            pick = next((t for t in en if t.name == prefix[i]), None)
        if pick is None:
            pick = next((t for t in en if t.name == state["last"]), None) or en[0]
        state["last"] = pick.name
        return pick

    return choose


def preemptions(trace):
    n = 0
    last = None
    for _step, _clk, en, chosen, _label in trace:
        if last is not None and chosen != last and last in en:
            n += 1
        last = chosen
    return n


def dfs(run_one, bound, max_runs, info=None):
    """yields (sched, result) for every schedule with <= bound preemptions (up to max_runs runs);
    returns via StopIteration value whether the space was exhausted"""
    stack = [[]]
    seen = set()
    runs = 0
    exhausted = True
    while stack:
        if runs >= max_runs:
            exhausted = False
            break
        prefix = stack.pop()
        sched, result = run_one(prefix_chooser(prefix))
        runs += 1
        trace = sched.trace
        key = tuple(t[3] for t in trace)
        if key in seen:
            continue
        seen.add(key)
        yield sched, result
        chosen = [t[3] for t in trace]
        for i in range(len(prefix), len(trace)):
            en = trace[i][2]
            for alt in en:
                if alt == chosen[i]:
                    continue
                cand = chosen[:i] + [alt]
                # count preemptions of the candidate prefix
                p = 0
                last = None
                for j, name in enumerate(cand):
                    if last is not None and name != last and last in trace[j][2]:
                        p += 1
                    last = name
                if p <= bound:
                    stack.append(cand)
    if info is not None:
        info['exhausted'] = exhausted
        info['runs'] = runs
        info['distinct'] = len(seen)


def random_runs(run_one, rng, n, switch_prob=0.5):
    for _ in range(n):
        yield run_one(detsched.random_chooser(rng, switch_prob))


def park_chooser(victim, k):
    """thread `victim` runs ahead whenever it can until it has taken `k` steps, is then parked while any other thread can
    run, and resumes when nobody else can.  Finds the "one thread stalls at one line while the others complete a whole
    call" interleavings that random line-level preemption hits only with vanishing probability."""
    state = {"steps": 0, "last": None, "resumed": False}

    def choose(s, en):
        vic = next((t for t in en if t.name == victim), None)
        others = [t for t in en if t.name != victim]
        if vic is not None and state["steps"] < k:
            pick = vic
        elif not state["resumed"] and state["steps"] >= k and others:
            pick = next((t for t in others if t.name == state["last"]), None) or others[0]
        else:
            if state["steps"] >= k and vic is not None and not others:
                state["resumed"] = True
            pick = next((t for t in en if t.name == state["last"]), None) or en[0]
        if pick.name == victim:
            state["steps"] += 1
        state["last"] = pick.name
        return pick

    return choose


def park_runs(run_one, max_points=400, stride=1, victims=None):
    """one reference run to learn the thread names and how many steps each takes, then one run per (thread, parking
    point), the budget spread evenly over the threads and over each thread's steps"""
    sched, result = run_one(prefix_chooser([]))
    yield sched, result
    counts = {}
    for _step, _clk, _en, chosen, _label in sched.trace:
        counts[chosen] = counts.get(chosen, 0) + 1
    names = [n for n in counts if victims is None or any(n.startswith(v) for v in victims)]
    if not names:
        return
    per = max(1, max_points // len(names))
    for n in names:
        step = max(stride, -(-counts[n] // per))
        for k in range(1, counts[n] + 1, step):
            yield run_one(park_chooser(n, k))
