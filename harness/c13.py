"""C13 correspondence: sequential API call sequences on the real BaseObserver (scripted emitter
class with a construction/start failure injectable at every position) against WD.Reg.call and,
through the theorems, the reference map WD.Reg.specCall."""
from __future__ import annotations

import itertools

import detsched

detsched.install()

import common  # noqa: E402
import explore  # noqa: E402

# key ids 0..4: (path, recursive, event_filter); distinct keys = distinct watches
WATCHES = [("/p1", False, None), ("/p2", False, None), ("/p1", True, None), ("/p1", False, ()),
           ("/p1", False, ("FileModifiedEvent",))]


def wfilter(w):
    import watchdog.events as ev
    f = WATCHES[w][2]
    return None if f is None else [getattr(ev, n) for n in f]


def wid_of(watch):
    f = watch.event_filter
    key = None if f is None else tuple(sorted(c.__name__ for c in f))
    return WATCHES.index((watch.path, watch.is_recursive, key))


def build_env():
    from watchdog.events import FileSystemEventHandler
    from watchdog.observers.api import BaseObserver, EventEmitter

    class Injected(Exception):
        pass

    class Rec(FileSystemEventHandler):
        def __init__(self, hid):
            self.hid = hid
            self.seen = []

        def on_any_event(self, event):
            self.seen.append(event.src_path)

    class ScriptedEmitter(EventEmitter):
        plan = {"ctor": set(), "start": set()}    # watch ids whose emitter fails

        def __init__(self, event_queue, watch, *, timeout=1, event_filter=None):
            wid = wid_of(watch)
            if wid in ScriptedEmitter.plan["ctor"]:
                raise Injected("ctor")
            super().__init__(event_queue, watch, timeout=timeout, event_filter=event_filter)
            self.wid = wid

        def on_thread_start(self):
            if self.wid in ScriptedEmitter.plan["start"]:
                raise Injected("start")

        def queue_events(self, timeout):
            self.stopped_event.wait()

    return BaseObserver, ScriptedEmitter, Rec, Injected


def call_tokens(calls):
    out = []
    for c in calls:
        if c[0] == "schedule":
            out.append(f"sch:{c[1]}:{c[2]}:{c[3]}")
        elif c[0] == "unschedule":
            out.append(f"uns:{c[1]}")
        elif c[0] == "add":
            out.append(f"add:{c[1]}:{c[2]}")
        elif c[0] == "remove":
            out.append(f"rem:{c[1]}:{c[2]}")
        elif c[0] == "uall":
            out.append("uall")
        elif c[0] == "start":
            out.append(f"start:{'-' if c[1] is None else c[1]}")
        elif c[0] == "stop":
            out.append("stop")
    return out


def run_sequence(calls):
    """returns the canonical line of the real observer for this call sequence"""
    BaseObserver, ScriptedEmitter, Rec, Injected = build_env()
    from watchdog.events import FileModifiedEvent
    from watchdog.observers.api import EventQueue, ObservedWatch

    out = []
    handlers_final = {}
    alive = [False]

    def main():
        obs = BaseObserver(ScriptedEmitter, timeout=1)
        hs = [Rec(0), Rec(1)]

        import pathlib

        def spell(w, k):
            # the same watch is named by a str at even call positions and by a pathlib.Path at odd ones: `ObservedWatch`
            # normalises both to one path, so they are ONE watch (one emitter, one handler set)
            return pathlib.Path(WATCHES[w][0]) if k % 2 else WATCHES[w][0]

        def mkwatch(w, k=0):
            return ObservedWatch(spell(w, k), recursive=WATCHES[w][1], event_filter=wfilter(w))

        for k, c in enumerate(calls):
            ScriptedEmitter.plan = {"ctor": set(), "start": set()}
            try:
                if c[0] == "schedule":
                    if c[3] == "c":
                        ScriptedEmitter.plan["ctor"].add(c[2])
                    elif c[3] == "s":
                        ScriptedEmitter.plan["start"].add(c[2])
                    obs.schedule(hs[c[1]], spell(c[2], k), recursive=WATCHES[c[2]][1], event_filter=wfilter(c[2]))
                elif c[0] == "unschedule":
                    obs.unschedule(mkwatch(c[1], k))
                elif c[0] == "add":
                    obs.add_handler_for_watch(hs[c[1]], mkwatch(c[2], k))
                elif c[0] == "remove":
                    obs.remove_handler_for_watch(hs[c[1]], mkwatch(c[2], k))
                elif c[0] == "uall":
                    obs.unschedule_all()
                elif c[0] == "start":
                    if c[1] is not None:
                        ScriptedEmitter.plan["start"].add(c[1])
                    obs.start()
                elif c[0] == "stop":
                    obs.stop()
                    if obs.is_alive():
                        obs.join()
                res = "ok"
            except Injected as e:
                res = "raised:" + str(e)
            except KeyError:
                res = "raised:KeyError"
            except RuntimeError:
                res = "raised:RuntimeError"
            except Exception as e:  # noqa: BLE001 - whatever else the call raises is part of what is compared
                res = "raised:" + type(e).__name__
            ems = sorted(f"{e.wid}:{int(e.is_alive())}" for e in obs.emitters)
            out.append(res + "[" + ",".join(ems) + "]")
        # which handlers would receive an event of each watch: the public dispatch path on a private queue
        ScriptedEmitter.plan = {"ctor": set(), "start": set()}
        for w in range(len(WATCHES)):
            for h in hs:
                h.seen.clear()
            q = EventQueue()
            q.put((FileModifiedEvent(f"marker{w}"), mkwatch(w)))
            obs.dispatch_events(q)
            handlers_final[w] = sorted(str(h.hid) for h in hs if h.seen)
        alive[0] = obs.is_alive()
        # clean up whatever is still running; stop() never raises in the reference map
        try:
            obs.stop()
            if obs.is_alive():
                obs.join()
        except Exception as e:  # noqa: BLE001
            out.append("FINAL-STOP-RAISED:" + type(e).__name__)

    sched = detsched.Scheduler(explore.prefix_chooser([]), max_steps=5000)
    failure = None
    try:
        sched.run(main)
    except (detsched.Deadlock, detsched.StepLimit) as e:
        failure = e
    hsz = " ".join(f"{w}=[{','.join(handlers_final.get(w, ['?']))}]" for w in range(len(WATCHES)))
    line = " ".join(out) + " | " + hsz + f" alive={int(alive[0])}"
    if failure is not None or sched.uncaught:
        line += f" FAILURE={failure!r} UNCAUGHT={sched.uncaught!r}"
    return line


def all_calls():
    cs = []
    for h in (0, 1):
        for w in range(len(WATCHES)):
            for f in "ncs":
                cs.append(("schedule", h, w, f))
            cs.append(("add", h, w))
            cs.append(("remove", h, w))
    for w in range(len(WATCHES)):
        cs.append(("unschedule", w))
        cs.append(("start", w))
    cs += [("uall",), ("start", None), ("stop",)]
    return cs


def valid(seq):
    """the generator avoids start() after stop() and after a start() without an injected failure on the same observer
    object (a Python thread cannot be restarted; outside the property's scope).  A start() with an injected emitter failure
    may be followed by another start(): the retry after a failed start() (it must leave the emitters that are already running
    alone, D27) - or, when the named watch had no emitter and the first start() succeeded, a RuntimeError in model and code
    alike"""
    started = stopped = injected = False
    starts = 0
    for c in seq:
        if c[0] == "start" and (stopped or started or starts >= 3):
            return False
        if c[0] == "start":
            # `_emitters` is a set: which of the other emitters a failed start() had already started depends on its
            # iteration order, so whether a second injected failure strikes (the retry skips running emitters) is not
            # determined by the call sequence - the retry itself carries no injected failure
            if injected and c[1] is not None:
                return False
            starts += 1
            if c[1] is None:
                started = True
            else:
                injected = True
        if c[0] == "stop":
            stopped = True
    return True


def run(res, tier, lean, proof_breaks=(), build_log=""):
    r = common.rng("c13")
    thorough = tier == "thorough"
    res.cov["rule"] = ("API call sequences over 3 watches (2 paths, one also recursive) x 2 handlers on the real BaseObserver, "
                       "with an emitter construction or start failure injectable at every schedule()/start(); all sequences "
                       "up to length 3 over a reduced call alphabet exhaustively + random sequences up "
                       "to length 12; after every call the emitters (watch, alive) are compared, at the end which handlers "
                       "receive a marker event per watch; non-trivial = at least one successful schedule")
    small = [c for c in all_calls() if (c[0] != "schedule" or c[2] in (0, 3)) and (c[0] not in ("add", "remove") or c[2] == 0)
             and (c[0] not in ("unschedule", "start") or c[1] in (None, 0, 3))]
    seqs = []
    depth = 3
    for n in range(1, depth + 1):
        for seq in itertools.product(small, repeat=n):
            if valid(seq):
                seqs.append(list(seq))
    n_exh = len(seqs)
    allc = all_calls()
    for _ in range(4000 if thorough else 700):
        seq = [r.choice(allc) for _ in range(r.randint(3, 12))]
        if valid(seq):
            seqs.append(seq)
    lines, impl = [], []
    for seq in seqs:
        lines.append(f"reg {len(WATCHES)} " + " ".join(call_tokens(seq)))
        impl.append(run_sequence(seq))
    outs = lean.run(lines)
    bad = []

    def mask(text, seq):
        """after a start() that failed, which of the *other* emitters were started first depends on the
        iteration order of a Python set: their alive flags are not compared from that call on"""
        k = next((j for j, c in enumerate(seq) if c[0] == "start" and c[1] is not None), None)
        if k is None:
            return text
        head, _, tail = text.partition(" | ")
        parts = head.split(" ")
        import re as _re
        parts = [p if j < k else _re.sub(r":[01]", ":?", p) for j, p in enumerate(parts)]
        return " ".join(parts) + " | " + tail

    outs = [mask(o, seq) for o, seq in zip(outs, seqs)]
    impl = [mask(i, seq) for i, seq in zip(impl, seqs)]
    for line, o, i, seq in zip(lines, outs, impl, seqs):
        res.count()
        if any(c[0] == "schedule" and c[3] == "n" for c in seq):
            res.nontrivial(line)
        if any(c[0] == "schedule" and c[3] != "n" for c in seq) or any(c[0] == "start" and c[1] is not None for c in seq):
            res.bump("with_injected_failure")
        if o != i:
            bad.append((line, i, o, seq))
    res.notes["exhaustive_sequences"] = n_exh
    res.cov["exhaustive"] = True
    res.sample({"request": lines[n_exh - 1], "implementation": impl[n_exh - 1], "model": outs[n_exh - 1]})
    res.sample({"request": lines[-1], "implementation": impl[-1], "model": outs[-1]})
    if bad:
        bad.sort(key=lambda b: len(b[0]))
        groups = {}
        for b in bad:
            seq = b[3]
            failed_sched = any(c[0] == "schedule" and c[3] != "n" for c in seq)
            sig = "c13-failed-schedule-leaves-handler" if failed_sched and b[1].split(" | ")[0] == b[2].split(" | ")[0] \
                else "c13-registry-mismatch"
            groups.setdefault(sig, []).append(b)
        for sig, bs in groups.items():
            line, i, o, seq = bs[0]
            res.violation(f"observer registry deviates from the reference map ({sig}): implementation {i!r} expected {o!r}",
                          {"calls": seq, "request": line, "implementation": i, "model": o, "mismatching_sequences": len(bs)},
                          signature=sig)


    # concurrent callers: client programs on the real observer under the deterministic scheduler (shared with C04-C06),
    # judged by "never two emitters for one watch"
    import obs_check
    obs_check.run(res, tier, lean, prop="C13", proof_breaks=proof_breaks, build_log=build_log)


def replay(res, path, lean):
    run(res, "quick", lean)
