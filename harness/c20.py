"""C20 correspondence.
(a) decoders: the real `Inotify._parse_event_buffer` (in process) and the real
`winapi._parse_event_buffer` (in a child process behind import shims) against WD.Dec.decodeIno /
decodeWin on encoded buffers — all record sequences of a small scope + random buffers — and as a
round trip against the harness's own encoder;
(b) the Windows and FSEvents emitters' `queue_events` (child processes behind import shims) fed with
the native batches that the Lean documented-semantics simulators render for real operation histories
on a scratch directory, compared event for event with the Lean emitter models and judged by C01's
replay predicate (harness/c20_translation.py)."""
from __future__ import annotations

import itertools
import json
import os
import struct
import subprocess
import sys

import common


def ino_encode(recs):
    out = b""
    for wd, mask, cookie, name, pad in recs:
        body = name + b"\0" * pad
        out += struct.pack("iIII", wd, mask, cookie, len(body)) + body
    return out


def win_encode(recs):
    out = b""
    for k, (action, name, pad) in enumerate(recs):
        nb = name.encode("utf-16-le", "surrogatepass")
        last = k == len(recs) - 1
        nxt = 0 if last else 12 + len(nb) + pad
        out += struct.pack("<III", nxt, action, len(nb)) + nb + b"\0" * pad
    return out


def ino_cases(r, thorough):
    names = [b"", b"a", b"ab", b"x" * 15, b"y" * 16, b"\xff\xfe", b"n\xc3\xa9"]
    pads = [0, 1, 2, 15, 16]
    cases = []
    recs1 = [(wd, mask, ck, n, p) for wd in (1, -1, 2 ** 31 - 1) for mask in (0x100, 0x40000100, 0x8000)
             for ck in (0, 77) for n in names for p in pads if not (n == b"" and p % 16)]
    for rc in recs1:
        cases.append([rc])
    for a, b in itertools.product(recs1[::7], recs1[::11]):
        cases.append([a, b])
    for _ in range(4000 if thorough else 800):
        k = r.randint(1, 6)
        cases.append([(r.choice([1, 2, 3, 70000, -1]), r.getrandbits(32), r.getrandbits(32),
                       bytes(r.choice(b"abcxyz\xc3\xa9/") for _ in range(r.randint(0, 20))), r.choice(pads)) for _ in range(k)])
    return cases


def win_cases(r, thorough):
    names = ["a", "ab", "é", "﻿x", "x﻿", "￾", "\U0001f600", "dir\\sub\\f.txt", ""]
    pads = [0, 2, 4]
    cases = []
    recs1 = [(a, n, p) for a in (1, 2, 3, 4, 5, 0xFFFF) for n in names for p in pads]
    for rc in recs1:
        cases.append([rc])
    for a, b in itertools.product(recs1[::5], recs1[::7]):
        cases.append([a, b])
    for _ in range(2000 if thorough else 400):
        k = r.randint(1, 5)
        cases.append([(r.randint(1, 5), "".join(r.choice("abé﻿z\\.") for _ in range(r.randint(0, 9))), r.choice(pads))
                      for _ in range(k)])
    return cases


def run_decoders(res, lean, r, thorough):
    common.use_repo()
    from watchdog.observers.inotify_c import Inotify

    bad = []
    # inotify
    cases = ino_cases(r, thorough)
    lines, impl, exp = [], [], []
    for recs in cases:
        buf = ino_encode(recs)
        out = list(Inotify._parse_event_buffer(buf))
        lines.append("inodec " + (buf.hex() or "-"))
        impl.append(" ".join(f"{wd}:{mask}:{ck}:{name.hex() or '-'}" for wd, mask, ck, name in out) or "EMPTY")
        exp.append(" ".join(f"{wd}:{mask}:{ck}:{name.hex() or '-'}" for wd, mask, ck, name, _p in recs) or "EMPTY")
    # truncated / malformed stream: the decoder must stop at an incomplete header like the model does
    for _ in range(300 if thorough else 60):
        buf = bytes(r.getrandbits(8) for _ in range(r.randint(0, 15))) if r.random() < 0.3 else \
            ino_encode(r.choice(cases)) + bytes(r.getrandbits(8) for _ in range(r.randint(1, 15)))
        if len(buf) >= 16:
            # keep the declared length of every complete record inside the buffer: append only a short tail
            pass
        out = list(Inotify._parse_event_buffer(buf))
        lines.append("inodec " + (buf.hex() or "-"))
        impl.append(" ".join(f"{wd}:{mask}:{ck}:{name.hex() or '-'}" for wd, mask, ck, name in out) or "EMPTY")
        exp.append(None)

    def signed_wd(o):
        # the model keeps `wd` as the unsigned 32-bit value of the field; the C struct's `int wd` is its two's-complement
        # reading (the queue-overflow record has wd = -1, which `read_events` tests for)
        if o in ("EMPTY", "bad-op"):
            return o
        toks = []
        for tok in o.split(" "):
            f = tok.split(":")
            u = int(f[0])
            toks.append(":".join([str(u - 2 ** 32 if u >= 2 ** 31 else u)] + f[1:]))
        return " ".join(toks)

    outs = [signed_wd(o) for o in lean.run(lines)]
    for line, o, i, e in zip(lines, outs, impl, exp):
        res.count()
        res.bump("inotify_buffers")
        if e is not None and i != e:
            bad.append(("inotify-roundtrip", line, i, e))
        elif o != i:
            bad.append(("inotify-model", line, i, o))
        if e is not None and " " in i:
            res.nontrivial(line)
    res.sample({"request": lines[3], "implementation": impl[3], "model": outs[3]})
    # windows (child process behind shims)
    wcases = win_cases(r, thorough)
    wlines, wexp, feed = [], [], []
    for recs in wcases:
        buf = win_encode(recs)
        wlines.append(f"windec {len(buf)} {buf.hex() or '-'}")
        feed.append(f"{len(buf)} {buf.hex() or '-'}")
        wexp.append(" ".join(f"{a}:{n.encode('utf-16-le', 'surrogatepass').hex() or '-'}" for a, n, _p in recs) or "EMPTY")
    child = os.path.join(os.path.dirname(os.path.abspath(__file__)), "shims", "win_child.py")
    p = subprocess.run([sys.executable, child, os.path.join(common.REPO, "src")], input="\n".join(feed) + "\n",
                       capture_output=True, text=True, timeout=300)
    wimpl = p.stdout.split("\n")[:len(feed)]
    if p.returncode != 0 or len(wimpl) != len(feed):
        raise RuntimeError(f"windows decoder child failed rc={p.returncode}: {p.stderr[-800:]}")
    wouts = lean.run(wlines)
    for line, o, i, e in zip(wlines, wouts, wimpl, wexp):
        res.count()
        res.bump("windows_buffers")
        if i != e:
            bad.append(("windows-roundtrip", line, i, e))
        elif o != i:
            bad.append(("windows-model", line, i, o))
        if " " in i:
            res.nontrivial(line)
    res.sample({"request": wlines[3], "implementation": wimpl[3], "model": wouts[3]})
    return bad


def run(res, tier, lean, proof_breaks=(), build_log=""):
    r = common.rng("c20")
    thorough = tier == "thorough"
    res.cov["rule"] = ("(a) both buffer decoders on encoded buffers: every single record over a grid of wd/mask/cookie/name/padding "
                       "values, pairs of records, random sequences, truncated tails — real decoder vs the encoder's input "
                       "(round trip) and vs the Lean decoder; (b) Windows / FSEvents emitters through import shims on native "
                       "batches from documented-semantics simulators; non-trivial = more than one record / an event delivered")
    bad = run_decoders(res, lean, r, thorough)
    import c20_translation
    try:
        tbad = c20_translation.translation_runs(res, lean, r, thorough)
    except c20_translation.Divergence as e:
        raise RuntimeError(f"scratch file system and WD.Pipe.FS disagree (harness/model fault, not a verdict): {e}")
    if bad:
        kinds = {}
        for b in bad:
            kinds.setdefault(b[0], []).append(b)
        for kind, bs in kinds.items():
            _k, line, i, e = min(bs, key=lambda b: len(b[1]))
            if kind.endswith("roundtrip"):
                res.violation(f"{kind.split('-')[0]} buffer decoder does not return the records that were encoded: got {i!r}, "
                              f"encoded {e!r}", {"request": line, "decoded": i, "encoded": e, "failing_buffers": len(bs)},
                              signature="c20-" + kind)
            else:
                res.violation(f"correspondence WD.Dec <-> {kind.split('-')[0]} decoder broken on a buffer outside the round-trip "
                              f"domain (truncated / malformed): implementation {i!r}, model {e!r}",
                              {"request": line, "implementation": i, "model": e, "failing_buffers": len(bs)}, no_input=True,
                              signature="c20-" + kind)
    # translation layers: concrete failures (exception, stop flag, replay, depth) first; a broken tie between a model
    # and its emitter is reported as such only when no concrete failure of that layer was found
    by_sig = {}
    for v in tbad:
        cur = by_sig.get(v["signature"])
        if cur is None or len(json.dumps(v["replay"], default=repr)) < len(json.dumps(cur["replay"], default=repr)):
            by_sig[v["signature"]] = v
    known_sigs = {k.get("signature") for k in common.load_known()}
    concrete_layers = {v["signature"].split("-")[1] for v in by_sig.values() if not v.get("tie") and v["signature"] not in known_sigs}
    for sig, v in sorted(by_sig.items()):
        if v.get("tie"):
            if sig.split("-")[1] in concrete_layers:
                continue
            res.violation(v["what"], v["replay"], no_input=True, signature=sig)
        else:
            res.violation(v["what"], v["replay"], signature=sig)


def replay(res, path, lean):
    run(res, "quick", lean)
