#!/bin/bash
# usage: seed_verify.sh <PROP> <mutant-dir> <name> [base-commit]  — confirm a seeded change in a scratch worktree of /repo
# (default base: /repo's HEAD), then store it under /verif/seeded/<name>/ (patch.diff, demo, meta.json). Removes the worktree afterwards.
prop=$1; mdir=$2; name=$3; base=${4:-$(git -C /repo rev-parse --short HEAD)}
wt=/tmp/seedv/$name
rm -rf "$wt"; mkdir -p /tmp/seedv
git -C /repo worktree add -q --detach "$wt" "$base" || exit 2
demo=$(ls "$mdir"/demo*.py | head -1)
cd "$wt"
export PYTHONPATH="$wt/src"
clean_rc=$(timeout 300 /venv/bin/python "$demo" >/dev/null 2>&1; echo $?)
if ! git apply "$mdir/patch.diff" 2>/dev/null; then
  if ! git apply --3way "$mdir/patch.diff" 2>/dev/null; then
    echo "$name: patch does not apply to $base"; cd /; git -C /repo worktree remove --force "$wt"; exit 3
  fi
  git reset -q
fi
git diff > /tmp/seedv/$name.rebased.diff
mut_rc=$(timeout 300 /venv/bin/python "$demo" >/dev/null 2>&1; echo $?)
suite=$(timeout 1200 /venv/bin/python -m pytest -q -p no:cacheprovider --timeout=900 tests 2>&1 | tail -1)
cd /
git -C /repo worktree remove --force "$wt"
ok=0
case "$suite" in *" passed"*) case "$suite" in *failed*|*error*) ;; *) ok=1;; esac;; esac
echo "$name: demo clean rc=$clean_rc mutated rc=$mut_rc suite='$suite'"
if [ "$clean_rc" = "0" ] && [ "$mut_rc" != "0" ] && [ "$ok" = "1" ]; then
  out=/verif/seeded/$name
  mkdir -p "$out"
  cp /tmp/seedv/$name.rebased.diff "$out/patch.diff"
  cp "$demo" "$out/$(basename "$demo")"
  [ -f "$mdir/notes.md" ] && cp "$mdir/notes.md" "$out/notes.md"
  python3 - "$prop" "$name" "$clean_rc" "$mut_rc" "$suite" "$base" <<'PY'
import json,sys,os
prop,name,c,m,suite,base=sys.argv[1:7]
notes=open(f"/verif/seeded/{name}/notes.md").read() if os.path.exists(f"/verif/seeded/{name}/notes.md") else ""
json.dump({"property":prop,"name":name,"base_commit":base,
 "needs_to_manifest":notes[:1500],
 "confirmed":{"demo_on_clean_tree_rc":int(c),"demo_with_change_rc":int(m),"test_suite_with_change":suite,
              "how":"harness/seed_verify.sh in a scratch worktree of /repo at base_commit (removed afterwards)"}},
 open(f"/verif/seeded/{name}/meta.json","w"),indent=1)
PY
  echo "$name: KEPT"
else
  echo "$name: REJECTED"
fi
rm -f /tmp/seedv/$name.rebased.diff
