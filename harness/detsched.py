"""Deterministic thread scheduler for running the *unmodified* watchdog classes under a chosen
interleaving on a virtual clock (DESIGN §2.3).

Usage (before importing watchdog):
    import detsched; detsched.install()
    sched = detsched.Scheduler(chooser)
    result = sched.run(main_fn)          # main_fn runs as managed thread "main"

Every Lock / RLock / Condition / Event / Semaphore created by a managed thread while a scheduler is
active is a deterministic one (except when the creating frame belongs to `threading` itself or to
`logging`); `Thread.start/join/is_alive`, `time.time/monotonic/sleep` are virtualised.  Exactly one
managed thread runs at a time (baton passing over real semaphores).  A thread reaches the scheduler
only at *visible operations*: lock acquire, condition wait, event wait, sleep, join, thread start,
explicit `yield_point(label)` (used by data descriptors on unlocked shared fields).
At each such point the scheduler computes the set of enabled threads and asks the chooser.
When nothing is enabled but timers are pending, the clock jumps to the earliest deadline; when
nothing is enabled and no timer is pending, the run is a DEADLOCK (raised in the controller).
"""
from __future__ import annotations

import sys
import threading as _th
import time as _time

_real = {
    "Lock": _th.Lock, "RLock": _th.RLock, "Condition": _th.Condition, "Event": _th.Event,
    "Semaphore": _th.Semaphore, "start": _th.Thread.start, "join": _th.Thread.join,
    "is_alive": _th.Thread.is_alive, "time": _time.time, "monotonic": _time.monotonic, "sleep": _time.sleep,
    "get_ident": _th.get_ident,
}
_current: "Scheduler | None" = None
_installed = False



def _q(t):
    """deadlines are quantised to the microsecond: waits of 0.1 s and sleeps of 0.125 s that should end at the same
    virtual instant do (binary floating point would keep them apart by 1e-13 and hide every race between them)"""
    return round(t, 6)

class Deadlock(Exception):
    pass


class StepLimit(Exception):
    pass


class Killed(BaseException):
    """raised inside managed threads to unwind them when a run is abandoned"""


class TState:
    def __init__(self, name, real_thread=None):
        self.name = name
        self.baton = _real["Semaphore"](0)
        self.status = "new"        # new | ready | blocked | done
        self.waiting = None        # description of what it is blocked on: (kind, obj, deadline)
        self.label = "start"
        self.real = real_thread
        self.notified = False
        self.exc = None


class Scheduler:
    def __init__(self, chooser, max_steps=20000, trace_enabled=True, line_preempt=False):
        self.chooser = chooser
        self.line_preempt = line_preempt   # every source line of watchdog/* is a scheduling point (search mode)
        self.threads: dict[int, TState] = {}   # real ident -> TState
        self.by_name: dict[str, TState] = {}
        self.order: list[TState] = []
        self.clock = 1000.0
        self.steps = 0
        self.max_steps = max_steps
        self.trace: list[tuple] = []           # (step, clock, enabled names, chosen name, label)
        self.trace_enabled = trace_enabled
        self.dead = False
        self.failure = None
        self.names: dict[int, str] = {}        # id(obj) -> role name
        self.uncaught: list[tuple[str, BaseException]] = []
        self.done_sem = _real["Semaphore"](0)
        self.name_counter: dict[str, int] = {}
        self.stuck: list[str] = []
        self.stuck_labels: dict[str, str] = {}

    def _tracer(self, frame, event, arg):
        """sys.settrace hook of managed threads in line-preemption mode"""
        if "/watchdog/" not in frame.f_code.co_filename:
            return None

        def local(frame, event, arg):
            if event == "line" and not self.dead and self.me() is not None:
                self.yield_point(f"line {frame.f_code.co_name}:{frame.f_lineno}")
            return local

        return local

    def _install_trace(self):
        if self.line_preempt:
            sys.settrace(self._tracer)

    # ----- naming
    def name(self, obj, role):
        self.names[id(obj)] = role
        return obj

    def role(self, obj):
        return self.names.get(id(obj), type(obj).__name__)

    # ----- thread bookkeeping
    def me(self) -> TState | None:
        return self.threads.get(_real["get_ident"]())

    def fresh_name(self, base):
        n = self.name_counter.get(base, 0)
        self.name_counter[base] = n + 1
        return base if n == 0 else f"{base}#{n}"

    def enabled(self):
        out = []
        for t in self.order:
            if t.status == "ready":
                out.append(t)
            elif t.status == "blocked" and self._can_wake(t):
                out.append(t)
        return out

    def _can_wake(self, t: TState) -> bool:
        kind, obj, deadline = t.waiting
        if kind == "lock":
            return obj._free_for(t)
        if kind == "cond":       # waiting for notify (or timeout) AND able to re-take the lock
            return (t.notified or (deadline is not None and self.clock >= deadline)) and obj._lock._free_for(t)
        if kind == "event":
            return obj._flag or (deadline is not None and self.clock >= deadline)
        if kind == "sleep":
            return self.clock >= deadline
        if kind == "join":
            return obj.status == "done" or (deadline is not None and self.clock >= deadline)
        if kind == "pred":       # generic: obj() says whether the thread may continue
            return bool(obj()) or (deadline is not None and self.clock >= deadline)
        if kind == "sem":
            return obj._value > 0 or (deadline is not None and self.clock >= deadline)
        return False

    def _deadlines(self):
        ds = []
        for t in self.order:
            if t.status == "blocked" and t.waiting[2] is not None:
                ds.append(t.waiting[2])
        return ds

    def switch(self, me: TState):
        """called by the running thread `me` after it has recorded its own status; picks the next
        thread to run, hands it the baton and waits for its own."""
        if self.dead:
            raise Killed()
        while True:
            en = self.enabled()
            if en:
                break
            ds = self._deadlines()
            if not ds:
                # deadlock: nobody can run, no timer
                self.failure = Deadlock("all threads blocked, none timed: " + ", ".join(
                    f"{t.name}:{t.label}" for t in self.order if t.status != "done"))
                self._abort()
                raise Killed()
            self.clock = max(self.clock, min(ds))
        self.steps += 1
        if self.steps > self.max_steps:
            self.failure = StepLimit(f"more than {self.max_steps} scheduling steps")
            self._abort()
            raise Killed()
        nxt = self.chooser(self, en)
        if self.trace_enabled:
            self.trace.append((self.steps, round(self.clock, 6), tuple(t.name for t in en), nxt.name, nxt.label))
        if nxt is not me:
            nxt.baton.release()
            me.baton.acquire()
            if self.dead:
                raise Killed()

    def _abort(self):
        self.stuck = [t.name for t in self.order if t.status != "done"]
        self.stuck_labels = {t.name: t.label for t in self.order if t.status != "done"}
        self.dead = True
        for t in self.order:
            if t.status != "done":
                t.baton.release()
        self.done_sem.release()

    def block(self, kind, obj, deadline=None, label=""):
        """the running thread blocks on (kind,obj) and yields; returns when chosen again"""
        me = self.me()
        me.status = "blocked"
        me.waiting = (kind, obj, deadline)
        me.label = label or kind
        self.switch(me)
        me.status = "ready"
        me.waiting = None

    def yield_point(self, label):
        """a visible operation that cannot block: stay ready, let the scheduler choose"""
        me = self.me()
        if me is None:
            return
        me.label = label
        self.switch(me)

    # ----- running
    def run(self, fn, *args):
        """run fn as managed thread 'main' and every managed thread it starts; returns fn's result.
        Raises Deadlock / StepLimit if the run failed that way."""
        global _current
        assert _installed, "detsched.install() first"
        result = {}
        prev = _current
        _current = self

        def body():
            ts = TState("main")
            ts.status = "ready"
            self.threads[_real["get_ident"]()] = ts
            self.by_name["main"] = ts
            self.order.append(ts)
            self._install_trace()
            try:
                result["value"] = fn(*args)
            except Killed:
                pass
            except BaseException as e:  # noqa: BLE001
                result["exc"] = e
            finally:
                ts.status = "done"
                self._thread_finished(ts)

        real = _th.Thread(target=body, name="detsched-main", daemon=True)
        _real["start"](real)
        # controller waits until every managed thread is done or the run was aborted
        self.done_sem.acquire()
        _current = prev
        if self.failure:
            raise self.failure
        if "exc" in result:
            raise result["exc"]
        return result.get("value")

    def create(self, fn):
        """run fn() on the calling (controller) thread with deterministic primitives being created,
        e.g. to construct the shared object under test before the threads start"""
        global _current
        prev = _current
        _current = self
        ident = _real["get_ident"]()
        self.threads[ident] = TState("creator")
        try:
            return fn()
        finally:
            del self.threads[ident]
            _current = prev

    def run_threads(self, fns, names=None):
        """run the given functions as managed threads t0,t1,... (no managed main thread); every thread
        starts 'ready' at label 'begin'; returns the list of results (exceptions are re-raised)."""
        global _current
        assert _installed, "detsched.install() first"
        prev = _current
        _current = self
        results = [None] * len(fns)
        excs = []
        names = names or [f"t{i}" for i in range(len(fns))]
        reals = []
        for i, fn in enumerate(fns):
            ts = TState(names[i])
            ts.status = "ready"
            ts.label = "begin"
            self.order.append(ts)
            self.by_name[ts.name] = ts

            def body(i=i, fn=fn, ts=ts):
                self.threads[_real["get_ident"]()] = ts
                ts.baton.acquire()
                self._install_trace()
                try:
                    if not self.dead:
                        results[i] = fn()
                except Killed:
                    pass
                except BaseException as e:  # noqa: BLE001
                    excs.append((ts.name, e))
                    self.uncaught.append((ts.name, e))
                finally:
                    ts.status = "done"
                    self._thread_finished(ts)

            real = _th.Thread(target=body, name="detsched-" + names[i], daemon=True)
            ts.real = real
            reals.append(real)
        for real in reals:
            _real["start"](real)
        # first scheduling decision is taken by the controller
        en = self.enabled()
        self.steps += 1
        nxt = self.chooser(self, en)
        if self.trace_enabled:
            self.trace.append((self.steps, round(self.clock, 6), tuple(t.name for t in en), nxt.name, nxt.label))
        nxt.baton.release()
        self.done_sem.acquire()
        _current = prev
        if self.failure:
            raise self.failure
        return results

    def _thread_finished(self, ts: TState):
        """called by a managed thread as its very last action"""
        if self.dead:
            return
        alive = [t for t in self.order if t.status != "done"]
        if not alive:
            self.done_sem.release()
            return
        # hand the baton on without waiting for it again
        while True:
            en = self.enabled()
            if en:
                break
            ds = self._deadlines()
            if not ds:
                self.failure = Deadlock("all remaining threads blocked, none timed: " + ", ".join(
                    f"{t.name}:{t.label}" for t in alive))
                self._abort()
                return
            self.clock = max(self.clock, min(ds))
        self.steps += 1
        nxt = self.chooser(self, en)
        if self.trace_enabled:
            self.trace.append((self.steps, round(self.clock, 6), tuple(t.name for t in en), nxt.name, nxt.label))
        nxt.baton.release()


def cur() -> Scheduler | None:
    s = _current
    if s is None or s.dead:
        return None
    if s.me() is None:
        return None
    return s


def _det_wanted() -> Scheduler | None:
    """deterministic primitive iff a scheduler is active, the creating thread is managed and the
    creating frame is not inside `threading`/`logging` internals"""
    s = _current
    if s is None or s.me() is None:
        return None
    f = sys._getframe(2)
    mod = f.f_globals.get("__name__", "")
    if mod in ("threading", "logging", "detsched") or mod.startswith("logging."):
        return None
    return s


# ------------------------------------------------------------------ primitives

class DetLock:
    def __init__(self, sched, noyield=False):
        self.s = sched
        self._owner = None
        self.noyield = noyield   # acquire is not a visible operation (used for queue.Queue's mutex when the
                                 # queue is abstracted as atomic; sound because it is never held across a yield)

    def _free_for(self, t):
        return self._owner is None

    def acquire(self, blocking=True, timeout=-1):
        s = self.s
        me = s.me()
        if me is None or s.dead:
            return True
        if not blocking:
            s.yield_point(f"tryacquire {s.role(self)}")
            if self._owner is None:
                self._owner = me
                return True
            return False
        if self.noyield and self._owner is None:
            self._owner = me
            return True
        deadline = None if timeout is None or timeout < 0 else _q(s.clock + timeout)
        s.block("lock", self, deadline, f"acquire {s.role(self)}")
        if self._owner is not None:
            return False  # timed out
        self._owner = me
        return True

    def release(self):
        if self.s.dead:
            return
        if self._owner is None:
            raise RuntimeError("release unlocked lock")
        self._owner = None

    def locked(self):
        return self._owner is not None

    __enter__ = acquire

    def __exit__(self, *a):
        self.release()

    # Condition support
    def _release_save(self):
        self._owner = None
        return None

    def _acquire_restore(self, _st):
        self._owner = self.s.me()   # the scheduler only wakes a waiter when the lock is free

    def _is_owned(self):
        return self._owner is self.s.me()


class DetRLock:
    def __init__(self, sched):
        self.s = sched
        self._owner = None
        self._count = 0

    def _free_for(self, t):
        return self._owner is None or self._owner is t

    def acquire(self, blocking=True, timeout=-1):
        s = self.s
        me = s.me()
        if me is None or s.dead:
            return True
        if self._owner is me:
            self._count += 1
            return True
        if not blocking:
            s.yield_point(f"tryacquire {s.role(self)}")
            if self._owner is None:
                self._owner, self._count = me, 1
                return True
            return False
        deadline = None if timeout is None or timeout < 0 else _q(s.clock + timeout)
        s.block("lock", self, deadline, f"acquire {s.role(self)}")
        if self._owner is not None and self._owner is not me:
            return False
        self._owner, self._count = me, 1
        return True

    def release(self):
        if self.s.dead:
            return
        if self._owner is not self.s.me():
            raise RuntimeError("cannot release un-acquired lock")
        self._count -= 1
        if self._count == 0:
            self._owner = None

    __enter__ = acquire

    def __exit__(self, *a):
        self.release()

    def _release_save(self):
        st = (self._owner, self._count)
        self._owner, self._count = None, 0
        return st

    def _acquire_restore(self, st):
        self._owner, self._count = st

    def _is_owned(self):
        return self._owner is self.s.me()


class DetCondition:
    def __init__(self, sched, lock=None):
        self.s = sched
        self._lock = lock if lock is not None else DetRLock(sched)
        self._waiters: list[TState] = []
        self.acquire = self._lock.acquire
        self.release = self._lock.release

    def __enter__(self):
        return self._lock.__enter__()

    def __exit__(self, *a):
        return self._lock.__exit__(*a)

    def wait(self, timeout=None):
        s = self.s
        me = s.me()
        if me is None or s.dead:
            return True
        if not self._lock._is_owned():
            raise RuntimeError("cannot wait on un-acquired lock")
        st = self._lock._release_save()
        me.notified = False
        self._waiters.append(me)
        deadline = None if timeout is None else _q(s.clock + max(timeout, 0))
        try:
            s.block("cond", self, deadline, f"wait {s.role(self)}")
            got = me.notified
            if me in self._waiters:
                self._waiters.remove(me)
        finally:
            if not s.dead:
                self._lock._acquire_restore(st)
        return got

    def wait_for(self, predicate, timeout=None):
        s = self.s
        endtime = None
        result = predicate()
        while not result:
            wt = None
            if timeout is not None:
                if endtime is None:
                    endtime = _q(s.clock + timeout)
                wt = endtime - s.clock
                if wt <= 0:
                    break
            self.wait(wt)
            result = predicate()
        return result

    def notify(self, n=1):
        if self.s.dead:
            return
        if not self._lock._is_owned():
            raise RuntimeError("cannot notify on un-acquired lock")
        for t in self._waiters[:n]:
            t.notified = True
        del self._waiters[:n]

    def notify_all(self):
        self.notify(len(self._waiters))

    notifyAll = notify_all


class DetEvent:
    def __init__(self, sched):
        self.s = sched
        self._flag = False

    def is_set(self):
        return self._flag

    isSet = is_set

    def set(self):
        self._flag = True

    def clear(self):
        self._flag = False

    def wait(self, timeout=None):
        s = self.s
        me = s.me()
        if me is None or s.dead:
            return self._flag
        deadline = None if timeout is None else _q(s.clock + max(timeout, 0))
        s.block("event", self, deadline, f"eventwait {s.role(self)}")
        return self._flag


class DetSemaphore:
    def __init__(self, sched, value=1):
        self.s = sched
        self._value = value

    def acquire(self, blocking=True, timeout=None):
        s = self.s
        if s.me() is None or s.dead:
            return True
        if not blocking:
            if self._value > 0:
                self._value -= 1
                return True
            return False
        deadline = None if timeout is None else _q(s.clock + timeout)
        s.block("sem", self, deadline, f"semacquire {s.role(self)}")
        if self._value > 0:
            self._value -= 1
            return True
        return False

    def release(self, n=1):
        self._value += n

    __enter__ = acquire

    def __exit__(self, *a):
        self.release()


# ------------------------------------------------------------------ patched factories

ATOMIC_QUEUES = False   # when True, locks created by module `queue` are non-yielding


def _Lock(*a, **k):
    s = _det_wanted()
    if not s:
        return _real["Lock"](*a, **k)
    noyield = ATOMIC_QUEUES and sys._getframe(1).f_globals.get("__name__", "") == "queue"
    return DetLock(s, noyield=noyield)


def _RLock(*a, **k):
    s = _det_wanted()
    return DetRLock(s) if s else _real["RLock"](*a, **k)


def _Condition(lock=None):
    s = _det_wanted()
    if s or isinstance(lock, (DetLock, DetRLock)):
        return DetCondition(s or lock.s, lock)
    return _real["Condition"](lock)


def _Event():
    s = _det_wanted()
    return DetEvent(s) if s else _real["Event"]()


def _Semaphore(value=1):
    s = _det_wanted()
    return DetSemaphore(s, value) if s else _real["Semaphore"](value)


def _thread_start(self):
    s = _current
    if s is None or s.me() is None or s.dead:
        return _real["start"](self)
    if getattr(self, "_det_state", None) is not None:
        raise RuntimeError("threads can only be started once")
    ts = TState(s.fresh_name(getattr(self, "_det_name", None) or type(self).__name__), self)
    self._det_state = ts
    s.order.append(ts)
    s.by_name[ts.name] = ts
    orig_run = self.run

    def run_wrapper():
        s.threads[_real["get_ident"]()] = ts
        ts.baton.acquire()          # wait to be scheduled for the first time
        s._install_trace()
        try:
            if not s.dead:
                orig_run()
        except Killed:
            pass
        except BaseException as e:  # noqa: BLE001
            ts.exc = e
            s.uncaught.append((ts.name, e))
        finally:
            ts.status = "done"
            s._thread_finished(ts)

    self.run = run_wrapper
    ts.status = "ready"
    ts.label = "thread-begin"
    try:
        _real["start"](self)
    except BaseException:
        s.order.remove(ts)
        del s.by_name[ts.name]
        self._det_state = None
        raise
    # starting a thread is a visible operation: the child may run before the parent continues
    # (not when the starter is the construction context of Scheduler.create(): nothing runs yet)
    if s.me().name != "creator":
        s.yield_point(f"started {ts.name}")


def _thread_join(self, timeout=None):
    s = _current
    ts = getattr(self, "_det_state", None)
    if s is None or ts is None or s.me() is None or s.dead:
        if ts is not None and (s is None or s.dead):
            return None
        return _real["join"](self, timeout)
    if ts is s.me():
        raise RuntimeError("cannot join current thread")
    deadline = None if timeout is None else _q(s.clock + max(timeout, 0))
    s.block("join", ts, deadline, f"join {ts.name}")


def _thread_is_alive(self):
    ts = getattr(self, "_det_state", None)
    if ts is None:
        return _real["is_alive"](self)
    return ts.status not in ("done",)


def _vtime():
    s = cur()
    return s.clock if s else _real["time"]()


def _vsleep(d):
    s = cur()
    if not s:
        return _real["sleep"](d)
    s.block("sleep", None, _q(s.clock + max(d, 0)), f"sleep {d:g}")


def install():
    global _installed
    if _installed:
        return
    _th.Lock = _Lock
    _th.RLock = _RLock
    _th.Condition = _Condition
    _th.Event = _Event
    _th.Semaphore = _Semaphore
    _th.Thread.start = _thread_start
    _th.Thread.join = _thread_join
    _th.Thread.is_alive = _thread_is_alive
    _time.time = _vtime
    _time.monotonic = _vtime
    _time.sleep = _vsleep
    _installed = True


class Yielding:
    """data descriptor: accesses to an (unlocked, shared) attribute become visible operations"""

    def __init__(self, attr, on=("get", "set"), guard=None):
        self.attr = attr
        self.slot = "_detv_" + attr
        self.on = on
        self.guard = guard   # guard(obj, sched) -> bool: yield only when true (e.g. "mutex not held by me")

    def __get__(self, obj, objtype=None):
        if obj is None:
            return self
        if "get" in self.on:
            s = cur()
            if s and (self.guard is None or self.guard(obj, s)):
                s.yield_point(f"read {self.attr}")
        return obj.__dict__[self.slot]

    def __set__(self, obj, value):
        if "set" in self.on and self.slot in obj.__dict__:
            s = cur()
            if s and (self.guard is None or self.guard(obj, s)):
                s.yield_point(f"write {self.attr}")
        obj.__dict__[self.slot] = value


# ------------------------------------------------------------------ choosers

def scripted_chooser(schedule, fallback="first"):
    """schedule: list of thread names (or indices into the enabled list); after it is exhausted the
    first enabled thread runs (fallback='first') or the last chosen keeps running if enabled."""
    it = iter(schedule)
    state = {"taken": []}

    def choose(s, en):
        try:
            want = next(it)
        except StopIteration:
            want = None
        pick = None
        if isinstance(want, int):
            pick = en[want % len(en)]
        elif isinstance(want, str):
            pick = next((t for t in en if t.name == want), None)
        if pick is None:
            pick = en[0]
        state["taken"].append(pick.name)
        return pick

    choose.state = state
    return choose


def random_chooser(rng, switch_prob=0.5):
    last = {"t": None}

    def choose(s, en):
        if last["t"] in en and rng.random() > switch_prob:
            return last["t"]
        t = rng.choice(en)
        last["t"] = t
        return t

    return choose
