"""C12 correspondence: (a) the real Inotify/InotifyBuffer close-vs-read protocol over a fake kernel
that flags any use of a closed descriptor, under the deterministic scheduler, against WD.Fd;
(b) a failure injected at every kernel call of Inotify construction (recursive tree);
(c) supporting measurement on the real kernel: descriptor and thread counts over many
schedule/unschedule/start/stop cycles, including schedule() on a missing path."""
from __future__ import annotations

import errno
import os
import shutil
import tempfile
import threading
import time

import detsched

detsched.install()

import common  # noqa: E402
import explore  # noqa: E402
import fakefd  # noqa: E402


def make_run(root, plan, line_preempt=False):
    from watchdog.observers import inotify_buffer as ib
    from watchdog.observers.inotify_c import InotifyConstants as C

    def rec_bytes(kind, k):
        if kind == "p":
            return fakefd.record(1, C.IN_MODIFY, 0, b"f%d" % k)
        if kind == "d":
            return fakefd.record(1, C.IN_CREATE | C.IN_ISDIR, 0, b"newdir%d" % k)
        if kind == "i":
            return fakefd.record(1, C.IN_IGNORED, 0, b"")
        raise ValueError(kind)

    def run_one(chooser):
        k = fakefd.FakeKernel()
        undo = fakefd.install(k)
        sched = detsched.Scheduler(chooser, max_steps=60000 if line_preempt else 1500, line_preempt=line_preempt)
        failure = None
        try:
            ib.InotifyBuffer._det_name = "0"
            buf = sched.create(lambda: ib.InotifyBuffer(os.fsencode(root), recursive=True))

            def closer():
                buf.close()

            def kern():
                n = 0
                for batch in plan:
                    sched.yield_point("inject")
                    data = b""
                    for kind in batch:
                        n += 1
                        data += rec_bytes(kind, n)
                    if data:
                        k.inject("inotify", data)

            try:
                sched.run_threads([closer, kern], ["1", "2"])
            except (detsched.Deadlock, detsched.StepLimit) as e:
                failure = e
        finally:
            undo()
        steps = " ".join(f"{','.join(en)}>{ch}" for _n, _c, en, ch, _l in sched.trace)
        alldone = failure is None and all(t.status == "done" for t in sched.order if t.name in ("0", "1"))
        viol = "[" + ",".join(k.violations) + "]"
        opn = "[" + ",".join(k.open_fds()) + "]"
        puts = len(buf._queue._queue)
        result = {"line": f"{steps} | viol={viol} open={opn} puts={puts} done={int(alldone)}",
                  "schedule": [int(t[3]) for t in sched.trace], "failure": failure, "uncaught": list(sched.uncaught),
                  "violations": list(k.violations), "open": k.open_fds(), "done": alldone}
        return sched, result

    return run_one


def request(plan, schedule):
    return f"fd P {len(plan)} " + " ".join((b or "-") for b in plan) + f" S {len(schedule)} " + " ".join(map(str, schedule))


def judge(result):
    if result["violations"]:
        return "descriptor misuse: " + "; ".join(result["violations"])
    if result["uncaught"]:
        return f"uncaught exception in a library thread: {result['uncaught']!r}"
    if isinstance(result["failure"], detsched.Deadlock):
        return f"close() did not complete: {result['failure']}"
    if result["done"] and result["open"]:
        return f"descriptors still open after close() completed and the reader ended: {result['open']}"
    return None


def ctor_faults(res, lean):
    """Inotify(path, recursive=True) over a real tree with a failure at each kernel call position"""
    from watchdog.observers.inotify_c import Inotify

    base = tempfile.mkdtemp(prefix="wdverif-c12-", dir=os.environ.get("TMPDIR") or None)
    bad = []
    lines, impl = [], []
    try:
        os.makedirs(os.path.join(base, "a", "b"))
        os.makedirs(os.path.join(base, "c"))
        n_watches = 4   # root, a, a/b, c
        # kernel calls of the construction: 0 = inotify_init, 1 = pipe (the wake-up channel), 2.. = the inotify_add_watch calls
        for pos in [None] + list(range(0, n_watches + 2)):
            for e in (errno.ENOENT, errno.ENOSPC, errno.EMFILE, errno.EACCES):
                if pos is None and e != errno.ENOENT:
                    continue
                if pos == 0 and e == errno.EACCES:
                    continue   # not an errno inotify_init can return (and `_raise_error` ignores EACCES by design)
                if pos == 1 and e != errno.EMFILE:
                    continue   # pipe() fails with EMFILE / ENFILE
                k = fakefd.FakeKernel()
                if pos is not None:
                    k.fail_at[pos] = e
                undo = fakefd.install(k)
                raised = False
                try:
                    try:
                        Inotify(os.fsencode(base), recursive=True)
                    except OSError:
                        raised = True
                finally:
                    undo()
                res.count()
                res.bump("ctor_fault_cases")
                if e == errno.EACCES and pos not in (None, 0, 1):
                    # EACCES on add_watch is deliberately not an error (`_raise_error` returns): nothing to compare
                    if raised:
                        bad.append((pos, e, "raised on EACCES"))
                    continue
                if pos is not None and e == errno.ENOENT:
                    lines.append(f"fdctortol {n_watches} {pos}")       # "not there any more": a sub-directory is skipped
                else:
                    lines.append(f"fdctor {n_watches} {'-' if pos is None else pos}")
                impl.append(f"open={len(k.open_fds())} raised={int(raised)}")
                if k.violations:
                    bad.append((pos, e, "; ".join(k.violations)))
                if raised and k.open_fds():
                    bad.append((pos, e, f"constructor raised with descriptors left open: {k.open_fds()}"))
    finally:
        shutil.rmtree(base, ignore_errors=True)
    outs = lean.run(lines)
    mism = [(l, i, o) for l, i, o in zip(lines, impl, outs) if i != o]
    return bad, mism


def real_cycles(res, n):
    """supporting measurement on the real kernel: counts return to their previous values"""
    from watchdog.events import FileSystemEventHandler
    from watchdog.observers.inotify import InotifyObserver

    base = tempfile.mkdtemp(prefix="wdverif-c12r-", dir=os.environ.get("TMPDIR") or None)
    try:
        os.makedirs(os.path.join(base, "d", "e"))

        def counts():
            return len(os.listdir("/proc/self/fd")), threading.active_count()

        def settle(target, tries=100):
            for _ in range(tries):
                c = counts()
                if c == target:
                    return c
                time.sleep(0.01)
            return counts()

        before = counts()
        problems = []
        # (1) start/stop cycles with a scheduled watch
        for _ in range(n):
            o = InotifyObserver()
            o.schedule(FileSystemEventHandler(), base, recursive=True)
            o.start()
            o.stop()
            o.join()
        c = settle(before)
        if c != before:
            problems.append(f"after {n} start/stop cycles: (fds, threads) {before} -> {c}")
        # (2) schedule/unschedule cycles on a running observer
        o = InotifyObserver()
        o.start()
        mid = counts()
        for _ in range(n):
            w = o.schedule(FileSystemEventHandler(), base, recursive=True)
            o.unschedule(w)
        c = settle(mid)
        if c != mid:
            problems.append(f"after {n} schedule/unschedule cycles: (fds, threads) {mid} -> {c}")
        # (3) schedule() that fails (missing path) on a running observer
        for _ in range(n):
            try:
                o.schedule(FileSystemEventHandler(), os.path.join(base, "missing"), recursive=True)
            except OSError:
                pass
        c = settle(mid)
        if c != mid:
            problems.append(f"after {n} failing schedule() calls: (fds, threads) {mid} -> {c}")
        # (4) the emitter's own shutdown: the watched root is deleted while the observer runs
        for i in range(n):
            d = os.path.join(base, f"gone{i}")
            os.mkdir(d)
            o.schedule(FileSystemEventHandler(), d, recursive=True)
            em = next(e for e in o.emitters if e.watch.path == d)
            os.rmdir(d)
            em.join(5)
            if em.is_alive():
                problems.append("emitter still alive 5 s after its root was deleted")
                break
        c = settle(mid)
        if c != mid:
            problems.append(f"after {n} root deletions (emitter's own shutdown): (fds, threads) {mid} -> {c}")
        o.stop()
        o.join()
        c = settle(before)
        if c != before:
            problems.append(f"after final stop: (fds, threads) {before} -> {c}")
        # (5) the emitter's thread cannot be started (after its inotify buffer was built): start() and schedule() paths
        import watchdog.observers.inotify as inomod

        real_thread_start = threading.Thread.start
        fail = {"on": False, "cls": None}

        import watchdog.observers.inotify_buffer as bufmod

        def failing_start(self):
            if fail["on"] and isinstance(self, fail["cls"]):
                raise RuntimeError("can't start new thread")
            return real_thread_start(self)

        threading.Thread.start = failing_start
        try:
            # each helper thread of a watch in turn: the emitter's own thread, and the reader thread that the inotify buffer
            # starts in its constructor (the inotify descriptor and the wake-up pipe exist by then)
            for cls, what in ((inomod.InotifyEmitter, "emitter thread"), (bufmod.InotifyBuffer, "inotify reader thread")):
                fail["cls"] = cls
                for _ in range(n):
                    o = InotifyObserver()
                    o.schedule(FileSystemEventHandler(), base, recursive=True)
                    fail["on"] = True
                    try:
                        o.start()
                    except RuntimeError:
                        pass
                    fail["on"] = False
                    o.stop()
                c = settle(before)
                if c != before:
                    problems.append(f"after {n} start() calls whose {what} could not be started: (fds, threads) {before} -> {c}")
                o = InotifyObserver()
                o.start()
                mid2 = counts()
                for _ in range(n):
                    fail["on"] = True
                    try:
                        o.schedule(FileSystemEventHandler(), base, recursive=True)
                    except RuntimeError:
                        pass
                    fail["on"] = False
                c = settle(mid2)
                if c != mid2:
                    problems.append(f"after {n} schedule() calls whose {what} could not be started: (fds, threads) {mid2} -> {c}")
                o.stop()
                o.join()
                c = settle(before)
                if c != before:
                    problems.append(f"after the final stop() of the observer whose {what} failed to start: (fds, threads) {before} -> {c}")
                    before = c
        finally:
            threading.Thread.start = real_thread_start
        res.count(4 * n)
        res.bump("real_kernel_cycles", 3 * n)
        return problems
    finally:
        shutil.rmtree(base, ignore_errors=True)


def make_emitter_run(root, starts=1, sequential=False):
    """start() of an InotifyEmitter racing its stop() (`starts` > 1: start() is called again on the started
    emitter, which must raise RuntimeError and leave the running emitter as it is; `sequential`: one thread
    does start()..., stop(), join()) (BaseObserver.start() runs outside the observer's lock: stop(),
    unschedule() or unschedule_all() can overtake an emitter that is still inside on_thread_start) - real
    InotifyEmitter / InotifyBuffer / Inotify over the fake kernel under the deterministic scheduler"""
    import queue

    from watchdog.observers import inotify as inotify_mod
    from watchdog.observers.api import ObservedWatch

    def run_one(chooser):
        k = fakefd.FakeKernel()
        undo = fakefd.install(k)
        sched = detsched.Scheduler(chooser, max_steps=3000)
        failure = None
        em_box = {}
        try:
            em = sched.create(lambda: inotify_mod.InotifyEmitter(queue.Queue(), ObservedWatch(root, recursive=True)))
            em_box["em"] = em

            def starter():
                em.start()
                for _ in range(starts - 1):
                    try:
                        em.start()
                    except RuntimeError:
                        pass      # "threads can only be started once"
                if sequential:
                    stopper()

            def stopper():
                em.stop()
                try:
                    em.join()
                except RuntimeError:
                    pass          # join() of a thread that was not started yet: what `_clear_emitters` tolerates

            try:
                if sequential:
                    sched.run_threads([starter], ["1"])
                else:
                    sched.run_threads([starter, stopper], ["1", "2"])
            except (detsched.Deadlock, detsched.StepLimit) as e:
                failure = e
        finally:
            undo()
        left = sorted(set(list(sched.stuck) + [t.name for t in sched.order if t.status != "done"]))
        result = {"schedule": [t[3] for t in sched.trace], "failure": failure, "uncaught": list(sched.uncaught),
                  "violations": list(k.violations), "open": k.open_fds(), "left": left,
                  "line": " ".join(f"{','.join(en)}>{ch}" for _n, _c, en, ch, _l in sched.trace)}
        return sched, result

    return run_one


def judge_emitter(result):
    if result["violations"]:
        return "descriptor misuse: " + "; ".join(result["violations"])
    if result["uncaught"]:
        return f"uncaught exception in a library thread: {result['uncaught']!r}"
    if isinstance(result["failure"], detsched.Deadlock) and ("1" in result["left"] or "2" in result["left"]):
        return f"start()/stop() of the emitter deadlock: {result['failure']}"
    if not isinstance(result["failure"], detsched.StepLimit) and (result["open"] or result["left"]):
        return (f"after start() and stop() + join() of the emitter have both returned: descriptors still open {result['open']}, "
                f"threads still running {result['left']}")
    return None


def run(res, tier, lean, proof_breaks=(), build_log=""):
    r = common.rng("c12")
    thorough = tier == "thorough"
    res.cov["rule"] = ("(a) close() against the reader at every step of its read loop: real Inotify+InotifyBuffer over a fake "
                       "kernel flagging any use of a closed descriptor, kernel batches injected at scripted points, all "
                       "schedules within a preemption bound (DFS, capped) + random, each run replayed in WD.Fd; (b) a failure "
                       "(ENOENT/ENOSPC/EMFILE/EACCES) at every kernel call of a recursive Inotify construction; (c) real-kernel "
                       "cycle counts of /proc/self/fd and threads (supporting measurement); non-trivial = reader was inside "
                       "read_events when close() ran or a fault was injected")
    root = tempfile.mkdtemp(prefix="wdverif-c12p-", dir=os.environ.get("TMPDIR") or None)
    lines, impl, meta = [], [], []
    try:
        plans = [[], ["p"], ["d"], ["d", "p"], ["pd"], ["p", "p", "d"], ["i"], ["pi"]]
        bound = 3 if thorough else 2
        cap = 1500 if thorough else 250
        for plan in plans:
            run_one = make_run(root, plan)
            info = {}
            runs = list(explore.dfs(run_one, bound, cap, info)) + list(explore.random_runs(run_one, r, 60 if thorough else 15))
            for sched, result in runs:
                lines.append(request(plan, result["schedule"]))
                impl.append(result["line"])
                meta.append((plan, result))
                res.bump("protocol_runs")
    finally:
        shutil.rmtree(root, ignore_errors=True)
    outs = lean.run(lines)
    bad, judged = [], []
    if any(o != i for o, i in zip(outs, impl)) and not any(judge(result) for _p, result in meta):
        # the correspondence is broken and no explored run misused a descriptor: search for a failing input with EVERY
        # source line of the library as a scheduling point (sticky random runs, and one thread parked at each point
        # while the other completes whole calls)
        root2 = tempfile.mkdtemp(prefix="wdverif-c12s-", dir=os.environ.get("TMPDIR") or None)
        try:
            for plan in plans:
                run_lp = make_run(root2, plan, line_preempt=True)
                found = None
                for sched, result in list(explore.park_runs(run_lp, 150)) + list(explore.random_runs(run_lp, r, 60, 0.05)):
                    res.bump("line_level_search_runs")
                    v = judge(result)
                    if v and not isinstance(result["failure"], detsched.StepLimit):
                        found = (v, result)
                        break
                if found:
                    v, result = found
                    sig = "c12-leak" if v.startswith("descriptors still open") else "c12-use-after-close"
                    res.violation(f"Inotify close/read protocol (line-level schedule): {v}",
                                  {"injected_batches": plan, "schedule_steps": result["line"][-3000:],
                                   "how": "deterministic scheduler with every source line of watchdog/* as a scheduling point"},
                                  signature=sig)
                    break
        finally:
            shutil.rmtree(root2, ignore_errors=True)
    for line, o, i, (plan, result) in zip(lines, outs, impl, meta):
        res.count()
        sch = result["schedule"]
        if 1 in sch and 0 in sch[:sch.index(1)]:
            res.nontrivial(line)
        v = judge(result)
        if v:
            judged.append((line, i, o, plan, v))
        if o != i:
            bad.append((line, i, o, plan))
    res.cov["traces_validated_against_impl"] = len(lines)
    res.sample({"request": lines[0], "implementation": impl[0], "model": outs[0]})
    # (d) an emitter's start() overtaken by its stop()
    ebad = []
    root3 = tempfile.mkdtemp(prefix="wdverif-c12e-", dir=os.environ.get("TMPDIR") or None)
    try:
        run_e = make_emitter_run(root3)
        eruns = list(explore.dfs(run_e, 3 if thorough else 2, 600 if thorough else 150, {})) + \
            list(explore.random_runs(run_e, r, 80 if thorough else 25))
        for _sched, result in eruns:
            res.count()
            res.bump("emitter_start_stop_runs")
            v = judge_emitter(result)
            if v:
                ebad.append((v, result))
        # a second start() of the started emitter: RuntimeError, and stop() + join() still end and release everything
        dbad = []
        for seq in (True, False):
            run_d = make_emitter_run(root3, starts=2, sequential=seq)
            druns = list(explore.dfs(run_d, 2, 120 if thorough else 40, {})) + \
                list(explore.random_runs(run_d, r, 40 if thorough else 12))
            for _sched, result in druns:
                res.count()
                res.bump("emitter_double_start_runs")
                v = judge_emitter(result)
                if v:
                    dbad.append((v, result, seq))
    finally:
        shutil.rmtree(root3, ignore_errors=True)
    if ebad:
        ebad.sort(key=lambda b: len(b[1]["schedule"]))
        v, result = ebad[0]
        res.violation(f"InotifyEmitter start() racing stop(): {v}",
                      {"schedule": result["line"], "failing_runs": len(ebad)}, signature="c12-emitter-start-stop")
    if dbad:
        dbad.sort(key=lambda b: len(b[1]["schedule"]))
        v, result, seq = dbad[0]
        res.violation(f"InotifyEmitter start() called twice, then stop() + join(){' from another thread' if not seq else ''}: {v}",
                      {"schedule": result["line"], "failing_runs": len(dbad), "sequential": seq}, signature="c12-emitter-double-start")
    cbad, cmism = ctor_faults(res, lean)
    rbad = real_cycles(res, 60 if thorough else 15)
    if judged:
        judged.sort(key=lambda b: len(b[0]))
        groups = {}
        for j in judged:
            v = j[4]
            sig = "c12-leak" if v.startswith("descriptors still open") else "c12-use-after-close"
            groups.setdefault(sig, []).append(j)
        for sig, js in groups.items():
            line, i, o, plan, v = js[0]
            res.violation(f"Inotify close/read protocol: {v}", {"injected_batches": plan, "request": line, "implementation": i,
                                                                "model": o, "violating_runs": len(js)}, signature=sig)
    if cbad:
        pos, e, what = cbad[0]
        res.violation(f"Inotify construction with a failure at kernel call #{pos} ({errno.errorcode[e]}): {what}",
                      {"fail_at_call": pos, "errno": errno.errorcode[e], "what": what, "failing_cases": len(cbad)},
                      signature="c12-ctor-leak")
    if rbad:
        res.violation("real kernel: descriptor/thread counts do not return to their previous values: " + "; ".join(rbad),
                      {"measurements": rbad}, signature="c12-real-cycles")
    if proof_breaks and not res.violations:
        # the statement shapes of BaseThread.start/stop / InotifyEmitter.on_thread_start/on_thread_stop, regenerated from
        # the source, are no longer the ones the hand-over model (WD.Hand) was written from; every explored interleaving
        # of the real emitter's start() and stop() was judged and none leaked
        res.violation("WD.Handover.shape_agrees_with_source no longer checks: the source of the emitter's start/stop hand-over "
                      "has changed shape, the theorem WD.Handover.handover is no longer tied to it; every explored "
                      "interleaving of start() and stop() of the real emitter released everything",
                      {"theorem_no_longer_checks": list(proof_breaks), "lean_error": build_log[-3000:]}, no_input=True,
                      signature="c12-handover-shape")
    if (bad or cmism) and not (judged or cbad or rbad or res.violations):
        line, i, o = (bad[0][:3] if bad else cmism[0])
        res.violation("correspondence WD.Fd <-> Inotify/InotifyBuffer broken (theorems C12.* no longer tied to the code); every "
                      "explored run was judged by the fake kernel and none misused or leaked a descriptor",
                      {"correspondence": "harness/c12.py vs lean WD.Fd", "request": line, "implementation": i, "model": o,
                       "mismatching_runs": len(bad) + len(cmism)}, no_input=True, signature="c12-model-mismatch")


def replay(res, path, lean):
    run(res, "quick", lean)
