import WD.Base.Assoc
import WD.Model.Snapshot
import WD.Spec.SnapshotSpec
import WD.Proofs.Snapshot
import WD.Props.C09
import WD.Model.Events
import WD.Generated.EventClasses
import WD.Props.C15
