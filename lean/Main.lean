import WD.Driver.C09
import WD.Driver.C15
import WD.Driver.C14
import WD.Driver.C17
import WD.Driver.C16
import WD.Driver.C10
import WD.Driver.C13
import WD.Driver.Obs
import WD.Driver.C08
import WD.Driver.C12
import WD.Driver.C18
import WD.Driver.Rst
import WD.Driver.Shell
import WD.Driver.C20
import WD.Driver.Pipe
import WD.Driver.C19
import WD.Driver.Win
import WD.Driver.Mac
open WD.Driver WD.Proto

def handle (line : String) : String :=
  match tokens line with
  | "snapdiff" :: ts => c09Line ts
  | "submoved" :: ts => c14Line "submoved" ts
  | "subcreated" :: ts => c14Line "subcreated" ts
  | "rekey" :: ts => c14Line "rekey" ts
  | "dq" :: ts => c17Line ts
  | "pipe" :: ts => pipeLine ts
  | "pipespec" :: ts => pipeSpecLine ts
  | "pipemaps" :: ts => pipeMapsLine ts
  | "pipeburst" :: ts => pipeBurstLine ts
  | "evpath" :: ts => c19Line ts
  | "winrun" :: ts => winRunLine ts
  | "winemit" :: ts => winEmitLine ts
  | "macrun" :: ts => macRunLine ts
  | "macemit" :: ts => macEmitLine ts
  | "inodec" :: ts => c20Line "inodec" ts
  | "windec" :: ts => c20Line "windec" ts
  | "deb" :: ts => c18Line ts
  | "rst" :: ts => rstLine ts
  | "shell" :: ts => shellLine ts
  | "fd" :: ts => c12Line "fd" ts
  | "fdctor" :: ts => c12Line "fdctor" ts
  | "fdctortol" :: ts => c12Line "fdctortol" ts
  | "ib" :: ts => c08Line ts
  | "obs" :: ts => obsLine ts
  | "reg" :: ts => c13Line ts
  | "poll" :: ts => c10Line ts
  | "sq" :: ts => c16Line ts
  | "eveq" :: ts => evEqLine ts
  | "basedisp" :: ts => c15Line "basedisp" ts
  | "patdisp" :: ts => c15Line "patdisp" ts
  | "redisp" :: ts => c15Line "redisp" ts
  | "filterpaths" :: ts => c15Line "filterpaths" ts
  | _ => "bad-op"

partial def loop (h : IO.FS.Stream) (out : IO.FS.Stream) : IO Unit := do
  let line ← h.getLine
  if line.isEmpty then return ()
  let l := line.trimAscii.toString
  out.putStrLn (handle l)
  loop h out

def main : IO Unit := do
  let i ← IO.getStdin
  let o ← IO.getStdout
  loop i o
  o.flush
