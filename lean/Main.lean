import WD.Driver.C09
open WD.Driver WD.Proto

def handle (line : String) : String :=
  match tokens line with
  | "snapdiff" :: ts => c09Line ts
  | _ => "bad-op"

partial def loop (h : IO.FS.Stream) (out : IO.FS.Stream) : IO Unit := do
  let line ← h.getLine
  if line.isEmpty then return ()
  let l := line.trimAscii.toString
  out.putStrLn (handle l)
  loop h out

def main : IO Unit := do
  let i ← IO.getStdin
  let o ← IO.getStdout
  loop i o
  o.flush
