import WD.Model.MacEmit
import WD.Driver.Win
namespace WD.Driver
open WD WD.Pipe WD.Mac WD.Proto

def showMFlags (e : MEv) : String :=
  (if e.created then "c" else "") ++ (if e.removed then "r" else "") ++ (if e.renamed then "n" else "") ++
  (if e.modified then "m" else "") ++ (if e.metaMod then "t" else "") ++ (if e.rootChanged then "x" else "")

/-- `path@ino@d|f@flags` -/
def showMEv (e : MEv) : String :=
  showP e.path ++ "@" ++ toString e.ino ++ "@" ++ (if e.isDir then "d" else "f") ++ "@" ++ showMFlags e

def parseMFlags (e : MEv) (s : String) : MEv :=
  { e with created := s.contains 'c', removed := s.contains 'r', renamed := s.contains 'n', modified := s.contains 'm',
           metaMod := s.contains 't', rootChanged := s.contains 'x' }

/-- inode spec: a number, `=` (the entry now at the event's path, 0 if none) or `~<path>` (the entry now at another path) -/
def parseMEv (fs : FS) (t : String) : Option MEv :=
  match t.splitOn "@" with
  | [p, i, k, f] =>
    let path := parsePath p
    let ino : Option Nat :=
      if i == "=" then some (((fs.find? path).map (·.ino)).getD 0)
      else if i.startsWith "~" then some (((fs.find? (parsePath (i.drop 1).toString)).map (·.ino)).getD 0)
      else i.toNat?
    ino.map (fun ino => parseMFlags { path := path, ino := ino, isDir := k == "d" } f)
  | _ => none

/-- a small deterministic generator for the sticky choices -/
def lcg (x : Nat) : Nat := (x * 1103515245 + 12345) % 2147483648

/-- add allowed sticky flags to the events of one operation, noting what the stream has carried -/
def stickSeeded (enabled : Bool) (seed : Nat) (seen : Seen) (evs : List MEv) : Nat × Seen × List MEv :=
  evs.foldl (fun (acc : Nat × Seen × List MEv) e =>
    let (x, h, out) := acc
    let x1 := lcg x
    let old := h.get e.ino e.path
    let bits := x1 / 65536
    let s : Sticky := { created := old.created && bits % 2 == 1, modified := old.modified && (bits / 2) % 2 == 1,
                        metaMod := old.metaMod && (bits / 4) % 2 == 1 }
    let e1 := if enabled then e.stick s else e
    (x1, h.note e, out ++ [e1])) (seed, seen, [])

def cutAt (n : Nat) (evs : List MEv) : List (List MEv) :=
  if n == 0 || evs.length ≤ n then [evs] else [evs.take n, evs.drop n]

/-- `macrun <recursive> <stickyseed> I <n> op*n O <m> op*m C <m> cut*m` : the documented-semantics simulator and the
    emitter model, every operation drained; per operation the native events (`N:`), the sizes of the callbacks
    they arrive in (`B:`) and the delivered events (`E:`); then the theorems' statements on this instance -/
def macRunLine (ts : List String) : String :=
  match ts with
  | rec :: seed :: "I" :: n :: rest =>
    (do
      let n ← n.toNat?
      let seed ← seed.toNat?
      if rest.length < n then none else
      let initOps ← (rest.take n).mapM pipeParseOp
      let (m, rest2) ← (match rest.drop n with | "O" :: m :: r => m.toNat?.map (fun m => (m, r)) | _ => none)
      if rest2.length < m then none else
      let ops ← (rest2.take m).mapM pipeParseOp
      let cuts ← (match rest2.drop m with
        | "C" :: _ :: r => r.mapM String.toNat?
        | [] => some (ops.map (fun _ => 0))
        | _ => none)
      if cuts.length ≠ ops.length then none else
      let r := bool01 rec
      let k0 : Kern := ⟨[], 1, 1⟩
      let fs0 := initOps.foldl (fun fs op => if validOp fs op then (kernelOp fs k0 op).1 else fs) FS.init
      let step := fun (acc : FS × MSt × Nat × Seen × List String × List PEv × Bool) (oc : Op × Nat) =>
        let (fs, st, x, seen, outs, allEvs, con) := acc
        let (op, cut) := oc
        if !Win.winValid fs op then (fs, st, x, seen, outs ++ ["skip"], allEvs, con) else
        let fs1 := fsAfter fs op
        let (x1, seen1, native) := stickSeeded (seed != 0) x seen (macEvents fs op)
        if st.stopped then (fs1, st, x1, seen1, outs ++ ["N:|B:|E:"], allEvs, con) else
        let batches := cutAt cut native
        let (st1, evs) := batches.foldl (fun (a : MSt × List PEv) b =>
            let rr := emitBatch fs1 r a.1 b
            (rr.1, a.2 ++ rr.2)) (st, [])
        let c := macContract fs op
        let cEvs := if r then c.1 else c.1.filter keepFlat
        let exact := seed == 0 && batches.length == 1
        let out := "N:" ++ ",".intercalate (native.map showMEv) ++ "|B:" ++ ",".intercalate (batches.map (fun (b : List MEv) => toString b.length)) ++
                   "|E:" ++ ",".intercalate (canonEvents evs)
        (fs1, st1, x1, seen1, outs ++ [out], allEvs ++ evs, con && (!exact || (evs == cEvs && st1.stopped == c.2)))
      let (fin, st, _, _, outs, evs, con) := (ops.zip cuts).foldl step (fs0, {}, seed, [], [], [], true)
      let rep := replay (treeW fs0) evs
      some (" ; ".intercalate outs ++ s!" | tree={showTree fin} replay={b01 (!r || sameTreeB rep (treeW fin) || st.stopped)} contract={b01 con} stopped={b01 st.stopped}")).getD "bad-op"
  | _ => "bad-op"

/-- `macemit <recursive> <fsview|-> I <n> op*n R <k> ev*k` : the emitter model on an explicit callback -/
def macEmitLine (ts : List String) : String :=
  match ts with
  | rec :: view :: "I" :: n :: rest =>
    (do
      let n ← n.toNat?
      if rest.length < n then none else
      let initOps ← (rest.take n).mapM pipeParseOp
      let (k, rest2) ← (match rest.drop n with | "R" :: k :: r => k.toNat?.map (fun k => (k, r)) | _ => none)
      if rest2.length ≠ k then none else
      let k0 : Kern := ⟨[], 1, 1⟩
      let fs0 := initOps.foldl (fun fs op => if validOp fs op then (kernelOp fs k0 op).1 else fs) FS.init
      let evs ← rest2.mapM (parseMEv fs0)
      let viewPaths := if view == "-" then [] else (view.splitOn ",").map parsePath
      let st : MSt := { fsView := viewPaths.filterMap (fun p => (fs0.find? p).map Ent.ino) }
      let (st1, out) := emitBatch fs0 (bool01 rec) st evs
      let viewOut := sortStr ((fs0.ents.filter (fun (e : Ent) => st1.fsView.contains e.ino)).map (fun (e : Ent) => showP e.path))
      some (",".intercalate (canonEvents out) ++ s!" | view={showList viewOut} stopped={b01 st1.stopped} tree={showTree fs0}")).getD "bad-op"
  | _ => "bad-op"

end WD.Driver
