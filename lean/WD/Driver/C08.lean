import WD.Model.InoBuffer
import WD.Driver.Proto
namespace WD.Driver
open WD.IB WD.Proto

def ibShowObs : Obs → String
  | .put tid e d t => s!"put:{tid}:{e.uid}:{b01 d}@{t}"
  | .got tid e t => s!"got:{tid}:{e.uid}@{t}"
  | .gotNone tid t => s!"gotNone:{tid}@{t}"
  | .removed tid e t => s!"removed:{tid}:{e.uid}@{t}"
  | .removedNone tid t => s!"removedNone:{tid}@{t}"
  | .closed tid t => s!"closed:{tid}@{t}"

def ibShowDelivered : Delivered → String
  | .one i t => s!"S{i}@{t}"
  | .two f to t => s!"P{f}-{to}@{t}"
  | .none t => s!"None@{t}"

def ibReplay (s : State) : List Nat → List String → State × List String
  | [], acc => (idleAdvance s, acc)
  | tid :: rest, acc =>
    let s1 := idleAdvance s
    let en := enabledList s1
    let line := s!"{s1.clock}:" ++ ",".intercalate (en.map toString) ++ s!">{tid}"
    match step s1 tid with
    | some s2 => ibReplay s2 rest (acc ++ [line])
    | none => (s1, acc ++ [line ++ "!DISABLED"])

def parseRec (ts : List String) : Option Rec :=
  match ts with
  | [i, c, f] => do
    let i ← i.toNat?; let c ← c.toNat?
    match f.toList with
    | [a, b, d, e, g] => some ⟨i, c, a == '1', b == '1', d == '1', e == '1', g == '1'⟩
    | _ => none
  | _ => none

def takeBatch (ts : List String) : Option ((Nat × List Rec) × List String) :=
  match ts with
  | gap :: n :: rest => do
    let gap ← gap.toNat?; let n ← n.toNat?
    let (gs, r) ← takeGroups 3 n rest
    let recs ← gs.mapM parseRec
    some ((gap, recs), r)
  | _ => none

def takeN {α : Type} (f : List String → Option (α × List String)) : Nat → List String → Option (List α × List String)
  | 0, ts => some ([], ts)
  | k+1, ts => do
    let (a, r) ← f ts
    let (more, r') ← takeN f k r
    some (a :: more, r')

/-- `ib <delay> B <n> (<gap> <k> (id cookie flags)*k)*n G <gets> C <closerSleep> S <q> tid*q`
    threads: 0 = reader, 1 = consumer, 2 = closer -/
def c08Line (ts : List String) : String :=
  (do
    let (delay, r) ← (match ts with | d :: "B" :: r => d.toNat?.map (fun d => (d, r)) | _ => none)
    let (nb, r) ← (match r with | n :: r => n.toNat?.map (fun n => (n, r)) | _ => none)
    let (batches, r) ← takeN takeBatch nb r
    let (gets, r) ← (match r with | "G" :: g :: r => g.toNat?.map (fun g => (g, r)) | _ => none)
    let (cs, r) ← (match r with | "C" :: c :: r => c.toNat?.map (fun c => (c, r)) | _ => none)
    let sched ← (match r with | "S" :: _q :: r => r.mapM (fun (x : String) => x.toNat?) | _ => none)
    let c := compile batches
    let scripts : List (List Op) := [c.ops, List.replicate gets Op.get, [.sleep cs, .setStop, .close, .join 0]]
    let (fin, lines) := ibReplay (init delay scripts) sched []
    let del := interpret c 0 fin.hist
    let alldone := fin.threads.all (fun (t : Thread) => t.pc == Pc.done)
    some (" ".intercalate lines ++ " | " ++ " ".intercalate (del.map ibShowDelivered) ++
          s!" | q={fin.queue.length} done={b01 alldone} clock={fin.clock}")).getD "bad-op"

end WD.Driver
