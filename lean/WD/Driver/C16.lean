import WD.Model.SkipQueue
import WD.Model.Events
import WD.Driver.Proto
namespace WD.Driver
open WD.SQ WD.Proto

def sqParseOp (t : String) : Option Op :=
  if t == "g" then some .get
  else if t.startsWith "p" then
    match ((t.drop 1).toString.splitOn ":") with
    | [u, v] => do
      let u ← u.toNat?; let v ← v.toNat?
      some (.put ⟨u, v⟩)
    | _ => none
  else none

def sqShowObs : Obs → String
  | .enq tid x => s!"enq:{tid}:{x.uid}"
  | .dropped tid x y => s!"dropped:{tid}:{x.uid}:{y.uid}"
  | .got tid x => s!"got:{tid}:{x.uid}"

def sqReplay (s : State) : List Nat → List String → State × List String
  | [], acc => (s, acc)
  | tid :: rest, acc =>
    let en := enabledList s
    let line := ",".intercalate (en.map toString) ++ s!">{tid}"
    match step s tid with
    | some s2 => sqReplay s2 rest (acc ++ [line])
    | none => (s, acc ++ [line ++ "!DISABLED"])

/-- `sq T <nthreads> (<nops> op*)* S <nsteps> tid*` -/
def c16Line (ts : List String) : String :=
  (do
    let (nt, rest) ← (match ts with | "T" :: n :: r => n.toNat?.map (fun n => (n, r)) | _ => none)
    let rec scripts (fuel : Nat) (k : Nat) (r : List String) : Option (List (List Op) × List String) :=
      match fuel, k with
      | _, 0 => some ([], r)
      | 0, _ => none
      | f+1, k+1 =>
        match r with
        | n :: r' => do
          let n ← n.toNat?
          if r'.length < n then none else
          let ops ← (r'.take n).mapM sqParseOp
          let (more, r'') ← scripts f k (r'.drop n)
          some (ops :: more, r'')
        | [] => none
    let (scr, rest) ← scripts (nt + 1) nt rest
    let sched ← (match rest with | "S" :: _n :: r => r.mapM (fun (x : String) => x.toNat?) | _ => none)
    let (fin, lines) := sqReplay (init scr) sched []
    let q := ",".intercalate (fin.queue.map (fun (e : Item) => toString e.uid))
    let alldone := fin.threads.all (fun (t : Thread) => t.pc == Pc.done)
    let last := match fin.last with | some y => toString y.uid | none => "None"
    some (" ".intercalate lines ++ " | " ++ " ".intercalate (fin.hist.map sqShowObs) ++ s!" | q=[{q}] last={last} done={b01 alldone}")).getD "bad-op"

/-- `eveq <cls1> <src1> <dst1> <syn1> <cls2> <src2> <dst2> <syn2>` : model equality of two events -/
def evEqLine (ts : List String) : String :=
  match ts with
  | [c1, s1, d1, y1, c2, s2, d2, y2] =>
    match WD.EvClass.ofName? c1, WD.EvClass.ofName? c2 with
    | some c1, some c2 =>
      let e1 : WD.Event := ⟨c1, s1, d1, bool01 y1⟩
      let e2 : WD.Event := ⟨c2, s2, d2, bool01 y2⟩
      b01 (decide (e1 = e2))
    | _, _ => "bad-op"
  | _ => "bad-op"

end WD.Driver
