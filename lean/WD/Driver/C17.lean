import WD.Model.DelayQueue
import WD.Driver.Proto
namespace WD.Driver
open WD.DQ WD.Proto

/-- script tokens: `p<uid>:<val>:<0|1>` put, `g` get, `r<val>` remove, `c` close, `s<d>` sleep -/
def parseOp (t : String) : Option Op :=
  if t == "g" then some .get
  else if t == "c" then some .close
  else if t.startsWith "s" then (t.drop 1).toNat?.map Op.sleep
  else if t.startsWith "r" then (t.drop 1).toNat?.map Op.remove
  else if t.startsWith "p" then
    match ((t.drop 1).toString.splitOn ":") with
    | [u, v, d] => do
      let u ← u.toNat?; let v ← v.toNat?
      some (.put ⟨u, v⟩ (d == "1"))
    | _ => none
  else none

def showObs : Obs → String
  | .put tid e d t => s!"put:{tid}:{e.uid}:{b01 d}@{t}"
  | .got tid e t => s!"got:{tid}:{e.uid}@{t}"
  | .gotNone tid t => s!"gotNone:{tid}@{t}"
  | .removed tid e t => s!"removed:{tid}:{e.uid}@{t}"
  | .removedNone tid t => s!"removedNone:{tid}@{t}"
  | .closed tid t => s!"closed:{tid}@{t}"

/-- replay a schedule the way harness/detsched.py runs it: before each decision apply the idle
    clock jump, report the enabled set, then step the chosen thread -/
def replay (s : State) : List Nat → List String → State × List String
  | [], acc => (idleAdvance s, acc)
  | tid :: rest, acc =>
    let s1 := idleAdvance s
    let en := enabledList s1
    let line := s!"{s1.clock}:" ++ ",".intercalate (en.map toString) ++ s!">{tid}"
    match step s1 tid with
    | some s2 => replay s2 rest (acc ++ [line])
    | none => (s1, acc ++ [line ++ "!DISABLED"])

/-- `dq <delay> T <nthreads> (<nops> op*)* S <nsteps> tid*` -/
def c17Line (ts : List String) : String :=
  (do
    let (delay, rest) ← (match ts with | d :: "T" :: r => d.toNat?.map (fun d => (d, r)) | _ => none)
    let (nt, rest) ← (match rest with | n :: r => n.toNat?.map (fun n => (n, r)) | _ => none)
    let rec scripts (fuel : Nat) (k : Nat) (r : List String) : Option (List (List Op) × List String) :=
      match fuel, k with
      | _, 0 => some ([], r)
      | 0, _ => none
      | f+1, k+1 =>
        match r with
        | n :: r' => do
          let n ← n.toNat?
          if r'.length < n then none else
          let ops ← (r'.take n).mapM parseOp
          let (more, r'') ← scripts f k (r'.drop n)
          some (ops :: more, r'')
        | [] => none
    let (scr, rest) ← scripts (nt + 1) nt rest
    let sched ← (match rest with | "S" :: _n :: r => r.mapM (fun (x : String) => x.toNat?) | _ => none)
    let (fin, lines) := replay (init delay scr) sched []
    let q := ",".intercalate (fin.queue.map (fun (e : Entry) => toString e.elem.uid))
    let alldone := fin.threads.all (fun (t : Thread) => t.pc == Pc.done)
    some (" ".intercalate lines ++ " | " ++ " ".intercalate (fin.hist.map showObs) ++ s!" | q=[{q}] closed={b01 fin.closed} done={b01 alldone} clock={fin.clock}")).getD "bad-op"

end WD.Driver
