import WD.Model.Debouncer
import WD.Driver.Proto
namespace WD.Driver
open WD.Deb WD.Proto

def debParseOp (t : String) : Option Op :=
  if t == "stop" then some .stop
  else if t == "join" then some .join
  else if t.startsWith "e" then (t.drop 1).toNat?.map Op.event
  else if t.startsWith "s" then (t.drop 1).toNat?.map Op.sleep
  else none

def debShow : Obs → String
  | .handed tid v t => s!"handed:{tid}:{v}@{t}"
  | .batch vs t => "batch:" ++ showList (vs.map toString) ++ s!"@{t}"
  | .stopped tid t => s!"stopped:{tid}@{t}"
  | .joined tid t => s!"joined:{tid}@{t}"

def debReplay (s : State) : List Nat → List String → State × List String
  | [], acc => (idleAdvance s, acc)
  | tid :: rest, acc =>
    let s1 := idleAdvance s
    let line := s!"{s1.clock}:" ++ ",".intercalate ((enabledList s1).map toString) ++ s!">{tid}"
    match step s1 tid with
    | some s2 => debReplay s2 rest (acc ++ [line])
    | none => (s1, acc ++ [line ++ "!DISABLED"])

/-- `deb <interval> T <n> (<k> op*k)*n S <q> tid*q` -/
def c18Line (ts : List String) : String :=
  (do
    let (iv, r) ← (match ts with | i :: "T" :: r => i.toNat?.map (fun i => (i, r)) | _ => none)
    let (n, r) ← (match r with | n :: r => n.toNat?.map (fun n => (n, r)) | _ => none)
    let rec scripts (fuel k : Nat) (r : List String) : Option (List (List Op) × List String) :=
      match fuel, k with
      | _, 0 => some ([], r)
      | 0, _ => none
      | f+1, k+1 =>
        match r with
        | m :: r' => do
          let m ← m.toNat?
          if r'.length < m then none else
          let ops ← (r'.take m).mapM debParseOp
          let (more, r'') ← scripts f k (r'.drop m)
          some (ops :: more, r'')
        | [] => none
    let (scr, r) ← scripts (n + 1) n r
    let sched ← (match r with | "S" :: _q :: r => r.mapM (fun (x : String) => x.toNat?) | _ => none)
    let (fin, lines) := debReplay (init iv scr) sched []
    let alldone := fin.deb == Pc.done && fin.clients.all (fun (t : Thread) => t.pc == Pc.done)
    some (" ".intercalate lines ++ " | " ++ " ".intercalate (fin.hist.map debShow) ++
          s!" | pending={fin.events.length} done={b01 alldone} clock={fin.clock}")).getD "bad-op"

end WD.Driver
