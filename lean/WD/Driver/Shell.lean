import WD.Model.Shell
import WD.Driver.Proto
namespace WD.Driver
open WD.Shell WD.Proto

def shParseOp (t : String) : Option Op :=
  if t == "event" then some .event
  else if t.startsWith "s" then (t.drop 1).toNat?.map Op.sleep
  else none

def shShow : Obs → String
  | .spawn pid t => s!"spawn:{pid}@{t}"
  | .eventRet t => s!"event-returned:0@{t}"

def shReplay (s : State) : List Nat → List String → State × List String
  | [], acc => (idleAdvance s, acc)
  | tid :: rest, acc =>
    let s1 := idleAdvance s
    let line := s!"{s1.clock}:" ++ ",".intercalate ((enabledList s1).map toString) ++ s!">{tid}"
    match step s1 tid with
    | some s2 => shReplay s2 rest (acc ++ [line])
    | none => (s1, acc ++ [line ++ "!DISABLED"])

/-- `shell <wait> <drop> L <n> life*n T <k> op*k S <q> tid*q` -/
def shellLine (ts : List String) : String :=
  (do
    let (w, d, r) ← (match ts with | w :: d :: "L" :: r => some (bool01 w, bool01 d, r) | _ => none)
    let (nl, r) ← (match r with | n :: r => n.toNat?.map (fun n => (n, r)) | _ => none)
    if r.length < nl then none else
    let lifes ← (r.take nl).mapM (fun (x : String) => if x == "-" then some none else x.toNat?.map some)
    let r := r.drop nl
    let (k, r) ← (match r with | "T" :: n :: r => n.toNat?.map (fun n => (n, r)) | _ => none)
    if r.length < k then none else
    let ops ← (r.take k).mapM shParseOp
    let sched ← (match r.drop k with | "S" :: _q :: r => r.mapM (fun (x : String) => x.toNat?) | _ => none)
    let (fin, lines) := shReplay (init w d lifes ops) sched []
    let alldone := fin.pc == CPc.done && fin.watchers.all (fun (x : Watcher) => x.pc == WPc.done)
    some (" ".intercalate lines ++ " | " ++ " ".intercalate (fin.hist.map shShow) ++
          s!" | alive={showList (fin.aliveList.map toString)} threads={fin.watchers.length + 1} done={b01 alldone} clock={fin.clock}")).getD "bad-op"

end WD.Driver
