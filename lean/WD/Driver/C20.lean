import WD.Model.Decoders
import WD.Driver.Proto
namespace WD.Driver
open WD.Dec WD.Proto

def hexVal (c : Char) : Option Nat :=
  if '0' ≤ c ∧ c ≤ '9' then some (c.toNat - '0'.toNat)
  else if 'a' ≤ c ∧ c ≤ 'f' then some (c.toNat - 'a'.toNat + 10) else none

def hexBytes : List Char → Option Bytes
  | [] => some []
  | a :: b :: rest => do
    let x ← hexVal a; let y ← hexVal b
    let r ← hexBytes rest
    some ((16 * x + y) :: r)
  | _ => none

def hexDigit (n : Nat) : Char := if n < 10 then Char.ofNat ('0'.toNat + n) else Char.ofNat ('a'.toNat + n - 10)
def toHex (b : Bytes) : String := String.ofList (b.flatMap (fun x => [hexDigit (x / 16), hexDigit (x % 16)]))

/-- `inodec <hex|->`  → `wd:mask:cookie:hexname ...` ;  `windec <nbytes> <hex|->` → `action:hexname16 ...` -/
def c20Line (cmd : String) (ts : List String) : String :=
  match cmd, ts with
  | "inodec", [hx] =>
    match hexBytes (if hx == "-" then [] else hx.toList) with
    | some b =>
      let rs := decodeIno b
      if rs.isEmpty then "EMPTY" else
      " ".intercalate (rs.map (fun (r : InoRec) => s!"{r.wd}:{r.mask}:{r.cookie}:" ++ (if r.name.isEmpty then "-" else toHex r.name)))
    | none => "bad-op"
  | "windec", [n, hx] =>
    match n.toNat?, hexBytes (if hx == "-" then [] else hx.toList) with
    | some n, some b =>
      let rs := decodeWin b n
      if rs.isEmpty then "EMPTY" else
      " ".intercalate (rs.map (fun (r : WinRec) => s!"{r.action}:" ++ (if r.name.isEmpty then "-" else toHex (bytes16 r.name))))
    | _, _ => "bad-op"
  | _, _ => "bad-op"

end WD.Driver
