import WD.Model.Pipeline
import WD.Model.PipelineBurst
import WD.Spec.PipelineSpec
import WD.Driver.Proto
namespace WD.Driver
open WD WD.Pipe WD.Proto

def parsePath (s : String) : P := (s.splitOn "/").filter (· ≠ "")

def pipeParseOp (t : String) : Option Op :=
  match t.splitOn ":" with
  | ["create", p] => some (.create (parsePath p))
  | ["write", p] => some (.write (parsePath p))
  | ["chmod", p] => some (.chmod (parsePath p))
  | ["unlink", p] => some (.unlink (parsePath p))
  | ["mkdir", p] => some (.mkdir (parsePath p))
  | ["rmdir", p] => some (.rmdir (parsePath p))
  | ["rmtree", p] => some (.rmtree (parsePath p))
  | ["rmtree", p, order] => some (.rmtreeOrd (parsePath p) (((order.splitOn ",").filter (· ≠ "")).map parsePath))
  | ["rename", p, q] => some (.rename (parsePath p) (parsePath q))
  | _ => none

def showEvent (e : Event) : String :=
  e.cls.name ++ ":" ++ e.src ++ (if e.dest == "" then "" else ">" ++ e.dest) ++ (if e.synthetic then "*" else "")

/-- canonical form of one operation's events: maximal runs of synthetic events sorted (their order is
    the directory listing order, which the model does not know), adjacent duplicates collapsed -/
def canonEvents (pevs : List PEv) : List String :=
  let evs := pevs.map PEv.toEvent
  let strs := evs.map (fun e => (e.synthetic, showEvent e))
  let rec runs (l : List (Bool × String)) (cur : List String) (acc : List String) : List String :=
    match l with
    | [] => acc ++ sortStr cur
    | (true, s) :: rest => runs rest (cur ++ [s]) acc
    | (false, s) :: rest => runs rest [] (acc ++ sortStr cur ++ [s])
  let flat := runs strs [] []
  flat.foldl (fun acc s => if acc.getLast? == some s then acc else acc ++ [s]) []

def sameTreeB (a b : Tree) : Bool := a.all (fun x => b.contains x) && b.all (fun x => a.contains x)

/-- `pipespec <recursive> <full> I <n> op*n O <m> op*m` : evaluates the pipeline theorems' statements on a
    history (operations the file system would refuse are skipped): the invariant after every operation, the
    per-operation contract, the replay -/
def pipeSpecLine (ts : List String) : String :=
  match ts with
  | rec :: full :: "I" :: n :: rest =>
    (do
      let n ← n.toNat?
      if rest.length < n then none else
      let initOps ← (rest.take n).mapM pipeParseOp
      let (m, rest2) ← (match rest.drop n with | "O" :: m :: r => m.toNat?.map (fun m => (m, r)) | _ => none)
      if rest2.length ≠ m then none else
      let ops ← rest2.mapM pipeParseOp
      let k0 : Kern := ⟨[], 1, 1⟩
      let fs0 := initOps.foldl (fun fs op => if validOp fs op then (kernelOp fs k0 op).1 else fs) FS.init
      let s0 := Sys.start fs0 (bool01 rec) (bool01 full)
      let step := fun (acc : Sys × List PEv × Bool × Bool × Nat) (op : Op) =>
        let (s, evs, inv, con, nops) := acc
        if !validOp s.fs op then acc else
        let (s1, e) := s.op op
        let c := contract s.fs s.lib.recursive s.full op
        (s1, evs ++ e, inv && (s1.inv || s1.stopped), con && (s.stopped || (e == c.1 && s1.stopped == c.2)), nops + 1)
      let (fin, evs, inv, con, nops) := ops.foldl step (s0, [], s0.inv, true, 0)
      let t0 := if bool01 rec then treeW fs0 else treeW1 fs0
      let t1 := if bool01 rec then treeW fin.fs else treeW1 fin.fs
      let rep := replay t0 evs
      let rep := if bool01 rec then rep else rep.filter (fun x => x.1.length = 2)
      some s!"ops={nops} inv={b01 inv} contract={b01 con} replay={b01 (sameTreeB rep t1)} crashed={b01 fin.crashed} stopped={b01 fin.stopped}").getD "bad-op"
  | _ => "bad-op"

/-- `pipe <recursive> <full> I <n> op*n O <m> op*m` -/
def pipeLine (ts : List String) : String :=
  match ts with
  | rec :: full :: "I" :: n :: rest =>
    (do
      let n ← n.toNat?
      if rest.length < n then none else
      let initOps ← (rest.take n).mapM pipeParseOp
      let (m, rest2) ← (match rest.drop n with | "O" :: m :: r => m.toNat?.map (fun m => (m, r)) | _ => none)
      if rest2.length ≠ m then none else
      let ops ← rest2.mapM pipeParseOp
      let k0 : Kern := ⟨[], 1, 1⟩
      let fs0 := initOps.foldl (fun fs op => (kernelOp fs k0 op).1) FS.init
      let s0 := Sys.start fs0 (bool01 rec) (bool01 full)
      -- every operation the harness applied must be one the model's syscall guards accept
      let allValid := (ops.foldl (fun (acc : FS × Bool) op => ((kernelOp acc.1 ⟨[], 1, 1⟩ op).1, acc.2 && validOp acc.1 op)) (fs0, true)).2
      let (fin, evs) := s0.run ops
      let tree := sortStr ((fin.fs.ents.filter (fun (e : Ent) => isUnder ["W"] e.path)).map
        (fun (e : Ent) => showP e.path ++ (if e.isDir then "/" else "")))
      some (" ; ".intercalate (evs.map (fun l => ",".intercalate (canonEvents l))) ++ " | tree=" ++ showList tree ++
            s!" stopped={b01 fin.stopped} crashed={b01 fin.crashed} valid={b01 allValid}")).getD "bad-op"
  | _ => "bad-op"

/-- `pipeburst <recursive> <full> I <n> op*n B <b> (<m> op*m)*b` : every group of operations is one burst, read in one
    batch after its last operation (`Sys.burst`); per burst: the delivered events and whether the burst consists of
    valid simple operations only (the regime of `burst_simple`) -/
def pipeBurstLine (ts : List String) : String :=
  match ts with
  | rec :: full :: "I" :: n :: rest =>
    (do
      let n ← n.toNat?
      if rest.length < n then none else
      let initOps ← (rest.take n).mapM pipeParseOp
      let (b, rest2) ← (match rest.drop n with | "B" :: b :: r => b.toNat?.map (fun b => (b, r)) | _ => none)
      let rec groups (fuel k : Nat) (r : List String) : Option (List (List Op)) :=
        match fuel, k with
        | _, 0 => if r.isEmpty then some [] else none
        | 0, _ => none
        | f+1, k+1 =>
          match r with
          | m :: r' => do
            let m ← m.toNat?
            if r'.length < m then none else
            let ops ← (r'.take m).mapM pipeParseOp
            let more ← groups f k (r'.drop m)
            some (ops :: more)
          | [] => none
      let bursts ← groups (b + 1) b rest2
      let k0 : Kern := ⟨[], 1, 1⟩
      let fs0 := initOps.foldl (fun fs op => (kernelOp fs k0 op).1) FS.init
      let s0 := Sys.start fs0 (bool01 rec) (bool01 full)
      let (fin, outs) := bursts.foldl (fun (acc : Sys × List String) ops =>
          let simple := if acc.1.lib.recursive then allFileB acc.1 ops else allValidNoRootB acc.1 ops
          let (s1, evs) := acc.1.burst ops
          let grow := acc.1.lib.recursive && allFillB acc.1 ops
          (s1, acc.2 ++ [",".intercalate (canonEvents evs) ++ s!" grow={b01 grow} simple={b01 simple}"])) (s0, [])
      let tree := sortStr ((fin.fs.ents.filter (fun (e : Ent) => isUnder ["W"] e.path)).map
        (fun (e : Ent) => showP e.path ++ (if e.isDir then "/" else "")))
      some (" ; ".intercalate outs ++ " | tree=" ++ showList tree ++
            s!" stopped={b01 fin.stopped} crashed={b01 fin.crashed} paced={b01 (s0.lib.recursive && pacedOKB s0 bursts)}")).getD "bad-op"
  | _ => "bad-op"

/-- canonical rendering of the library's two watch maps (watch descriptors are compared through the pairing they
    induce, not by number) -/
def showMaps (lib : Lib) : String :=
  let w := sortStr (lib.wdForPath.map (fun x => showP x.1))
  let x := sortStr (lib.wdForPath.map (fun x => showP x.1 ++ ">" ++ ((lookupW lib.pathForWd x.2).map showP).getD "?"))
  let p := sortStr (lib.pathForWd.map (fun x => showP x.2))
  "W:" ++ showList w ++ "|X:" ++ showList x ++ "|P:" ++ showList p

/-- `pipemaps <recursive> <full> I <n> op*n O <m> op*m` : `_wd_for_path` / `_path_for_wd` after every drained operation -/
def pipeMapsLine (ts : List String) : String :=
  match ts with
  | rec :: full :: "I" :: n :: rest =>
    (do
      let n ← n.toNat?
      if rest.length < n then none else
      let initOps ← (rest.take n).mapM pipeParseOp
      let (m, rest2) ← (match rest.drop n with | "O" :: m :: r => m.toNat?.map (fun m => (m, r)) | _ => none)
      if rest2.length ≠ m then none else
      let ops ← rest2.mapM pipeParseOp
      let k0 : Kern := ⟨[], 1, 1⟩
      let fs0 := initOps.foldl (fun fs op => (kernelOp fs k0 op).1) FS.init
      let s0 := Sys.start fs0 (bool01 rec) (bool01 full)
      let (_, outs) := ops.foldl (fun (acc : Sys × List String) op =>
          let s1 := (acc.1.op op).1
          (s1, acc.2 ++ [if s1.stopped || s1.crashed then "-" else showMaps s1.lib])) (s0, [showMaps s0.lib])
      some (" ; ".intercalate outs)).getD "bad-op"
  | _ => "bad-op"

end WD.Driver
