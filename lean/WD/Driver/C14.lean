import WD.Model.SubEvents
import WD.Driver.Proto
namespace WD.Driver
open WD WD.Proto

/-- parse `F name` | `D name k child*k` (pre-order) with fuel -/
def parseNodes : Nat → Nat → List String → Option (List Node × List String)
  | _, 0, ts => some ([], ts)
  | 0, _, _ => none
  | fuel+1, k+1, ts =>
    match ts with
    | "F" :: n :: rest => do
      let (sibs, rest') ← parseNodes fuel k rest
      some (Node.file n.toList :: sibs, rest')
    | "D" :: n :: c :: rest => do
      let c ← c.toNat?
      let (ch, rest1) ← parseNodes fuel c rest
      let (sibs, rest2) ← parseNodes fuel k rest1
      some (Node.dir n.toList ch :: sibs, rest2)
    | _ => none

def dec14 (s : String) : PStr := if s == "%%" then [] else s.toList
def enc14 (l : PStr) : String := if l.isEmpty then "%%" else String.ofList l

def showSub (l : List SubEv) : String :=
  ",".intercalate (l.map (fun e => (if e.isDir then "D:" else "F:") ++ enc14 e.src ++ ">" ++ enc14 e.dest))

def c14Line (cmd : String) (ts : List String) : String :=
  match cmd, ts with
  | "submoved", src :: dst :: "T" :: k :: rest =>
    (do
      let k ← k.toNat?
      let (ch, rest') ← parseNodes (rest.length + 1) k rest
      if rest' ≠ [] then none else
      some (showSub (subMovedEvents (dec14 src) (dec14 dst) ch))).getD "bad-op"
  | "subcreated", dir :: "T" :: k :: rest =>
    (do
      let k ← k.toNat?
      let (ch, rest') ← parseNodes (rest.length + 1) k rest
      if rest' ≠ [] then none else
      some (showSub (subCreatedEvents (dec14 dir) ch))).getD "bad-op"
  | "rekey", [old, new, p] => enc14 (rekeyPath (dec14 old) (dec14 new) (dec14 p))
  | _, _ => "bad-op"

end WD.Driver
