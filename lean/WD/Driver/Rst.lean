import WD.Model.Restart
import WD.Driver.Proto
namespace WD.Driver
open WD.Rst WD.Proto

def rstParseOp (t : String) : Option Op :=
  if t == "start" then some .start
  else if t == "event" then some .event
  else if t == "stop" then some .stop
  else if t.startsWith "s" then (t.drop 1).toNat?.map Op.sleep
  else none

def rstShow : Obs → String
  | .spawn pid t => s!"spawn:{pid}@{t}"
  | .kill pid sig t => s!"kill:{pid}:{sig}@{t}"
  | .started tid t => s!"started:{tid}@{t}"
  | .eventRet tid t => s!"event-returned:{tid}@{t}"
  | .stopRet tid t => s!"stop-returned:{tid}@{t}"
  | .stopNoop tid t => s!"stop-noop:{tid}@{t}"

def rstReplay (s : State) : List Nat → List String → State × List String
  | [], acc => (idleAdvance s, acc)
  | tid :: rest, acc =>
    let s1 := idleAdvance s
    let line := s!"{s1.clock}:" ++ ",".intercalate ((enabledList s1).map toString) ++ s!">{tid}"
    match step s1 tid with
    | some s2 => rstReplay s2 rest (acc ++ [line])
    | none => (s1, acc ++ [line ++ "!DISABLED"])

/-- `rst <interval> <killAfter> <killDelay> <restartOnExit> L <n> life*n T <n> (<k> op*k)*n S <q> tid*q` -/
def rstLine (ts : List String) : String :=
  (do
    let (cfg, r) ← (match ts with
      | iv :: ka :: kd :: roe :: "L" :: r => do
        some (({ interval := ← iv.toNat?, killAfter := ← ka.toNat?, killDelay := ← kd.toNat?,
                 restartOnExit := bool01 roe } : Cfg), r)
      | _ => none)
    let (nl, r) ← (match r with | n :: r => n.toNat?.map (fun n => (n, r)) | _ => none)
    if r.length < nl then none else
    let lifes ← (r.take nl).mapM (fun (x : String) => if x == "-" then some none else x.toNat?.map some)
    let r := r.drop nl
    let (n, r) ← (match r with | "T" :: n :: r => n.toNat?.map (fun n => (n, r)) | _ => none)
    let rec scripts (fuel k : Nat) (r : List String) : Option (List (List Op) × List String) :=
      match fuel, k with
      | _, 0 => some ([], r)
      | 0, _ => none
      | f+1, k+1 =>
        match r with
        | m :: r' => do
          let m ← m.toNat?
          if r'.length < m then none else
          let ops ← (r'.take m).mapM rstParseOp
          let (more, r'') ← scripts f k (r'.drop m)
          some (ops :: more, r'')
        | [] => none
    let (scr, r) ← scripts (n + 1) n r
    let sched ← (match r with | "S" :: _q :: r => r.mapM (fun (x : String) => x.toNat?) | _ => none)
    let (fin, lines) := rstReplay (init cfg lifes scr) sched []
    let alldone := fin.threads.all (fun (t : Thread) => t.pc == Pc.done)
    some (" ".intercalate lines ++ " | " ++ " ".intercalate (fin.hist.map rstShow) ++
          s!" | alive={showList (fin.aliveList.map toString)} restarts={fin.restartCount} threads={fin.threads.length} done={b01 alldone} clock={fin.clock}")).getD "bad-op"

end WD.Driver
