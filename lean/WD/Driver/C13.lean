import WD.Model.Registry
import WD.Driver.Proto
namespace WD.Driver
open WD.Reg WD.Proto

def parseCall (t : String) : Option Call :=
  match t.splitOn ":" with
  | ["sch", h, w, f] => do
    let h ← h.toNat?; let w ← w.toNat?
    let f ← (match f with | "n" => some Fault.none | "c" => some Fault.ctor | "s" => some Fault.start | _ => none)
    some (.schedule h w f)
  | ["uns", w] => w.toNat?.map Call.unschedule
  | ["add", h, w] => do let h ← h.toNat?; let w ← w.toNat?; some (.addHandler h w)
  | ["rem", h, w] => do let h ← h.toNat?; let w ← w.toNat?; some (.removeHandler h w)
  | ["uall"] => some .unscheduleAll
  | ["start", "-"] => some (.start none)
  | ["start", w] => w.toNat?.map (fun w => Call.start (some w))
  | ["stop"] => some .stop
  | _ => none

def showRes : Res → String
  | .ok => "ok"
  | .raised k => "raised:" ++ k

def showEmitters (s : State) : String :=
  showList (sortStr (s.emitters.map (fun e => s!"{e.watch}:{b01 (e.started && !e.stopped)}")))

def regGo (s : State) : List Call → List String → State × List String
  | [], acc => (s, acc)
  | c :: cs, acc =>
    let (s1, r) := call s c
    regGo s1 cs (acc ++ [showRes r ++ showEmitters s1])

/-- `reg <nwatches> call*` : per call result + emitters, then the handler sets of watches 0..n-1 -/
def c13Line (ts : List String) : String :=
  match ts with
  | n :: rest =>
    (do
      let n ← n.toNat?
      let calls ← rest.mapM parseCall
      let (fin, lines) := regGo init calls []
      let hs := (List.range n).map (fun w => s!"{w}=" ++ showList (sortStr ((fin.handlersOf w).map toString)))
      some (" ".intercalate lines ++ " | " ++ " ".intercalate hs ++ s!" alive={b01 fin.alive}")).getD "bad-op"
  | _ => "bad-op"

end WD.Driver
