import WD.Model.WinEmit
import WD.Driver.Pipe
namespace WD.Driver
open WD WD.Pipe WD.Win WD.Proto

def showWAct : Act → String
  | .added => "add" | .removed => "rem" | .modified => "mod" | .renamedOld => "old" | .renamedNew => "new" | .removedSelf => "self"

def parseWAct : String → Option Act
  | "add" => some .added | "rem" => some .removed | "mod" => some .modified | "old" => some .renamedOld
  | "new" => some .renamedNew | "self" => some .removedSelf | _ => none

def showWRec (r : WRec) : String := showWAct r.act ++ ":" ++ showP r.path
def parseWRec (t : String) : Option WRec :=
  match t.splitOn ":" with
  | [a, p] => (parseWAct a).map (fun a => ⟨a, parsePath p⟩)
  | _ => none

def showTree (fs : FS) : String :=
  showList (sortStr ((fs.ents.filter (fun (e : Ent) => isUnder ["W"] e.path)).map
    (fun (e : Ent) => showP e.path ++ (if e.isDir then "/" else ""))))

/-- parse `g` groups `k op*k` -/
def takeOpGroups : Nat → List String → Option (List (List Op))
  | 0, [] => some []
  | 0, _ => none
  | g+1, k :: rest =>
    (do
      let k ← k.toNat?
      if rest.length < k then none else
      let ops ← (rest.take k).mapM pipeParseOp
      let more ← takeOpGroups g (rest.drop k)
      some (ops :: more))
  | _, _ => none

/-- `winrun <recursive> I <n> op*n G <g> (<k> op*k)*g` : the documented-semantics simulator and the emitter model
    on a history whose operations are grouped into bursts (a group of one operation = drained); operations
    Windows refuses are skipped (mask `A:`); per group the records (`R:`) and the delivered events (`E:`);
    then the theorems' statements evaluated on this instance -/
def winRunLine (ts : List String) : String :=
  match ts with
  | rec :: "I" :: n :: rest =>
    (do
      let n ← n.toNat?
      if rest.length < n then none else
      let initOps ← (rest.take n).mapM pipeParseOp
      let (g, rest2) ← (match rest.drop n with | "G" :: g :: r => g.toNat?.map (fun g => (g, r)) | _ => none)
      let groups ← takeOpGroups g rest2
      let r := bool01 rec
      let k0 : Kern := ⟨[], 1, 1⟩
      let fs0 := initOps.foldl (fun fs op => if validOp fs op then (kernelOp fs k0 op).1 else fs) FS.init
      let stepGroup := fun (acc : FS × EmSt × List String × List PEv × Bool × Bool) (ops : List Op) =>
        let (fs, st, outs, allEvs, con, drained) := acc
        -- the group's operations one after the other: records accumulate, nothing is read yet
        let (fs1, recs, mask, cEvs, cStop) := ops.foldl (fun (a : FS × List WRec × String × List PEv × Bool) op =>
            let (f, rs, m, ce, cs) := a
            if winValid f op then
              let c := winContract f r op
              (fsAfter f op, rs ++ winRecs f r op, m ++ "1", ce ++ c.1, cs || c.2)
            else (f, rs, m ++ "0", ce, cs)) (fs, [], "", [], false)
        if st.stopped then (fs1, st, outs ++ ["A:" ++ mask ++ "|R:|E:"], allEvs, con, drained) else
        let (st1, evs) := emitBatch fs1 r st recs
        let single := ops.length ≤ 1
        let out := "A:" ++ mask ++ "|R:" ++ ",".intercalate (recs.map showWRec) ++ "|E:" ++ ",".intercalate (canonEvents evs)
        (fs1, st1, outs ++ [out], allEvs ++ evs,
         con && (!single || (evs == cEvs && st1.stopped == cStop)), drained && single)
      let (fin, st, outs, evs, con, drained) := groups.foldl stepGroup (fs0, {}, [], [], true, true)
      let t0 := if r then treeW fs0 else treeW1 fs0
      let t1 := if r then treeW fin else treeW1 fin
      let rep := replay t0 evs
      let rep := if r then rep else rep.filter (fun x => x.1.length = 2)
      some (" ; ".intercalate outs ++ s!" | tree={showTree fin} replay={b01 (sameTreeB rep t1 || st.stopped)} contract={b01 con} drained={b01 drained} stopped={b01 st.stopped}")).getD "bad-op"
  | _ => "bad-op"

/-- `winemit <recursive> <lastOld|-> I <n> op*n R <k> rec*k` : the emitter model on explicit records (any
    records: malformed streams included) against the file system the operations leave -/
def winEmitLine (ts : List String) : String :=
  match ts with
  | rec :: lo :: "I" :: n :: rest =>
    (do
      let n ← n.toNat?
      if rest.length < n then none else
      let initOps ← (rest.take n).mapM pipeParseOp
      let (k, rest2) ← (match rest.drop n with | "R" :: k :: r => k.toNat?.map (fun k => (k, r)) | _ => none)
      if rest2.length ≠ k then none else
      let recs ← rest2.mapM parseWRec
      let k0 : Kern := ⟨[], 1, 1⟩
      let fs0 := initOps.foldl (fun fs op => if validOp fs op then (kernelOp fs k0 op).1 else fs) FS.init
      let st : EmSt := { lastOld := if lo == "-" then [] else parsePath lo }
      let (st1, evs) := emitBatch fs0 (bool01 rec) st recs
      some (",".intercalate (canonEvents evs) ++ s!" | old={showP st1.lastOld} stopped={b01 st1.stopped} tree={showTree fs0}")).getD "bad-op"
  | _ => "bad-op"

end WD.Driver
