import WD.Model.Events
import WD.Driver.Proto
namespace WD.Driver
open WD WD.Proto

def dec (s : String) : String := if s == "%%" then "" else s

def showOut : DispatchOut → String
  | .calls l => "calls:" ++ ",".intercalate l
  | .error k => "error:" ++ k

/-- parse `<n> tok*n` or `-` (None) -/
def optList : List String → Option (Option (List String) × List String)
  | "-" :: rest => some (none, rest)
  | n :: rest => do
    let n ← n.toNat?
    if rest.length < n then none else some (some ((rest.take n).map dec), rest.drop n)
  | [] => none

def pairTable (gs : List (List String)) : List (String × String) :=
  gs.filterMap (fun g => match g with | [a, b] => some (dec a, dec b) | _ => none)

def c15Line (cmd : String) (ts : List String) : String :=
  match cmd, ts with
  | "basedisp", [c] =>
    match EvClass.ofName? c with
    | some c => showOut (baseDispatch c)
    | none => "bad-op"
  | "patdisp", c :: src :: dst :: ign :: cs :: "P" :: rest =>
    (do
      let c ← EvClass.ofName? c
      let (inc, rest) ← optList rest
      let rest ← (match rest with | "I" :: r => some r | _ => none)
      let (exc, rest) ← optList rest
      let (k, rest) ← (match rest with | "L" :: k :: r => k.toNat?.map (fun k => (k, r)) | _ => none)
      let (lg, rest) ← takeGroups 2 k rest
      let (k2, rest) ← (match rest with | "M" :: k :: r => k.toNat?.map (fun k => (k, r)) | _ => none)
      let (mg, rest) ← takeGroups 2 k2 rest
      if rest ≠ [] then none else
      let lt := pairTable lg
      let mt := pairTable mg
      let lower : String → String := fun s => match lt.find? (fun (x : String × String) => x.1 == s) with | some x => x.2 | none => s
      let m : String → String → Bool := fun p q => mt.contains (p, q)
      let cfg : PatCfg := ⟨inc, exc, bool01 ign, bool01 cs⟩
      some (showOut (patternDispatch m lower cfg ⟨c, dec src, dec dst, false⟩))).getD "bad-op"
  | "redisp", c :: src :: dst :: ign :: "R" :: rest =>
    (do
      let c ← EvClass.ofName? c
      let (regs, rest) ← optList rest
      let rest ← (match rest with | "I" :: r => some r | _ => none)
      let (ig, rest) ← optList rest
      let (k2, rest) ← (match rest with | "M" :: k :: r => k.toNat?.map (fun k => (k, r)) | _ => none)
      let (mg, rest) ← takeGroups 2 k2 rest
      if rest ≠ [] then none else
      let mt := pairTable mg
      let rm : String → String → Bool := fun r p => mt.contains (r, p)
      let cfg : ReCfg := ⟨regs.getD [], ig.getD [], bool01 ign⟩
      some (showOut (regexDispatch rm cfg ⟨c, dec src, dec dst, false⟩))).getD "bad-op"
  | "filterpaths", cs :: "N" :: rest =>
    (do
      let (paths, rest) ← optList rest
      let rest ← (match rest with | "P" :: r => some r | _ => none)
      let (inc, rest) ← optList rest
      let rest ← (match rest with | "I" :: r => some r | _ => none)
      let (exc, rest) ← optList rest
      let (k, rest) ← (match rest with | "L" :: k :: r => k.toNat?.map (fun k => (k, r)) | _ => none)
      let (lg, rest) ← takeGroups 2 k rest
      let (k2, rest) ← (match rest with | "M" :: k :: r => k.toNat?.map (fun k => (k, r)) | _ => none)
      let (mg, rest) ← takeGroups 2 k2 rest
      if rest ≠ [] then none else
      let lt := pairTable lg
      let mt := pairTable mg
      let lower : String → String := fun s => match lt.find? (fun (x : String × String) => x.1 == s) with | some x => x.2 | none => s
      let m : String → String → Bool := fun p q => mt.contains (p, q)
      some (match filterPaths m lower (bool01 cs) inc exc (paths.getD []) with
        | none => "error:ValueError"
        | some l => "paths:" ++ ",".intercalate (l.map (fun s => if s == "" then "%%" else s)))).getD "bad-op"
  | _, _ => "bad-op"

end WD.Driver
