import WD.Model.Polling
import WD.Driver.Proto
namespace WD.Driver
open WD WD.Poll WD.Proto

def parseErr : String → Option Err
  | "ENOENT" => some .enoent | "ENOTDIR" => some .enotdir | "EINVAL" => some .einval
  | "EACCES" => some .eacces | "EOTHER" => some .eother | _ => none

mutual
/-- `N name (S ino dev isdir mtime size | E err) (L k child*k | E err)` -/
partial def parseVNode (ts : List String) : Option (VNode × List String) :=
  match ts with
  | "N" :: name :: rest => do
    let (st, rest) ← (match rest with
      | "S" :: i :: d :: k :: m :: z :: r => do
        let i ← i.toNat?; let d ← d.toNat?; let m ← m.toNat?; let z ← z.toNat?
        some ((Except.ok ⟨i, d, bool01 k, m, z⟩ : Except Err Stat), r)
      | "E" :: e :: r => (parseErr e).map (fun e => (Except.error e, r))
      | _ => none)
    match rest with
    | "L" :: k :: r => do
      let k ← k.toNat?
      let (ch, r') ← parseVNodes k r
      some (VNode.mk name st (.ok ch), r')
    | "E" :: e :: r => (parseErr e).map (fun e => (VNode.mk name st (.error e), r))
    | _ => none
  | _ => none
partial def parseVNodes (k : Nat) (ts : List String) : Option (List VNode × List String) :=
  match k with
  | 0 => some ([], ts)
  | k+1 => do
    let (n, r) ← parseVNode ts
    let (more, r') ← parseVNodes k r
    some (n :: more, r')
end

def showGroup (tag : String) (l : List Event) : String :=
  tag ++ showList (sortStr (l.map (fun e => if e.dest == "" then e.src else e.src ++ ">" ++ e.dest)))

def showGroups (gs : List (List Event)) : String :=
  match gs with
  | [fd, fm, fc, fv, dd, dm, dc, dv] =>
    " ".intercalate [showGroup "FD" fd, showGroup "FM" fm, showGroup "FC" fc, showGroup "FV" fv,
                     showGroup "DD" dd, showGroup "DM" dm, showGroup "DC" dc, showGroup "DV" dv]
  | [[e]] => "ROOTGONE[" ++ e.src ++ "]"
  | [] => "STOPPED"
  | _ => "?"

def showSnap (s : Snap) : String :=
  "P" ++ showList (sortStr (s.stats.map (fun e => s!"{e.1}:{e.2.ino}:{b01 e.2.isdir}:{e.2.mtime}:{e.2.size}")))

/-- `poll <recursive> <nstates> state*` -/
def c10Line (ts : List String) : String :=
  match ts with
  | rec :: n :: rest =>
    (do
      let n ← n.toNat?
      let (states, r) ← parseVNodes n rest
      if r ≠ [] then none else
      match states with
      | [] => none
      | s0 :: more =>
        match Emitter.start (bool01 rec) s0 with
        | none => some "start:raise"
        | some em =>
          let rec go (em : Emitter) (sts : List VNode) (acc : List String) : List String :=
            match sts with
            | [] => acc
            | s :: sts' =>
              let (em', gs) := em.poll s
              go em' sts' (acc ++ [showGroups gs ++ (if em'.stopped then " stopped" else " " ++ showSnap em'.snapshot)])
          some (" ; ".intercalate (("start:ok " ++ showSnap em.snapshot) :: go em more []))).getD "bad-op"
  | _ => "bad-op"

end WD.Driver
