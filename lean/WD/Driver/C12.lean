import WD.Model.FdProto
import WD.Driver.Proto
namespace WD.Driver
open WD.Fd WD.Proto

def fdParseRec : Char → Option Rec
  | 'p' => some .plain | 'd' => some .dirCreate | 'i' => some .ignoredRoot | _ => none

def fdName : Fd → String | .ino => "inotify" | .killR => "kill_r" | .killW => "kill_w"

def fdReplay (s : State) : List Nat → List String → State × List String
  | [], acc => (s, acc)
  | t :: rest, acc =>
    let line := ",".intercalate ((enabledList s).map toString) ++ s!">{t}"
    match step s t with
    | some s2 => fdReplay s2 rest (acc ++ [line])
    | none => (s, acc ++ [line ++ "!DISABLED"])

/-- `fd P <n> batch*n S <q> tid*q` (batch = string over p,d,i; `-` = empty)  |  `fdctor <nWatches> <failAt|->` -/
def c12Line (cmd : String) (ts : List String) : String :=
  match cmd, ts with
  | "fd", "P" :: n :: rest =>
    (do
      let n ← n.toNat?
      if rest.length < n then none else
      let plan ← (rest.take n).mapM (fun (b : String) => if b == "-" then some [] else b.toList.mapM fdParseRec)
      let sched ← (match rest.drop n with | "S" :: _q :: r => r.mapM (fun (x : String) => x.toNat?) | _ => none)
      let (fin, lines) := fdReplay (init plan) sched []
      let viol := fin.log.filterMap (fun (e : Ev) => match e with
        | .useAfterClose fd w => some s!"{w} after close of {fdName fd}"
        | .secondClose fd => some s!"second close of {fdName fd}"
        | _ => none)
      let openFds := (if fin.inoOpen then ["inotify"] else []) ++ (if fin.killROpen then ["kill_r"] else []) ++
                     (if fin.killWOpen then ["kill_w"] else [])
      some (" ".intercalate lines ++ " | viol=" ++ showList viol ++ " open=" ++ showList openFds ++
            s!" puts={fin.puts} done={b01 (allDone fin)}")).getD "bad-op"
  | "fdctor", [n, f] =>
    (do
      let n ← n.toNat?
      let f ← (if f == "-" then some none else f.toNat?.map some)
      let (o, r) := ctor n f
      some s!"open={o} raised={b01 r}").getD "bad-op"
  | "fdctortol", [n, f] =>
    (do
      let n ← n.toNat?
      let f ← f.toNat?
      let (o, r) := ctorTol n f
      some s!"open={o} raised={b01 r}").getD "bad-op"
  | _, _ => "bad-op"

end WD.Driver
