import WD.Model.Snapshot
import WD.Spec.SnapshotSpec
import WD.Driver.Proto
namespace WD.Driver
open WD WD.Proto

def parseEntry : List String → Option (Path × Stat)
  | [p, ino, dev, isdir, mt, sz] => do
    let ino ← ino.toNat?; let dev ← dev.toNat?; let mt ← mt.toNat?; let sz ← sz.toNat?
    some (p, { ino := ino, dev := dev, isdir := bool01 isdir, mtime := mt, size := sz })
  | _ => none

/-- `snapdiff <ign> R <n> <6 tokens>*n S <m> <6 tokens>*m` -/
def c09Line (ts : List String) : String :=
  match ts with
  | ign :: "R" :: n :: rest =>
    match n.toNat? with
    | none => "bad-op"
    | some n =>
      match takeGroups 6 n rest with
      | some (rg, "S" :: m :: rest2) =>
        match m.toNat? with
        | none => "bad-op"
        | some m =>
          match takeGroups 6 m rest2 with
          | some (sg, []) =>
            match rg.mapM parseEntry, sg.mapM parseEntry with
            | some re, some se =>
              let ref := Snap.build re
              let snap := Snap.build se
              let d := diff (bool01 ign) ref snap
              let l := d.lists ref snap
              let fmt (l : DiffLists) : String :=
                s!"fc={showList (sortStr l.filesCreated)} fd={showList (sortStr l.filesDeleted)} fm={showList (sortStr l.filesModified)} fv={showPairs l.filesMoved} dc={showList (sortStr l.dirsCreated)} dd={showList (sortStr l.dirsDeleted)} dm={showList (sortStr l.dirsModified)} dv={showPairs l.dirsMoved} rp={showList (sortStr ref.paths)} sp={showList (sortStr snap.paths)}"
              let wf := Spec.entriesWF re && Spec.entriesWF se
              let specStr :=
                if wf && !(bool01 ign) then
                  let sd : Diff := { created := Spec.created ref snap, deleted := Spec.deleted ref snap,
                                     moved := Spec.moved ref snap, modified := Spec.modified ref snap }
                  fmt (sd.lists ref snap)
                else "nospec"
              fmt l ++ " | " ++ specStr ++ " | wf=" ++ b01 wf
            | _, _ => "bad-op"
          | _ => "bad-op"
      | _ => "bad-op"
  | _ => "bad-op"

end WD.Driver
