/-
  WD.Driver.Proto — helpers for the line protocol (tokens separated by single spaces,
  strings percent-encoded by the harness so that a token never contains a space).
  Not part of any theorem; part of the trusted correspondence machinery.
-/
namespace WD.Proto

def tokens (line : String) : List String :=
  (line.splitOn " ").filter (· ≠ "")

def sortStr (l : List String) : List String :=
  (l.toArray.qsort (· < ·)).toList

def showList (l : List String) : String := "[" ++ ",".intercalate l ++ "]"
def showPairs (l : List (String × String)) : String :=
  showList (sortStr (l.map (fun x => x.1 ++ ">" ++ x.2)))

def bool01 (s : String) : Bool := s == "1"
def b01 (b : Bool) : String := if b then "1" else "0"

/-- take `n` groups of `k` tokens -/
def takeGroups (k : Nat) : Nat → List String → Option (List (List String) × List String)
  | 0, ts => some ([], ts)
  | n+1, ts =>
    if ts.length < k then none else
    match takeGroups k n (ts.drop k) with
    | some (gs, rest) => some (ts.take k :: gs, rest)
    | none => none

end WD.Proto
