import WD.Model.PathType
import WD.Driver.C20
namespace WD.Driver
open WD.PT WD.Proto

/-- the byte-string instance of the codec (event paths are compared on the bytes level: the harness sends
    os.fsencode of what the real observer delivered) -/
def idCodec : Codec B := ⟨id, id, joinB⟩

def showEv (p : EvPath B) : String :=
  match p with
  | .b v => "b:" ++ toHex v
  | .s v => "s:" ++ toHex v

/-- `evpath <native|sub|polling> <s|b|p> <roothex> <ndir> hex* <nbelow> hex*` -/
def c19Line (ts : List String) : String :=
  match ts with
  | kind :: wk :: roothex :: nd :: rest =>
    (do
      let root ← hexBytes roothex.toList
      let w : WatchArg B := match wk with | "b" => .bytesPath root | "p" => .pathObj root | _ => .strPath root
      let nd ← nd.toNat?
      if rest.length < nd + 1 then none else
      let dir ← (rest.take nd).mapM (fun (h : String) => hexBytes h.toList)
      let nb ← (rest.drop nd).head?.bind String.toNat?
      let belowT := rest.drop (nd + 1)
      if belowT.length ≠ nb then none else
      let below ← belowT.mapM (fun (h : String) => hexBytes h.toList)
      let p := match kind with
        | "native" => nativePath idCodec w (dir ++ below)
        | "sub" => nativeSubPath idCodec w dir below
        | _ => pollingPath idCodec w (dir ++ below)
      some (showEv p)).getD "bad-op"
  | _ => "bad-op"

end WD.Driver
