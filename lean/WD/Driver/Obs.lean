import WD.Model.Observer
import WD.Proofs.Observer.ModelX
import WD.Driver.Proto
namespace WD.Driver
open WD.Obs WD.Proto

def obsParseOp (t : String) : Option Op :=
  match t.splitOn ":" with
  | ["sch", h, w, f] => do let h ← h.toNat?; let w ← w.toNat?; let f ← f.toNat?; some (.schedule h w f)
  | ["uns", w] => w.toNat?.map Op.unschedule
  | ["add", h, w] => do let h ← h.toNat?; let w ← w.toNat?; some (.addHandler h w)
  | ["rem", h, w] => do let h ← h.toNat?; let w ← w.toNat?; some (.removeHandler h w)
  | ["uall"] => some .unscheduleAll
  | ["start"] => some .start
  | ["stop"] => some .stop
  | ["join"] => some .join
  | ["raise"] => some .raiseExc
  | _ => none

def obsShow : Obs → String
  | .enq w v _ => s!"enq:{w}:{v}"
  | .enqStop => "enq:STOP"
  | .drop w v => s!"drop:{w}:{v}"
  | .dropStop => "drop:STOP"
  | .call h w v _ => s!"call:{h}:{w}:{v}"
  | .ret l i r => s!"ret:{l}:{i}:{r}"
  | .died n => s!"died:{n}"
  | _ => ""

def takeOps (ts : List String) : Option (List Op × List String) :=
  match ts with
  | n :: rest => do
    let n ← n.toNat?
    if rest.length < n then none else
    let ops ← (rest.take n).mapM obsParseOp
    some (ops, rest.drop n)
  | [] => none

def takeMany {α : Type} (f : List String → Option (α × List String)) : Nat → List String → Option (List α × List String)
  | 0, ts => some ([], ts)
  | k+1, ts => do
    let (a, r) ← f ts
    let (more, r') ← takeMany f k r
    some (a :: more, r')

def obsReplay (s : State) : List String → List String → State × List String
  | [], acc => (s, acc)
  | name :: rest, acc =>
    let en := enabledList s
    let names := en.filterMap (fun i => (s.thread? i).map (·.name))
    let line := ",".intercalate names ++ ">" ++ name
    match (List.range s.threads.length).find? (fun i => ((s.thread? i).map (·.name)) == some name) with
    | some ti =>
      match step s ti with
      | some s2 => obsReplay s2 rest (acc ++ [line])
      | none => (s, acc ++ [line ++ "!DISABLED"])
    | none => (s, acc ++ [line ++ "!NOTHREAD"])

/-- the schedule as thread indices (names resolved along the run) -/
def obsIndexSched (s : State) : List String → List Nat
  | [] => []
  | name :: rest =>
    match (List.range s.threads.length).find? (fun i => ((s.thread? i).map (·.name)) == some name) with
    | some ti =>
      match step s ti with
      | some s2 => ti :: obsIndexSched s2 rest
      | none => []
    | none => []

/-- `obs C <n> (<k> op*k)*n CB <m> (<hid> <j> (<k> op*k)*j)*m EM <p> (<wid> <k> v*k)*p S <q> name*q` -/
def obsLine (ts : List String) : String :=
  (do
    let (n, r) ← (match ts with | "C" :: n :: r => n.toNat?.map (fun n => (n, r)) | _ => none)
    let (clients, r) ← takeMany takeOps n r
    let (m, r) ← (match r with | "CB" :: m :: r => m.toNat?.map (fun m => (m, r)) | _ => none)
    let (cbs, r) ← takeMany (fun ts => match ts with
      | h :: j :: rest => do
        let h ← h.toNat?; let j ← j.toNat?
        let (scripts, r') ← takeMany takeOps j rest
        some ((h, scripts), r')
      | _ => none) m r
    let (p, r) ← (match r with | "EM" :: p :: r => p.toNat?.map (fun p => (p, r)) | _ => none)
    let (ems, r) ← takeMany (fun ts => match ts with
      | w :: k :: rest => do
        let w ← w.toNat?; let k ← k.toNat?
        if rest.length < k then none else
        let vs ← (rest.take k).mapM (fun (x : String) => x.toNat?)
        some ((w, vs), rest.drop k)
      | _ => none) p r
    let sched ← (match r with | "S" :: _q :: names => some names | _ => none)
    let (fin, lines) := obsReplay (init clients cbs ems) sched []
    -- the hypothesis of the `_partial` theorems of WD.Props.C04, evaluated on this very run
    let idxSched := (obsIndexSched (init clients cbs ems) sched)
    let ok := WD.ProofsObs.runOk (init clients cbs ems) idxSched
    let oneD := decide ((fin.threads.filter (fun (t : Thread) => t.kind == Kind.dispatcher)).length ≤ 1)
    let left := fin.threads.filter (fun (t : Thread) => t.pc != Pc.done) |>.map (fun (t : Thread) => t.name)
    -- the hypotheses and conclusions of the global theorems of WD.Props.C06, evaluated on the final state
    let quiescent := (List.range fin.threads.length).all (fun ti => !enabled fin ti)
    let idle := fin.threads.all (fun (t : Thread) => match t.pc with | .done | .joinD | .dWait | .eWait => true | _ => false)
    let stopOk := fin.hist.contains (Obs.did .stop "ok")
    let regEmpty := fin.regEm.isEmpty
    some (" ".intercalate lines ++ " | " ++ " ".intercalate ((fin.hist.map obsShow).filter (· != "")) ++ " | left=[" ++ ",".intercalate left ++ "]" ++ s!" # runOk={b01 ok} oneDispatcher={b01 oneD} quiescent={b01 quiescent} idle={b01 idle} stopOk={b01 stopOk} regEmpty={b01 regEmpty} allDone={b01 left.isEmpty}")).getD "bad-op"

end WD.Driver
