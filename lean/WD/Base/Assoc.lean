/-
  WD.Base.Assoc — hand-rolled association lists (Python `dict` with insertion order),
  core Lean only.  The uniqueness invariant is kept as a separate predicate (`keysNodup`),
  never as a subtype, so that models stay plain computable functions.
-/
namespace WD

variable {α : Type} {β : Type} [DecidableEq α]

/-- `dict.get(k)` -/
def alookup (k : α) : List (α × β) → Option β
  | [] => none
  | (k', v) :: t => if k' = k then some v else alookup k t

/-- `del d[k]` (all occurrences; under `keysNodup` there is at most one) -/
def aerase (k : α) : List (α × β) → List (α × β)
  | [] => []
  | (k', v) :: t => if k' = k then aerase k t else (k', v) :: aerase k t

/-- `d[k] = v` : overwrite in place when present (Python keeps the original position),
    append otherwise. -/
def ainsert (k : α) (v : β) : List (α × β) → List (α × β)
  | [] => [(k, v)]
  | (k', v') :: t => if k' = k then (k, v) :: t else (k', v') :: ainsert k v t

def akeys (l : List (α × β)) : List α := l.map Prod.fst

def keysNodup (l : List (α × β)) : Prop := (akeys l).Nodup

@[simp] theorem alookup_nil (k : α) : alookup k ([] : List (α × β)) = none := rfl

theorem alookup_cons (k k' : α) (v : β) (t : List (α × β)) :
    alookup k ((k', v) :: t) = if k' = k then some v else alookup k t := rfl

theorem alookup_some_mem {k : α} {v : β} {l : List (α × β)} (h : alookup k l = some v) :
    (k, v) ∈ l := by
  induction l with
  | nil => simp at h
  | cons hd t ih =>
    obtain ⟨k', v'⟩ := hd
    rw [alookup_cons] at h
    by_cases hk : k' = k
    · simp [hk] at h; subst hk; subst h; simp
    · simp [hk] at h; exact List.mem_cons_of_mem _ (ih h)

theorem alookup_isSome_iff {k : α} {l : List (α × β)} :
    (alookup k l).isSome ↔ k ∈ akeys l := by
  induction l with
  | nil => simp [akeys]
  | cons hd t ih =>
    obtain ⟨k', v'⟩ := hd
    rw [alookup_cons]
    by_cases hk : k' = k
    · simp [hk, akeys]
    · simp only [hk, if_false, ih, akeys, List.map_cons, List.mem_cons]
      constructor
      · intro h; exact Or.inr h
      · rintro (h | h)
        · exact absurd h.symm hk
        · exact h

theorem alookup_none_iff {k : α} {l : List (α × β)} :
    alookup k l = none ↔ k ∉ akeys l := by
  rw [← alookup_isSome_iff]; cases alookup k l <;> simp

theorem mem_alookup {k : α} {v : β} {l : List (α × β)} (hnd : keysNodup l) (h : (k, v) ∈ l) :
    alookup k l = some v := by
  induction l with
  | nil => simp at h
  | cons hd t ih =>
    obtain ⟨k', v'⟩ := hd
    rw [alookup_cons]
    simp only [keysNodup, akeys, List.map_cons, List.nodup_cons] at hnd
    by_cases hk : k' = k
    · simp only [hk, if_true]
      rcases List.mem_cons.mp h with h | h
      · cases h; rfl
      · exfalso; apply hnd.1; subst hk
        exact List.mem_map.mpr ⟨(k', v), h, rfl⟩
    · simp only [hk, if_false]
      rcases List.mem_cons.mp h with h | h
      · cases h; exact absurd rfl hk
      · exact ih hnd.2 h

theorem alookup_some_iff {k : α} {v : β} {l : List (α × β)} (hnd : keysNodup l) :
    alookup k l = some v ↔ (k, v) ∈ l :=
  ⟨alookup_some_mem, mem_alookup hnd⟩

theorem mem_akeys_of_mem {k : α} {v : β} {l : List (α × β)} (h : (k, v) ∈ l) : k ∈ akeys l :=
  List.mem_map.mpr ⟨(k, v), h, rfl⟩

theorem alookup_ainsert_self (k : α) (v : β) (l : List (α × β)) :
    alookup k (ainsert k v l) = some v := by
  induction l with
  | nil => simp [ainsert, alookup_cons]
  | cons hd t ih =>
    obtain ⟨k', v'⟩ := hd
    by_cases hk : k' = k
    · simp [ainsert, hk, alookup_cons]
    · simp [ainsert, hk, alookup_cons, ih]

theorem alookup_ainsert_ne {k k₂ : α} (v : β) (l : List (α × β)) (hne : k ≠ k₂) :
    alookup k₂ (ainsert k v l) = alookup k₂ l := by
  induction l with
  | nil => simp [ainsert, alookup_cons, hne]
  | cons hd t ih =>
    obtain ⟨k', v'⟩ := hd
    by_cases hk : k' = k
    · subst hk; simp [ainsert, alookup_cons, hne]
    · by_cases hk2 : k' = k₂
      · subst hk2; simp [ainsert, hk, alookup_cons]
      · simp [ainsert, hk, alookup_cons, hk2, ih]

theorem akeys_ainsert (k : α) (v : β) (l : List (α × β)) :
    akeys (ainsert k v l) = if k ∈ akeys l then akeys l else akeys l ++ [k] := by
  induction l with
  | nil => simp [ainsert, akeys]
  | cons hd t ih =>
    obtain ⟨k', v'⟩ := hd
    by_cases hk : k' = k
    · subst hk; simp [ainsert, akeys]
    · have hk' : ¬ k = k' := fun h => hk h.symm
      simp only [ainsert, hk, if_false, akeys, List.map_cons, List.mem_cons, hk', false_or] at ih ⊢
      rw [ih]; split <;> simp_all

theorem keysNodup_ainsert (k : α) (v : β) {l : List (α × β)} (h : keysNodup l) :
    keysNodup (ainsert k v l) := by
  unfold keysNodup at *
  rw [akeys_ainsert]
  split
  · exact h
  · rename_i hk
    rw [List.nodup_append]
    refine ⟨h, by simp, ?_⟩
    intro a ha b hb
    simp at hb; subst hb
    intro hab; subst hab; exact hk ha

theorem alookup_aerase_self (k : α) (l : List (α × β)) : alookup k (aerase k l) = none := by
  induction l with
  | nil => rfl
  | cons hd t ih =>
    obtain ⟨k', v'⟩ := hd
    by_cases hk : k' = k
    · simp [aerase, hk, ih]
    · simp [aerase, hk, alookup_cons, ih]

theorem alookup_aerase_ne {k k₂ : α} (l : List (α × β)) (hne : k ≠ k₂) :
    alookup k₂ (aerase k l) = alookup k₂ l := by
  induction l with
  | nil => rfl
  | cons hd t ih =>
    obtain ⟨k', v'⟩ := hd
    by_cases hk : k' = k
    · subst hk; simp [aerase, alookup_cons, hne, ih]
    · by_cases hk2 : k' = k₂
      · subst hk2; simp [aerase, hk, alookup_cons]
      · simp [aerase, hk, alookup_cons, hk2, ih]

theorem akeys_aerase_sublist (k : α) (l : List (α × β)) :
    (akeys (aerase k l)).Sublist (akeys l) := by
  induction l with
  | nil => simp [aerase, akeys]
  | cons hd t ih =>
    obtain ⟨k', v'⟩ := hd
    by_cases hk : k' = k
    · simp only [aerase, hk, if_true, akeys, List.map_cons]
      exact List.Sublist.cons _ ih
    · simp only [aerase, hk, if_false, akeys, List.map_cons]
      exact List.Sublist.cons_cons _ ih

theorem keysNodup_aerase (k : α) {l : List (α × β)} (h : keysNodup l) :
    keysNodup (aerase k l) :=
  List.Sublist.nodup (akeys_aerase_sublist k l) h

end WD
