/-
  C20 (decoders) — the raw Windows notification buffer and the raw inotify buffer are decoded into
  exactly the records that were encoded, for every record count, name length and padding.
  C20 (translation layers) — the ReadDirectoryChangesW and FSEvents emitters (WD.Win, WD.Mac: models of
  `WindowsApiEmitter.queue_events` / `FSEventsEmitter.queue_events`, tied to the real classes on every run)
  turn the native notifications that documented-semantics simulators (`winRecs`, `macEvents`: ASSUMPTIONS
  about operating systems that cannot be observed here) render for any valid history, every operation
  drained, into the per-operation contract of the layer; replaying that stream reproduces the tree.
-/
import WD.Proofs.Decoders
import WD.Proofs.Mac.Sticky
import WD.Proofs.Win.Burst
import WD.Proofs.Win.BurstGrow
namespace WD.C20
open WD.Dec

/-- well-formed inotify record: 32-bit fields, name bytes are bytes and the name does not end in NUL
    (the kernel's names never contain NUL; `rstrip` would eat trailing ones) -/
def InoOk (r : InoRec) (pad : Nat) : Prop :=
  r.wd < 2 ^ 32 ∧ r.mask < 2 ^ 32 ∧ r.cookie < 2 ^ 32 ∧ r.name.length + pad < 2 ^ 32 ∧
  (∀ b ∈ r.name, b < 256) ∧ r.name.getLast? ≠ some 0

theorem inotify_decode_encode (rs : List (InoRec × Nat)) (h : ∀ x ∈ rs, InoOk x.1 x.2) :
    decodeIno (encodeIno rs) = rs.map Prod.fst :=
  ProofsDec.inotify_decode_encode rs h

/-- well-formed FILE_NOTIFY_INFORMATION: 32-bit fields, UTF-16 code units -/
def WinOk (r : WinRec) (pad : Nat) : Prop :=
  r.action < 2 ^ 32 ∧ 12 + 2 * r.name.length + pad < 2 ^ 32 ∧ (∀ u ∈ r.name, u < 65536)

theorem win_decode_encode (rs : List (WinRec × Nat)) (hne : rs ≠ []) (h : ∀ x ∈ rs, WinOk x.1 x.2) :
    decodeWin (encodeWin rs) (encodeWin rs).length = rs.map Prod.fst :=
  ProofsDec.win_decode_encode rs hne h

/-- an empty read decodes to nothing -/
theorem win_empty (buf : Bytes) : decodeWin buf 0 = [] := by
  simp [decodeWin, parseWin]

/-- non-vacuity -/
example : decodeIno (encodeIno [(⟨1, 256, 0, [97, 98]⟩, 14), (⟨2, 1024, 0, []⟩, 0)]) = [⟨1, 256, 0, [97, 98]⟩, ⟨2, 1024, 0, []⟩] := by
  decide +kernel
example : decodeWin (encodeWin [(⟨1, [0xFEFF, 120]⟩, 0), (⟨3, [97]⟩, 2)]) 34 = [⟨1, [0xFEFF, 120]⟩, ⟨3, [97]⟩] := by
  decide +kernel


/- ======================= the translation layers ======================= -/
open WD.Pipe

/-- Windows: for every history Windows accepts (`winFsValid`: the syscalls' guards, no rename onto an existing
    name), every operation drained, however each operation's records are cut into reads, the delivered stream is
    the Windows contract's, operation by operation: a rename inside the watched tree is one moved event with both
    paths plus synthetic events for the descendants, a move in / out is a created / deleted event, the removal of
    the root stops the emitter (`Win.winContract`) -/
theorem win_contract_refined (fs : FS) (hwf : fs.WF) (recursive : Bool) (ops : List (Op × List Nat))
    (hv : Win.winFsValid fs (ops.map Prod.fst) = true) :
    ((Win.WSys.mk fs {} recursive).runCuts ops).2 = Win.winContractRun fs recursive (ops.map Prod.fst) := by
  rw [Win.runCuts_eq_run]
  exact Win.run_contract ⟨fs, {}, recursive⟩ _ hwf rfl hv

/-- Windows, C01: replaying the delivered created / deleted / moved events on the tree as it stood at the start gives
    the tree that exists afterwards (recursive watch: the whole tree; non-recursive: the root's direct children) -/
theorem win_replay (fs : FS) (hwf : fs.WF) (ops : List Op) (hv : Win.winFsValid fs ops = true) (hroot : Op.rmdir ["W"] ∉ ops) :
    sameTree (replay (treeW fs) ((Win.WSys.mk fs {} true).run ops).2.flatten) (treeW (fsRun fs ops)) ∧
    sameTree (replay (treeW1 fs) ((Win.WSys.mk fs {} false).run ops).2.flatten) (treeW1 (fsRun fs ops)) := by
  rw [Win.run_contract ⟨fs, {}, true⟩ _ hwf rfl hv, Win.run_contract ⟨fs, {}, false⟩ _ hwf rfl hv]
  exact ⟨Win.win_replay_run hwf ops hv hroot, Win.win_replayFlat_run hwf ops hv hroot⟩

/-- Windows: extra MODIFIED records anywhere in a read (LAST_WRITE / ATTRIBUTES notifications of parents) change
    neither the emitter's state nor the replayed tree -/
theorem win_noise (fs : FS) (recursive : Bool) (st : Win.EmSt) (recs recs' : List Win.WRec) (h : Win.Noisy recs recs') :
    (Win.emitBatch fs recursive st recs').1 = (Win.emitBatch fs recursive st recs).1 ∧
    ∀ t, replay t (Win.emitBatch fs recursive st recs').2 = replay t (Win.emitBatch fs recursive st recs).2 :=
  Win.noise_irrelevant fs recursive st h

/-- Windows: a buffer cut between the two records of a rename (or anywhere else) changes nothing -/
theorem win_cut (fs : FS) (recursive : Bool) (st : Win.EmSt) (a b : List Win.WRec) :
    Win.emitBatches fs recursive st [a, b] = Win.emitBatch fs recursive st (a ++ b) := by
  rw [Win.emitBatches_flatten]; simp

/-- Windows, several operations per read: a burst of FILE operations (creations, writes, attribute changes, removals,
    renames and moves of files) whose records reach `queue_events` in ONE read after the last of them - the emitter then
    looks at the file system as it is at that moment - leaves the emitter in the same state and delivers the same events,
    in the same order, as one read per operation (so contract and replay carry over: `win_contract_refined`, `win_replay`).
    Bursts that create, rename or remove directories are not covered: the emitter's `os.path.isdir` / directory walk then
    sees a later file system (explored on the real emitter, judged by the replay predicate). -/
theorem win_burst_files_partial (s : Win.WSys) (ops : List Op) (hwf : s.fs.WF) (hs : s.st.stopped = false)
    (hv : Win.winAllFile s.fs ops = true) :
    s.burst ops = ((s.run ops).1, (s.run ops).2.flatten) :=
  Win.burst_files ops s hwf hs hv

/-- non-vacuity: create, write, rename, remove, re-create the old name - five operations in one read -/
example :
    let s : Win.WSys := ⟨fsRun FS.init [.mkdir ["W", "d"]], {}, true⟩
    let ops := [Op.create ["W", "d", "a"], .write ["W", "d", "a"], .rename ["W", "d", "a"] ["W", "b"], .unlink ["W", "b"],
                .create ["W", "d", "a"]]
    Win.winAllFile s.fs ops = true ∧
    (s.burst ops).2.map PEv.toEvent =
      [⟨.FileCreatedEvent, "W/d/a", "", false⟩, ⟨.FileModifiedEvent, "W/d/a", "", false⟩,
       ⟨.FileMovedEvent, "W/d/a", "W/b", false⟩, ⟨.FileDeletedEvent, "W/b", "", false⟩,
       ⟨.FileCreatedEvent, "W/d/a", "", false⟩] := by
  decide +kernel

/-- Windows, several operations per read, GROWTH: a burst of mkdirs and file creations at any depth (`mkdir -p` + populate)
    whose records reach `queue_events` in ONE read after the last of them, recursive watch or not.  One read per operation
    and one read per burst do NOT deliver the same list here: the emitter asks `os.path.isdir` and walks a new directory
    when it gets to its record, i.e. it sees what the later operations of the burst put inside, and those entries have
    records of their own - they are announced twice.  What holds: the emitter's state is untouched and replaying the
    delivered stream on the tree before the burst gives the tree after it (recursive: the whole tree; non-recursive: the
    root's direct children). -/
theorem win_burst_grow_partial (s : Win.WSys) (ops : List Op) (hwf : s.fs.WF) (hs : s.st.stopped = false)
    (hv : allGrow s.fs ops = true) :
    (s.burst ops).1 = { s with fs := fsRun s.fs ops } ∧
    sameTree (replay (Win.treeOf s.recursive s.fs) (s.burst ops).2) (Win.treeOf s.recursive (fsRun s.fs ops)) :=
  Win.burst_grow s ops hwf hs hv

/-- non-vacuity: a directory, a directory and a file inside it, all in one read: `W/a/b` and `W/a/f` are announced twice -/
example :
    let s : Win.WSys := ⟨FS.init, {}, true⟩
    let ops := [Op.mkdir ["W", "a"], .mkdir ["W", "a", "b"], .create ["W", "a", "f"]]
    allGrow s.fs ops = true ∧
    (s.burst ops).2.map PEv.toEvent =
      [⟨.DirCreatedEvent, "W/a", "", false⟩, ⟨.DirCreatedEvent, "W/a/b", "", true⟩, ⟨.FileCreatedEvent, "W/a/f", "", true⟩,
       ⟨.DirCreatedEvent, "W/a/b", "", false⟩, ⟨.FileCreatedEvent, "W/a/f", "", false⟩] := by
  decide +kernel

/-- FSEvents: for every such history, every operation drained, the delivered stream is the FSEvents contract's
    (`Mac.macContract`), operation by operation; a non-recursive watch delivers the part of it that its filter lets
    through -/
theorem mac_contract_refined (fs : FS) (hwf : fs.WF) (recursive : Bool) (ops : List Op) (hv : Win.winFsValid fs ops = true) :
    ((Mac.MSys.mk fs {} recursive).run ops).2 = Mac.filterRun recursive (Mac.macContractRun fs ops) :=
  Mac.run_contract ⟨fs, {}, recursive⟩ ops hwf rfl (fun _ h => by cases h) hv

/-- FSEvents, C01 (recursive watch): replaying the delivered stream reproduces the tree -/
theorem mac_replay (fs : FS) (hwf : fs.WF) (ops : List Op) (hv : Win.winFsValid fs ops = true) (hroot : Op.rmdir ["W"] ∉ ops) :
    sameTree (replay (treeW fs) ((Mac.MSys.mk fs {} true).run ops).2.flatten) (treeW (fsRun fs ops)) := by
  rw [mac_contract_refined fs hwf true ops hv]
  exact Mac.mac_replay_run hwf ops hv hroot

/-- FSEvents, flags sticking to an item (recursive watch): whatever created / modified / inode-meta flags re-appear
    on the native events of each operation of a valid history (one arbitrary choice per event: `stickyLens`), the
    delivered stream still replays to the final tree — a spurious created flag is either suppressed by the set of
    inodes already announced or harmless (the item exists, or its removal / move follows in the same event) -/
theorem mac_sticky_replay (fs : FS) (hwf : fs.WF) (oss : List (Op × List Mac.Sticky))
    (hv : Win.winFsValid fs (oss.map Prod.fst) = true) (hroot : Op.rmdir ["W"] ∉ oss.map Prod.fst) (hl : Mac.stickyLens fs oss) :
    sameTree (replay (treeW fs) ((Mac.MSys.mk fs {} true).runSticky oss).2.flatten) (treeW (fsRun fs (oss.map Prod.fst))) :=
  Mac.sticky_run ⟨fs, {}, true⟩ rfl oss hwf rfl (fun _ h => by cases h) hv hroot hl

/-- FSEvents, a callback boundary between the two native events of a rename inside the tree: the emitter falls back
    to a deleted event, a created event and synthetic created events (`Mac.cutStream`: exactly what the two
    callbacks deliver, `Mac.cut_rename_emits`), and that stream still replays to the tree after the rename -/
theorem mac_cut_partial (fs : FS) (hwf : fs.WF) (st : Mac.MSt) (p q : P) (x : Ent) (hx : fs.find? p = some x)
    (hv : Win.winValid fs (.rename p q) = true) (hp : Mac.inW p = true) (hq : Mac.inW q = true) :
    (∃ e1 e2, Mac.macEvents fs (.rename p q) = [e1] ++ [e2] ∧
      (Mac.emitBatch (fsAfter fs (.rename p q)) true st [e1]).2 ++
      (Mac.emitBatch (fsAfter fs (.rename p q)) true (Mac.emitBatch (fsAfter fs (.rename p q)) true st [e1]).1 [e2]).2 =
        Mac.cutStream fs p q (fs.isDir p)) ∧
    sameTree (replay (treeW fs) (Mac.cutStream fs p q (fs.isDir p))) (treeW (fsAfter fs (.rename p q))) := by
  obtain ⟨h1, h2, h3⟩ := Mac.cut_rename_emits hwf st p q hv hp hq x hx
  have hd : fs.isDir p = x.isDir := by simp [FS.isDir, hx]
  exact ⟨⟨_, _, h1, by rw [h2, h3, hd]; rfl⟩, Mac.cut_rename_replay hwf p q hv hp hq⟩

/-- FSEvents, non-recursive watch: whatever the callback carries, nothing below the root's direct children is
    reported -/
theorem mac_nonrecursive_shallow (fs : FS) (st : Mac.MSt) (evs : List Mac.MEv) :
    ∀ e ∈ (Mac.emitBatch fs false st evs).2, e.src = ["W"] ∨ parentOf e.src = ["W"] ∨ parentOf e.dest = ["W"] :=
  Mac.flat_shallow fs st evs

/-- non-vacuity: a populated directory moves in, is renamed inside and moves out again; a rename cut in two reads -/
example : Win.winFsValid (fsRun FS.init [.mkdir ["O", "d"], .create ["O", "d", "x"]])
    [.rename ["O", "d"] ["W", "d"], .rename ["W", "d"] ["W", "e"], .rename ["W", "e"] ["O", "e"]] = true := by decide +kernel
example : ((Win.WSys.mk (fsRun FS.init [.mkdir ["W", "d"], .create ["W", "d", "x"]]) {} true).op (.rename ["W", "d"] ["W", "e"]) [0]).2 =
    [mkEv .DirMovedEvent ["W", "d"] ["W", "e"], mkEv .FileMovedEvent ["W", "d", "x"] ["W", "e", "x"] true] := by decide +kernel
example : ((Mac.MSys.mk (fsRun FS.init [.mkdir ["W", "d"], .create ["W", "d", "x"]]) {} true).op (.rename ["W", "d"] ["W", "e"])).2 =
    [mkEv .DirMovedEvent ["W", "d"] ["W", "e"], dirMod ["W", "d"], dirMod ["W", "e"],
     mkEv .FileMovedEvent ["W", "d", "x"] ["W", "e", "x"] true] := by decide +kernel

/-- non-vacuity of the sticky theorem: created, then removed with the created flag still attached (announced: only the
    deletion goes out) -/
example : ((Mac.MSys.mk FS.init {} true).runSticky
    [(.create ["W", "a"], [{}]), (.unlink ["W", "a"], [{ created := true, modified := true }])]).2 =
    [[mkEv .FileCreatedEvent ["W", "a"], dirMod ["W", "a"]],
     [mkEv .FileModifiedEvent ["W", "a"], mkEv .FileDeletedEvent ["W", "a"], dirMod ["W", "a"]]] := by decide +kernel

end WD.C20
