/-
  C20 (decoders) — the raw Windows notification buffer and the raw inotify buffer are decoded into
  exactly the records that were encoded, for every record count, name length and padding.
  (The Windows / FSEvents translation layers are covered by the harness against documented-semantics
  simulators; see DESIGN.md — no theorem about an OS that cannot be observed here.)
-/
import WD.Proofs.Decoders
namespace WD.C20
open WD.Dec

/-- well-formed inotify record: 32-bit fields, name bytes are bytes and the name does not end in NUL
    (the kernel's names never contain NUL; `rstrip` would eat trailing ones) -/
def InoOk (r : InoRec) (pad : Nat) : Prop :=
  r.wd < 2 ^ 32 ∧ r.mask < 2 ^ 32 ∧ r.cookie < 2 ^ 32 ∧ r.name.length + pad < 2 ^ 32 ∧
  (∀ b ∈ r.name, b < 256) ∧ r.name.getLast? ≠ some 0

theorem inotify_decode_encode (rs : List (InoRec × Nat)) (h : ∀ x ∈ rs, InoOk x.1 x.2) :
    decodeIno (encodeIno rs) = rs.map Prod.fst :=
  ProofsDec.inotify_decode_encode rs h

/-- well-formed FILE_NOTIFY_INFORMATION: 32-bit fields, UTF-16 code units -/
def WinOk (r : WinRec) (pad : Nat) : Prop :=
  r.action < 2 ^ 32 ∧ 12 + 2 * r.name.length + pad < 2 ^ 32 ∧ (∀ u ∈ r.name, u < 65536)

theorem win_decode_encode (rs : List (WinRec × Nat)) (hne : rs ≠ []) (h : ∀ x ∈ rs, WinOk x.1 x.2) :
    decodeWin (encodeWin rs) (encodeWin rs).length = rs.map Prod.fst :=
  ProofsDec.win_decode_encode rs hne h

/-- an empty read decodes to nothing -/
theorem win_empty (buf : Bytes) : decodeWin buf 0 = [] := by
  simp [decodeWin, parseWin]

/-- non-vacuity -/
example : decodeIno (encodeIno [(⟨1, 256, 0, [97, 98]⟩, 14), (⟨2, 1024, 0, []⟩, 0)]) = [⟨1, 256, 0, [97, 98]⟩, ⟨2, 1024, 0, []⟩] := by
  decide +kernel
example : decodeWin (encodeWin [(⟨1, [0xFEFF, 120]⟩, 0), (⟨3, [97]⟩, 2)]) 34 = [⟨1, [0xFEFF, 120]⟩, ⟨3, [97]⟩] := by
  decide +kernel

end WD.C20
