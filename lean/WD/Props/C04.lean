/-
  C04 — Queued events reach each registered handler exactly once, in order, and no one else.
  C05 — After unschedule/remove/stop returns, the removed handler is never called again.
  For every client program (any number of client threads, any scripts, callbacks calling the API
  re-entrantly, any emitter scripts) and every schedule.
-/
import WD.Proofs.Observer
namespace WD.C04
open WD.Obs

variable (clients : List (List Op)) (cbs : List (Hid × List (List Op))) (emit : List (Wid × List Nat))
  (sched : List Nat)

/-- routing: a handler is called for an event of watch `w` only while it is registered for `w` -/
theorem routing (p q : List Obs) (h : Hid) (w : Wid) (v u : Nat)
    (hh : (run (init clients cbs emit) sched).hist = p ++ .call h w v u :: q) : registered p h w = true :=
  ProofsObs.routing clients cbs emit sched p q h w v u hh

/-- the registry and the registration history agree in every reachable state -/
theorem handlers_eq_registered (h : Hid) (w : Wid) :
    (h ∈ (run (init clients cbs emit) sched).handlersOf w) ↔
      registered (run (init clients cbs emit) sched).hist h w = true :=
  ProofsObs.handlers_eq_registered clients cbs emit sched h w

/-- only queued events are dispatched: every callback is for an entry that an emitter enqueued for
    that very watch, earlier -/
theorem dispatched_was_queued (p q : List Obs) (h : Hid) (w : Wid) (v u : Nat)
    (hh : (run (init clients cbs emit) sched).hist = p ++ .call h w v u :: q) : Obs.enq w v u ∈ p :=
  ProofsObs.dispatched_was_queued clients cbs emit sched p q h w v u hh

/-- queue entries are numbered in enqueue order ... -/
theorem enq_uids_increasing :
    (enqUids (run (init clients cbs emit) sched).hist).Pairwise (· < ·) :=
  ProofsObs.enq_uids_increasing clients cbs emit sched

/-- ... and each handler receives entries in that order, none twice.
    FULL STATEMENT (false of the MODEL, not of the code: `ProofsObs.order_at_most_once_false` exhibits a
    pair of clients that call `start()` concurrently — the second passes the started-already guard before the
    first has started the dispatcher thread, and the model then spawns two dispatcher threads, whereas
    `Thread.start` serialises on its `_started` flag; a second `start()` after the first has returned
    raises RuntimeError in model and code alike; and a script of ~2000 calls exhausts the model's step fuel):
      `∀ h, (callUids h (run (init clients cbs emit) sched).hist).Pairwise (· < ·)`
    PROVED PART: for every run in which every step completes within the model's fuel (`runOk`, an
    executable predicate that the driver evaluates on every replayed run) and `start` spawned at most
    one dispatcher. -/
theorem order_at_most_once_partial (hok : ProofsObs.runOk (init clients cbs emit) sched = true)
    (hone : ((run (init clients cbs emit) sched).threads.filter (fun t => t.kind == .dispatcher)).length ≤ 1)
    (h : Hid) : (callUids h (run (init clients cbs emit) sched).hist).Pairwise (· < ·) :=
  ProofsObs.order_at_most_once_partial clients cbs emit sched hok hone h

/-- the same with a hypothesis on the PROGRAM instead of on the run: `start()` occurs in the script of at most one
    client thread `c` (any number of times, and callbacks may call it too - every `start()` after the first finds the
    observer started and raises RuntimeError, defect D20) -/
theorem order_at_most_once_single_starter_partial (hok : ProofsObs.runOk (init clients cbs emit) sched = true) (c : Nat)
    (hc : ∀ (i : Nat) (ops : List Op), clients[i]? = some ops → Op.start ∈ ops → i = c)
    (h : Hid) : (callUids h (run (init clients cbs emit) sched).hist).Pairwise (· < ·) :=
  ProofsObs.order_at_most_once_partial clients cbs emit sched hok
    (ProofsObs.count_of_oneD (ProofsObs.oneD_of_single_starter clients cbs emit sched c hc hok)) h

/-- non-vacuity: a client that calls `start()` twice and a callback that calls it once more; one dispatcher -/
example :
    let clients : List (List Op) := [[.schedule 0 0 0, .start, .start, .stop], [.join]]
    let s0 := init clients [(0, [[.start]])] [(0, [1, 2])]
    let sched := [0, 0, 0, 2, 2, 3, 3, 3, 3, 2, 3, 3, 3, 3, 0, 0, 0, 0, 2, 3, 0, 0, 1, 1, 3, 3, 1]
    ProofsObs.runOk s0 sched = true ∧
      (∀ (i : Nat) (ops : List Op), clients[i]? = some ops → Op.start ∈ ops → i = 0) ∧
      ((run s0 sched).threads.filter (fun t => t.kind == .dispatcher)).length = 1 ∧
      callUids 0 (run s0 sched).hist = [1, 2] := by
  refine ⟨by decide +kernel, ?_, by decide +kernel, by decide +kernel⟩
  intro i ops hi hm
  match i, hi with
  | 0, _ => rfl
  | 1, hi => simp at hi; subst hi; simp at hm
  | n + 2, hi => simp at hi

/-- the dispatch of an entry starts from exactly the handlers registered for its watch at that moment -/
theorem dispatch_copy (p q : List Obs) (u : Nat) (w : Wid) (hs : List Hid)
    (hh : (run (init clients cbs emit) sched).hist = p ++ .dispatch u w hs :: q) (h : Hid) :
    h ∈ hs ↔ registered p h w = true :=
  ProofsObs.dispatch_copy clients cbs emit sched p q u w hs hh h

/-- completeness: once the dispatch of an entry has finished, every handler of the copy was either
    called with it or had been found unregistered at its turn.
    FULL STATEMENT: without the hypothesis `runOk` (it fails only through fuel exhaustion of the model:
    scripts of thousands of calls; witness in WD/Proofs/Observer/Counterexamples.lean). -/
theorem complete_partial (hok : ProofsObs.runOk (init clients cbs emit) sched = true)
    (p q r : List Obs) (u : Nat) (w : Wid) (hs : List Hid)
    (hh : (run (init clients cbs emit) sched).hist = p ++ .dispatch u w hs :: q ++ .dispatchEnd u :: r)
    (h : Hid) (hm : h ∈ hs) : (∃ v, Obs.call h w v u ∈ q) ∨ Obs.skip h u ∈ q :=
  ProofsObs.complete_partial clients cbs emit sched hok p q r u w hs hh h hm

/-- a handler is skipped only if it is no longer registered at its turn -/
theorem skip_unregistered (p q : List Obs) (h : Hid) (u : Nat)
    (hh : (run (init clients cbs emit) sched).hist = p ++ .skip h u :: q) :
    ∃ w hs, Obs.dispatch u w hs ∈ p ∧ registered p h w = false :=
  ProofsObs.skip_unregistered clients cbs emit sched p q h u hh

/-- C05: when a removing call (unschedule / remove_handler_for_watch / unschedule_all / stop) has
    returned, the handlers it removed are unregistered at that moment — from an application thread
    or re-entrantly from a callback alike.
    FULL STATEMENT: without `runOk` (fails only through fuel exhaustion of the model; witness in
    WD/Proofs/Observer/Counterexamples.lean). -/
theorem unregistered_on_return_partial (hok : ProofsObs.runOk (init clients cbs emit) sched = true)
    (p q : List Obs) (op : Op) (h : Hid) (w : Wid)
    (hh : (run (init clients cbs emit) sched).hist = p ++ .did op "ok" :: q) (hr : removes op h w = true) :
    registered p h w = false :=
  ProofsObs.unregistered_on_return_partial clients cbs emit sched hok p q op h w hh hr

/-- C05: hence no callback of a removed handler for that watch after the return, unless it was
    registered again in between (same restriction) -/
theorem nothing_after_return_partial (hok : ProofsObs.runOk (init clients cbs emit) sched = true)
    (p q r : List Obs) (op : Op) (h : Hid) (w : Wid) (v u : Nat)
    (hh : (run (init clients cbs emit) sched).hist = p ++ .did op "ok" :: q ++ .call h w v u :: r)
    (hr : removes op h w = true) : Obs.reg h w ∈ q :=
  ProofsObs.nothing_after_return_partial clients cbs emit sched hok p q r op h w v u hh hr

/-- C05: unschedule() returns only after the emitter's thread has ended (it waits in join()) -/
theorem unschedule_joins_emitter (s : State) (ti : Nat) (t : Thread) (w : Wid) (e : Eid) (o : EmObj) (ei : Nat)
    (ht : s.thread? ti = some t) (hpc : t.pc = .unschedJoin w e) (he : s.em? e = some o) (hti : o.tidx = some ei)
    (hen : enabled s ti = true) : s.threadDone ei = true :=
  ProofsObs.unschedule_joins_emitter s ti t w e o ei ht hpc he hti hen

/-- non-vacuity: handler 0 unschedules the watch from inside its first callback; handler 1 is then
    skipped for that entry and nobody is called for the second event -/
example :
    let s := run (init [[.schedule 0 0 0, .schedule 1 0 0, .start]] [(0, [[.unschedule 0]])] [(0, [1, 2])])
      [0, 0, 0, 0, 0, 1, 1, 1, 2, 2, 1, 2]
    (s.hist.filter (fun o => match o with | .call .. => true | .skip .. => true | _ => false)) =
      [.call 0 0 1 1, .skip 1 1] := by decide +kernel

/-- non-vacuity of the `runOk` hypothesis: it holds on the example run above (and the driver evaluates it
    on every run replayed against the real observer; see evidence key runs_with_runOk) -/
example :
    ProofsObs.runOk (init [[.schedule 0 0 0, .schedule 1 0 0, .start]] [(0, [[.unschedule 0]])] [(0, [1, 2])])
      [0, 0, 0, 0, 0, 1, 1, 1, 2, 2, 1, 2] = true := by decide +kernel

end WD.C04
