/-
  C03 — single operations meet their contract; every delivered event is correctly typed (native pipeline,
  recursive watch, every operation drained before the next).  The contract (`WD.Pipe.contract`) is a function of
  the file system and the operation ALONE — no kernel, no library state: create → created + parent modified
  (+ opened, closed, parent modified); rename inside the tree → one moved event with both paths + both parents
  modified + one synthetic moved event per descendant; move out → deleted (or a source-only moved event for the
  full emitter); move in → created + one synthetic created event per descendant; nothing for anything outside.
-/
import WD.Proofs.Pipeline.Theorems
import WD.Proofs.Pipeline.FlatSpec
import WD.Proofs.Pipeline.Sound
import WD.Proofs.Pipeline.BurstFiles
import WD.Proofs.Pipeline.BurstGrow
namespace WD.C03
open WD WD.Pipe

/-- REFINEMENT: for every well-formed initial tree and every history of operations the file system accepts,
    the whole pipeline (kernel records → `read_events` with its two watch maps → grouping → `queue_events`)
    delivers, operation by operation, exactly the contract's events — nothing required missing, nothing outside
    the contract added -/
theorem contract_refined (fs0 : FS) (hwf : fs0.WF) (full : Bool) (ops : List Op)
    (hv : allValid (Sys.start fs0 true full) ops = true) :
    ((Sys.start fs0 true full).run ops).2 = contractRun fs0 true full ops := by
  obtain ⟨inv, hs, hc, h4, h5⟩ := start_rec fs0 hwf full
  have := (run_rec _ ops inv hs hc hv).1
  rw [h4, h5] at this; exact this

/-- the same for a non-recursive watch (the contract then only ever concerns the root and its direct children) -/
theorem contract_refined_nonrecursive (fs0 : FS) (hwf : fs0.WF) (full : Bool) (ops : List Op)
    (hv : allValid (Sys.start fs0 false full) ops = true) :
    ((Sys.start fs0 false full).run ops).2 = contractRun fs0 false full ops := by
  obtain ⟨inv, hs, hc, h4, h5⟩ := start_flat fs0 hwf full
  have := (run_flat _ ops inv hs hc hv).1
  rw [h4, h5] at this; exact this

/-- the same, stated for one more operation after any history -/
theorem contract_step (fs0 : FS) (hwf : fs0.WF) (full : Bool) (ops : List Op) (op : Op)
    (hv : allValid (Sys.start fs0 true full) (ops ++ [op]) = true)
    (hns : ((Sys.start fs0 true full).run ops).1.stopped = false) :
    ((((Sys.start fs0 true full).run ops).1).op op).2 = (contract (fsRun fs0 ops) true full op).1 := by
  obtain ⟨inv, hs, hc, h4, h5⟩ := start_rec fs0 hwf full
  rw [allValid_append] at hv
  simp only [Bool.and_eq_true, allValid] at hv
  obtain ⟨_, r2, r3⟩ := run_rec _ ops inv hs hc hv.1
  have st := step_rec _ op (r3 hns) hns r2 hv.2.1
  rw [st.events, run_fs, h4, run_full, h5]

/-- JUSTIFIED: every event delivered for an operation is explained by that operation — `Justified` spells the
    property's clauses out: a created event names an entry (of that flavour) that exists in the tree afterwards; a
    deleted event one that existed before and is gone; a moved event's source and destination are the old and the new
    name of ONE AND THE SAME entry (same inode); a modified / opened / closed event an entry that exists; an event is
    synthetic only below a moved or newly arrived directory of the same operation, its source the same relative path
    under the old name.  (`_partial`: drained regime, recursive watch.) -/
theorem sound_partial (fs0 : FS) (hwf : fs0.WF) (full : Bool) (ops : List Op) (op : Op)
    (hv : allValid (Sys.start fs0 true full) (ops ++ [op]) = true)
    (hns : ((Sys.start fs0 true full).run ops).1.stopped = false) :
    ∀ e ∈ ((((Sys.start fs0 true full).run ops).1).op op).2,
      Justified (fsRun fs0 ops) (fsAfter (fsRun fs0 ops) op) ((((Sys.start fs0 true full).run ops).1).op op).2 e := by
  have hstep := contract_step fs0 hwf full ops op hv hns
  obtain ⟨inv, hs, hc, h4, _⟩ := start_rec fs0 hwf full
  rw [allValid_append] at hv
  simp only [Bool.and_eq_true, allValid] at hv
  obtain ⟨_, _, r3⟩ := run_rec _ ops inv hs hc hv.1
  have hwf' : (fsRun fs0 ops).WF := by
    have := (r3 hns).wf; rwa [run_fs, h4] at this
  have hvop : validOp (fsRun fs0 ops) op = true := by
    have := hv.2.1; rwa [run_fs, h4] at this
  rw [hstep]
  exact contract_sound hwf' full op hvop

/-- the flavour of every event is what the native record said (IN_ISDIR) -/
theorem typing (fs : FS) (recursive full : Bool) (ev : LEv) (e : PEv)
    (he : e ∈ (emit fs recursive full (.one ev)).1) (hns : e.syn = false)
    (hnp : e.cls ≠ .DirModifiedEvent ∨ ev.flag = .attrib ∨ ev.flag = .modify) :
    e.cls.isDirectory = ev.isDir ∨ (ev.flag = .deleteSelf ∧ e.cls = .DirDeletedEvent) := by
  obtain ⟨wd, flag, isDir, ck, name, src⟩ := ev
  have hsub : ∀ x ∈ subCreated fs src, x.syn = true := by
    intro x hx; simp only [subCreated, List.mem_map] at hx; obtain ⟨_, _, rfl⟩ := hx; rfl
  cases flag <;> cases isDir <;> cases full <;> simp [emit, mkEv] at he
  all_goals first
    | (subst he; simp [EvClass.isDirectory] at hnp ⊢; done)
    | (rcases he with rfl | rfl <;> simp [EvClass.isDirectory] at hnp ⊢; done)
    | (obtain ⟨_, rfl⟩ := he; simp [EvClass.isDirectory] at hnp ⊢; done)
    | (rcases he with rfl | rfl | he
       · simp [EvClass.isDirectory]
       · simp [EvClass.isDirectory] at hnp
       · have := hsub e he.2; rw [hns] at this; cases this)
    | (split at he
       · simp at he; subst he; simp
       · simp at he)

/-- file operations issued back to back: what a burst of file operations delivers when it is read as one batch is
    the concatenation of the contracts of its operations, in order - nothing missing, nothing added, nothing reordered -/
theorem contract_refined_file_burst_partial (fs0 : FS) (hwf : fs0.WF) (full : Bool) (pre burst : List Op)
    (hv : allValid (Sys.start fs0 true full) pre = true) (hroot : Op.rmdir ["W"] ∉ pre)
    (hb : allFile ((Sys.start fs0 true full).run pre).1 burst = true) :
    (((Sys.start fs0 true full).run pre).1.burst burst).2 =
      (contractRun ((Sys.start fs0 true full).run pre).1.fs true full burst).flatten := by
  obtain ⟨inv, hs, hc, _, h5⟩ := start_rec fs0 hwf full
  have hr := run_rec _ pre inv hs hc hv
  have hst : ((Sys.start fs0 true full).run pre).1.stopped = false := by
    cases h : ((Sys.start fs0 true full).run pre).1.stopped
    · rfl
    · exact absurd ((stopped_iff _ pre inv hs hc hv).1 h) hroot
  rw [burst_files _ burst (hr.2.2 hst) hst hr.2.1 hb]
  have := (run_rec _ burst (hr.2.2 hst) hst hr.2.1 (allValid_of_allFile burst _ hb)).1
  rw [run_full, h5] at this
  simp only
  rw [this]


/-- a NESTED BURST announces every new entry exactly once, with the right kind: after any drained history, for `mkdir`s
    and file creations at any depth read as one batch, the created events of the delivered stream name pairwise
    different paths, and (path, kind) is announced iff an entry of that path and kind exists in the tree now and did not
    before the burst - nothing is announced twice (by the kernel AND by the walk), nothing that does not exist, nothing
    is left out -/
theorem created_once_growth_burst_partial (fs0 : FS) (hwf : fs0.WF) (full : Bool) (pre burst : List Op)
    (hv : allValid (Sys.start fs0 true full) pre = true) (hroot : Op.rmdir ["W"] ∉ pre)
    (hb : allFill ((Sys.start fs0 true full).run pre).1.fs burst = true) :
    ((createdOf (((Sys.start fs0 true full).run pre).1.burst burst).2).map (·.1)).Nodup ∧
    ∀ x, x ∈ createdOf (((Sys.start fs0 true full).run pre).1.burst burst).2 ↔
      ∃ e ∈ (((Sys.start fs0 true full).run pre).1.burst burst).1.fs.ents,
        e ∉ ((Sys.start fs0 true full).run pre).1.fs.ents ∧ isUnder ["W"] e.path = true ∧ x = (e.path, e.isDir) := by
  obtain ⟨inv, hs, hc⟩ := after_history fs0 hwf full pre hv hroot
  obtain ⟨h1, _, _, _, _, h6, h7⟩ := burst_grow _ burst inv hs hc hb
  rw [h1]; exact ⟨h6, h7⟩

end WD.C03
