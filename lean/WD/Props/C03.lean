/-
  C03 — Every delivered event is justified and correctly typed (drained regime).  The per-operation
  contract itself is the model's `emit` table, compared with the real observer operation by operation
  on the real kernel; the theorems below state soundness of every delivered event against the file
  system before and after the operation that caused it.
-/
import WD.Proofs.Pipeline.Sound
namespace WD.C03
open WD WD.Pipe

/-- is `(p, isDir)` an entry of the watched tree of `fs`? -/
def inTree (fs : FS) (p : P) (isDir : Bool) : Prop := (p, isDir) ∈ treeW fs

/-- justified (`sound_partial`: histories that do not reach into directories which left the tree with
    their watches — see known finding D2 for those): for the events of one operation applied in a state
    reached by such a history,
    created: the entry exists afterwards with the event's flavour; deleted: it existed before with that
    flavour and is gone; moved: source existed before, destination exists afterwards, same flavour;
    modified / opened / closed: the entry exists before or after with that flavour;
    synthetic only below a moved or arrived directory -/
theorem sound_partial (fs0 : FS) (hwf : fs0.WF) (full : Bool) (ops : List Op) (op : Op)
    (h : histOk (Sys.start fs0 true full) (ops ++ [op]) = true) (e : PEv)
    (he : e ∈ ((((Sys.start fs0 true full).run ops).1).op op).2) :
    let pre := ((Sys.start fs0 true full).run ops).1.fs
    let post := ((((Sys.start fs0 true full).run ops).1).op op).1.fs
    let d := e.cls.isDirectory
    (e.cls.eventType = "created" → inTree post e.src d) ∧
    (e.cls.eventType = "deleted" → (inTree pre e.src d ∨ e.src = ["W"]) ∧ ¬ inTree post e.src d) ∧
    (e.cls.eventType = "moved" → (e.src ≠ [] → inTree pre e.src d) ∧ (e.dest ≠ [] → inTree post e.dest d)) ∧
    (e.cls.eventType = "modified" ∨ e.cls.eventType = "opened" ∨ e.cls.eventType = "closed" ∨
      e.cls.eventType = "closed_no_write" →
        inTree pre e.src d ∨ inTree post e.src d ∨ (e.src = ["W"] ∧ d = true)) ∧
    (e.syn = true → ∃ top, top ∈ ((((Sys.start fs0 true full).run ops).1).op op).2 ∧ top.syn = false ∧
        top.cls.isDirectory = true ∧
        ((top.dest ≠ [] ∧ isUnder top.dest e.dest = true) ∨ (top.dest = [] ∧ isUnder top.src e.src = true))) :=
  ProofsPipe.sound_partial fs0 hwf full ops op h e he

/-- the flavour of every event class is what the native record said (IN_ISDIR): by construction of
    `emit`, File* classes for `isDir = false`, Dir* for `isDir = true` -/
theorem typing (fs : FS) (recursive full : Bool) (ev : LEv) (e : PEv)
    (he : e ∈ (emit fs recursive full (.one ev)).1) (hns : e.syn = false)
    (hnp : e.cls ≠ .DirModifiedEvent ∨ ev.flag = .attrib ∨ ev.flag = .modify) :
    e.cls.isDirectory = ev.isDir ∨ (ev.flag = .deleteSelf ∧ e.cls = .DirDeletedEvent) :=
  ProofsPipe.typing fs recursive full ev e he hns hnp

end WD.C03
