/-
  C02 — A recursive watch covers every directory that exists, under its current name (native pipeline, every
  operation drained before the next).  For every well-formed initial tree and EVERY history of operations the
  file system accepts — inside the watched tree, outside it, moves out of it and (back) into it.
-/
import WD.Proofs.Pipeline.Theorems
import WD.Proofs.Pipeline.FlatSpec
import WD.Proofs.Pipeline.BurstFiles
import WD.Proofs.Pipeline.BurstGrow
import WD.Proofs.Pipeline.Paced
import WD.Proofs.Pipeline.BurstMkRename
/-
  `_partial`: the theorems quantify over all initial trees and all histories of valid operations, but in the
  regime "the stream drains after every operation" (`Sys.op`), plus bursts of FILE operations issued back to back and
  read as one batch (`coverage_after_file_burst_partial`).  Bursts that create, rename or move directories under the
  property's pacing condition are exercised on the real observer and compared with the burst model (harness/pipe_check.py).
-/
namespace WD.C02
open WD WD.Pipe

/-- coverage is an invariant: whatever way a directory came to be in the tree (present at start, created
    later, renamed together with its ancestors any number of times, moved in from outside, moved out and back
    in), the kernel watches it and the library knows that watch under the directory's real current path -/
theorem coverage_inv_partial (fs0 : FS) (hwf : fs0.WF) (full : Bool) (ops : List Op)
    (hv : allValid (Sys.start fs0 true full) ops = true)
    (hns : ((Sys.start fs0 true full).run ops).1.stopped = false) :
    Covered ((Sys.start fs0 true full).run ops).1 := by
  obtain ⟨inv, hs, hc, _, _⟩ := start_rec fs0 hwf full
  obtain ⟨_, _, h3⟩ := run_rec _ ops inv hs hc hv
  exact covered_of_inv (h3 hns) _ rfl rfl rfl

/-- ... and nothing else is watched: every kernel watch is on a directory of the tree (nothing that has left
    the tree keeps reporting under a name it no longer has) -/
theorem nothing_stale_partial (fs0 : FS) (hwf : fs0.WF) (full : Bool) (ops : List Op)
    (hv : allValid (Sys.start fs0 true full) ops = true)
    (hns : ((Sys.start fs0 true full).run ops).1.stopped = false) :
    let s := ((Sys.start fs0 true full).run ops).1
    ∀ w ∈ s.k.watches, ∃ e ∈ s.fs.ents, e.ino = w.2 ∧ e.isDir = true ∧ (e.path = ["W"] ∨ isUnder ["W"] e.path = true) ∧
      lookupW s.lib.pathForWd w.1 = some e.path := by
  obtain ⟨inv, hs, hc, _, _⟩ := start_rec fs0 hwf full
  obtain ⟨_, _, h3⟩ := run_rec _ ops inv hs hc hv
  intro s w hw
  obtain ⟨e, he, h1, h2, h4, _⟩ := (h3 hns).good w hw
  exact ⟨e, he, h1, (inTreeDir_iff.mp h2).1, (inTreeDir_iff.mp h2).2, h4⟩

/-- hence a change made inside any directory that exists in the tree is reported, under the entry's real path -/
theorem probe_reported_partial (fs0 : FS) (hwf : fs0.WF) (full : Bool) (ops : List Op)
    (hv : allValid (Sys.start fs0 true full) ops = true)
    (hns : ((Sys.start fs0 true full).run ops).1.stopped = false)
    (d : P) (name : String) (hd : ((Sys.start fs0 true full).run ops).1.fs.isDir d = true)
    (hu : d = ["W"] ∨ isUnder ["W"] d = true)
    (hfree : ((Sys.start fs0 true full).run ops).1.fs.exists (d ++ [name]) = false) :
    (⟨.FileCreatedEvent, d ++ [name], [], false⟩ : PEv) ∈
      ((((Sys.start fs0 true full).run ops).1).op (.create (d ++ [name]))).2 := by
  obtain ⟨inv, hs, hc, _, _⟩ := start_rec fs0 hwf full
  obtain ⟨_, h2, h3⟩ := run_rec _ ops inv hs hc hv
  have hlen : 2 ≤ (d ++ [name]).length := by
    rcases hu with h | h
    · subst h; simp
    · have := isUnder_length h; simp at this ⊢; omega
  have hv1 : validOp ((Sys.start fs0 true full).run ops).1.fs (.create (d ++ [name])) = true := by
    simp [validOp, hfree, parentOf_snoc, hd]; simpa using hlen
  have st := step_create _ (d ++ [name]) (h3 hns) hns h2 hv1
  rw [st.events]
  have hw : watchedDir ((Sys.start fs0 true full).run ops).1.fs true (parentOf (d ++ [name])) = true := by
    rw [parentOf_snoc]; simp only [watchedDir, hd, Bool.true_and, Bool.or_eq_true, beq_iff_eq]
    rcases hu with h | h
    · exact Or.inl h
    · exact Or.inr h
  simp [contract, hw, mkEv]

/-- a non-recursive watch never reports anything deeper than the root's direct children: every path of every
    delivered event is the root or one of its direct children -/
theorem nonrecursive_depth_partial (fs0 : FS) (hwf : fs0.WF) (full : Bool) (ops : List Op)
    (hv : allValid (Sys.start fs0 false full) ops = true) (e : PEv)
    (he : e ∈ allEvents ((Sys.start fs0 false full).run ops)) : e.src.length ≤ 2 ∧ e.dest.length ≤ 2 := by
  obtain ⟨inv, hs, hc, h4, h5⟩ := start_flat fs0 hwf full
  have hrun := (run_flat _ ops inv hs hc hv).1
  rw [h4, h5] at hrun
  rw [allValid_eq_fsValid, h4] at hv
  simp only [allEvents, hrun, List.mem_flatten] at he
  obtain ⟨evs, hevs, hee⟩ := he
  have := contractRun_flat_shallow fs0 hwf full ops hv evs hevs e hee
  exact ⟨shallow_len this.1, shallow_len this.2⟩

/-- ... and does report changes to the root's direct children -/
theorem nonrecursive_children_partial (fs0 : FS) (hwf : fs0.WF) (full : Bool) (ops : List Op)
    (hv : allValid (Sys.start fs0 false full) ops = true)
    (hns : ((Sys.start fs0 false full).run ops).1.stopped = false) (name : String)
    (hfree : ((Sys.start fs0 false full).run ops).1.fs.exists ["W", name] = false) :
    (⟨.FileCreatedEvent, ["W", name], [], false⟩ : PEv) ∈
      ((((Sys.start fs0 false full).run ops).1).op (.create ["W", name])).2 := by
  obtain ⟨inv, hs, hc, _, _⟩ := start_flat fs0 hwf full
  obtain ⟨_, h2, h3⟩ := run_flat _ ops inv hs hc hv
  have invF := h3 hns
  have hW : ((Sys.start fs0 false full).run ops).1.fs.isDir ["W"] = true := invF.wf.rootW
  have hv1 : validOp ((Sys.start fs0 false full).run ops).1.fs (.create ["W", name]) = true := by
    simp [validOp, hfree, parentOf, hW]
  have st := flat_create _ ["W", name] invF hns h2 hv1
  rw [st.events]
  have hw : watchedDir ((Sys.start fs0 false full).run ops).1.fs false (parentOf ["W", name]) = true := by
    simp [watchedDir_flat, parentOf, hW]
  simp [contract, hw, mkEv]

/-- non-vacuity: a directory that leaves the tree, comes back under another name, and whose former parent is
    then renamed (the history on which the stale path map used to mislead the observer) -/
example :
    let k0 : Kern := ⟨[], 1, 1⟩
    let fs0 := [Op.mkdir ["W", "p"], .mkdir ["W", "p", "a"]].foldl (fun fs op => (kernelOp fs k0 op).1) FS.init
    let ops := [Op.rename ["W", "p", "a"] ["O", "a"], .create ["O", "a", "z"], .rename ["O", "a"] ["W", "b"], .rename ["W", "p"] ["W", "q"]]
    allValid (Sys.start fs0 true false) ops = true ∧ ((Sys.start fs0 true false).run ops).1.stopped = false ∧
    ((((Sys.start fs0 true false).run ops).1).op (.create ["W", "b", "x"])).2.map PEv.toEvent =
      [⟨.FileCreatedEvent, "W/b/x", "", false⟩, ⟨.DirModifiedEvent, "W/b", "", false⟩, ⟨.FileOpenedEvent, "W/b/x", "", false⟩,
       ⟨.FileClosedEvent, "W/b/x", "", false⟩, ⟨.DirModifiedEvent, "W/b", "", false⟩] := by decide +kernel

/-- coverage survives file operations issued back to back: after any drained history and a burst of file operations
    read as one batch (`Sys.burst`), every directory of the tree is still watched under its real current path -/
theorem coverage_after_file_burst_partial (fs0 : FS) (hwf : fs0.WF) (full : Bool) (pre burst : List Op)
    (hv : allValid (Sys.start fs0 true full) pre = true) (hroot : Op.rmdir ["W"] ∉ pre)
    (hb : allFile ((Sys.start fs0 true full).run pre).1 burst = true) :
    Covered (((Sys.start fs0 true full).run pre).1.burst burst).1 := by
  obtain ⟨inv, hs, hc, _, _⟩ := start_rec fs0 hwf full
  have hr := run_rec _ pre inv hs hc hv
  have hst : ((Sys.start fs0 true full).run pre).1.stopped = false := by
    cases h : ((Sys.start fs0 true full).run pre).1.stopped
    · rfl
    · exact absurd ((stopped_iff _ pre inv hs hc hv).1 h) hroot
  rw [burst_files _ burst (hr.2.2 hst) hst hr.2.1 hb]
  have hv2 : allValid (Sys.start fs0 true full) (pre ++ burst) = true := by
    rw [allValid_append, hv, allValid_of_allFile burst _ hb]; rfl
  have hfin : (((Sys.start fs0 true full).run pre).1.run burst).1 = ((Sys.start fs0 true full).run (pre ++ burst)).1 := by
    rw [run_append]
  have hns2 : ((Sys.start fs0 true full).run (pre ++ burst)).1.stopped = false := by
    cases h : ((Sys.start fs0 true full).run (pre ++ burst)).1.stopped
    · rfl
    · have hm := (stopped_iff _ (pre ++ burst) inv hs hc hv2).1 h
      rcases List.mem_append.1 hm with hm | hm
      · exact absurd hm hroot
      · -- a burst of file operations does not remove the root
        exfalso
        have : ∀ (ops : List Op) (s : Sys), allFile s ops = true → Op.rmdir ["W"] ∉ ops := by
          intro ops
          induction ops with
          | nil => intro _ _; simp
          | cons o rest ih =>
            intro s h
            simp only [allFile, Bool.and_eq_true] at h
            intro hmem
            rcases List.mem_cons.1 hmem with e | e
            · subst e; simp [fileKind, simpleKind] at h
            · exact ih _ h.2 e
        exact this burst _ hb hm
  show Covered (((Sys.start fs0 true full).run pre).1.run burst).1
  rw [hfin]
  exact coverage_inv_partial fs0 hwf full (pre ++ burst) hv2 hns2


/-- coverage of a NESTED BURST: after any drained history, `mkdir`s and file creations at any depth issued back to back
    and read as one batch (directories created inside directories the burst itself created, before any of them had a
    watch): afterwards every directory of the tree - those the kernel never reported included - is watched under its
    real current path, and nothing else is -/
theorem coverage_after_growth_burst_partial (fs0 : FS) (hwf : fs0.WF) (full : Bool) (pre burst : List Op)
    (hv : allValid (Sys.start fs0 true full) pre = true) (hroot : Op.rmdir ["W"] ∉ pre)
    (hb : allFill ((Sys.start fs0 true full).run pre).1.fs burst = true) :
    Covered (((Sys.start fs0 true full).run pre).1.burst burst).1 ∧
    ∀ w ∈ (((Sys.start fs0 true full).run pre).1.burst burst).1.k.watches,
      ∃ e ∈ (((Sys.start fs0 true full).run pre).1.burst burst).1.fs.ents, e.ino = w.2 ∧ inTreeDir e = true := by
  obtain ⟨inv, hs, hc⟩ := after_history fs0 hwf full pre hv hroot
  obtain ⟨_, _, _, h4, _⟩ := burst_grow _ burst inv hs hc hb
  refine ⟨covered_of_inv h4 _ rfl rfl rfl, ?_⟩
  intro w hw
  obtain ⟨e, he, h1, h2, _⟩ := h4.good w hw
  exact ⟨e, he, h1, h2⟩


/-- coverage over PACED histories: any sequence of bursts, each read as one batch - single operations of any kind, bursts
    of file operations, nested creation bursts: after every such history every directory of the tree is watched under
    its real current path -/
theorem coverage_paced_partial (fs0 : FS) (hwf : fs0.WF) (full : Bool) (bs : List (List Op))
    (hb : pacedOK (Sys.start fs0 true full) bs) : Covered ((Sys.start fs0 true full).runBursts bs).1 := by
  obtain ⟨inv, hs, hc, _, _⟩ := start_rec fs0 hwf full
  exact covered_of_inv (paced_run bs _ inv hs hc hb).1 _ rfl rfl rfl


/-- coverage of a directory that was CREATED AND IMMEDIATELY RENAMED (`mkdir p; rename p q` in one batch): afterwards
    every directory of the tree - the renamed one under its new name - is watched under its real current path -/
theorem coverage_created_and_renamed_partial (fs0 : FS) (hwf : fs0.WF) (full : Bool) (pre : List Op) (p q : P)
    (hv : allValid (Sys.start fs0 true full) pre = true) (hroot : Op.rmdir ["W"] ∉ pre)
    (hb : mkRenameB ((Sys.start fs0 true full).run pre).1 [.mkdir p, .rename p q] = true) :
    Covered (((Sys.start fs0 true full).run pre).1.burst [.mkdir p, .rename p q]).1 := by
  obtain ⟨inv, hs, hc⟩ := after_history fs0 hwf full pre hv hroot
  simp only [mkRenameB, Bool.and_eq_true, beq_iff_eq, decide_eq_true_eq, Bool.not_eq_true', bne_iff_ne, ne_eq] at hb
  obtain ⟨⟨⟨⟨⟨⟨⟨_, a1⟩, a2⟩, a3⟩, a4⟩, a5⟩, a6⟩, a7⟩ := hb
  exact covered_of_inv (burst_mkdir_rename _ p q inv hs hc a1 a2 a3 a4 a5 a6 a7).2.2.2.2 _ rfl rfl rfl


/-- coverage of a directory tree that ARRIVED FROM OUTSIDE AND WAS RENAMED AT ONCE (`rename o q1; rename q1 q2` in one
    batch): afterwards every directory of the tree - the arrived ones under their final names - is watched under its real
    current path -/
theorem coverage_arrived_and_renamed_partial (fs0 : FS) (hwf : fs0.WF) (full : Bool) (pre : List Op) (o q1 q2 : P)
    (hv : allValid (Sys.start fs0 true full) pre = true) (hroot : Op.rmdir ["W"] ∉ pre)
    (hb : moveInRenameB ((Sys.start fs0 true full).run pre).1 [.rename o q1, .rename q1 q2] = true) :
    Covered (((Sys.start fs0 true full).run pre).1.burst [.rename o q1, .rename q1 q2]).1 := by
  obtain ⟨inv, hs, hc⟩ := after_history fs0 hwf full pre hv hroot
  exact covered_of_inv (paced_step _ _ inv hs hc (okBurst_of_check _ _ (by simp [okBurstB, hb]))).1 _ rfl rfl rfl


/-- coverage of a directory tree RENAMED TWICE IN A ROW (`rename a b; rename b c` in one batch): afterwards every
    directory of the tree - the moved ones under their final names - is watched under its real current path -/
theorem coverage_renamed_twice_partial (fs0 : FS) (hwf : fs0.WF) (full : Bool) (pre : List Op) (a b c : P)
    (hv : allValid (Sys.start fs0 true full) pre = true) (hroot : Op.rmdir ["W"] ∉ pre)
    (hb : renameChainB ((Sys.start fs0 true full).run pre).1 [.rename a b, .rename b c] = true) :
    Covered (((Sys.start fs0 true full).run pre).1.burst [.rename a b, .rename b c]).1 := by
  obtain ⟨inv, hs, hc⟩ := after_history fs0 hwf full pre hv hroot
  exact covered_of_inv (paced_step _ _ inv hs hc (okBurst_of_check _ _ (by simp [okBurstB, hb]))).1 _ rfl rfl rfl

end WD.C02
