/-
  C02 — A recursive watch covers every directory that exists, under its current name; a non-recursive
  one reports the root's direct children and nothing deeper (native pipeline, drained regime).
-/
import WD.Proofs.Pipeline.Coverage
namespace WD.C02
open WD WD.Pipe

/-- coverage is an invariant of every history of operations on the watched tree: whatever way a directory
    came to be there (present at start, created later, renamed together with its ancestors, moved in from
    outside), it is watched and the library knows it under its real current path -/
theorem coverage_inv (fs0 : FS) (hwf : fs0.WF) (full : Bool) (ops : List Op)
    (h : histOk (Sys.start fs0 true full) ops = true)
    (hns : ((Sys.start fs0 true full).run ops).1.stopped = false) :
    Covered ((Sys.start fs0 true full).run ops).1 :=
  ProofsPipe.coverage_inv fs0 hwf full ops h hns

/-- hence a change made inside any existing directory is reported under the entry's real path -/
theorem probe_reported (fs0 : FS) (hwf : fs0.WF) (full : Bool) (ops : List Op)
    (h : histOk (Sys.start fs0 true full) ops = true)
    (hns : ((Sys.start fs0 true full).run ops).1.stopped = false)
    (d : P) (name : String) (hd : ((Sys.start fs0 true full).run ops).1.fs.isDir d = true)
    (hu : d = ["W"] ∨ isUnder ["W"] d = true)
    (hfree : ((Sys.start fs0 true full).run ops).1.fs.exists (d ++ [name]) = false) :
    (⟨.FileCreatedEvent, d ++ [name], [], false⟩ : PEv) ∈
      ((((Sys.start fs0 true full).run ops).1).op (.create (d ++ [name]))).2 :=
  ProofsPipe.probe_reported fs0 hwf full ops h hns d name hd hu hfree

/-- a non-recursive watch never reports anything deeper than the root's direct children -/
theorem nonrecursive_depth (fs0 : FS) (hwf : fs0.WF) (full : Bool) (ops : List Op)
    (hv : allValid (Sys.start fs0 false full) ops = true) (e : PEv)
    (he : e ∈ allEvents ((Sys.start fs0 false full).run ops)) : e.src.length ≤ 2 ∧ e.dest.length ≤ 2 :=
  ProofsPipe.nonrecursive_depth fs0 hwf full ops hv e he

/-- ... and does report changes to the root's direct children -/
theorem nonrecursive_children (fs0 : FS) (hwf : fs0.WF) (full : Bool) (ops : List Op)
    (hv : allValid (Sys.start fs0 false full) ops = true)
    (hns : ((Sys.start fs0 false full).run ops).1.stopped = false) (name : String)
    (hfree : ((Sys.start fs0 false full).run ops).1.fs.exists ["W", name] = false)
    (hw : ((Sys.start fs0 false full).run ops).1.fs.isDir ["W"] = true) :
    (⟨.FileCreatedEvent, ["W", name], [], false⟩ : PEv) ∈
      ((((Sys.start fs0 false full).run ops).1).op (.create ["W", name])).2 :=
  ProofsPipe.nonrecursive_children fs0 hwf full ops hv hns name hfree hw

end WD.C02
