/-
  C11 — An event filter only removes events; it never alters the rest of the stream.
  Table level: the inotify mask computed from a filter (an optimisation) must let through every
  native record from which the unfiltered translation derives an event the filter accepts, both
  halves of a move together, and — for a recursive watch — the records the library's own
  directory bookkeeping needs.  Every table below is REGENERATED FROM THE SOURCE on every run
  (harness/tables.py evaluates InotifyEmitter.queue_events / get_event_mask_from_filter over their
  whole finite domain), so these `decide`d theorems are re-checked against what the code says now.
-/
import WD.Generated.EventClasses
import WD.Generated.InotifyTables
import WD.Proofs.Pipeline.Filter
import WD.Proofs.Pipeline.FilterFlat
namespace WD.C11
open WD.Generated

def hasBit (m bit : Nat) : Bool := m &&& bit != 0

/-- event class `e` (a '*' suffix marks a synthetic event) is an instance of filter class `c` -/
def accepted (c e : String) : Bool :=
  let e' := if e.endsWith "*" then (e.dropEnd 1).toString else e
  match eventClasses.find? (fun r => r.1 == e') with
  | some (_, _, _, supers) => supers.contains c
  | none => false

/-- completeness of the mask for single records: whenever the unfiltered watch (default mask) would
    derive from a record an event that the singleton filter `{c}` accepts, the filter's mask contains
    that record's bit -/
theorem mask_complete_single :
    ∀ row ∈ translation, ∀ m ∈ singletonMask,
      hasBit WATCHDOG_ALL_EVENTS row.1 = true → m.2.1 = row.2.2.2.1 →
      (row.2.2.2.2.2.1.any (accepted m.1)) = true → hasBit m.2.2 row.1 = true := by
  decide +kernel

/-- ... and for a paired move: both halves -/
theorem mask_complete_pair :
    ∀ row ∈ pairTranslation, ∀ m ∈ singletonMask, m.2.1 = row.2.1 →
      (row.2.2.any (accepted m.1)) = true →
      hasBit m.2.2 IN_MOVED_FROM = true ∧ hasBit m.2.2 IN_MOVED_TO = true := by
  decide +kernel

/-- the two halves of a move are requested together or not at all (else a rename inside the tree
    would surface as a deletion or creation that the unfiltered stream does not contain) -/
theorem pairing_closed :
    ∀ m ∈ singletonMask, hasBit m.2.2 IN_MOVED_FROM = hasBit m.2.2 IN_MOVED_TO := by
  decide +kernel

/-- a recursive watch always keeps the records its own directory bookkeeping needs; every watch
    keeps DELETE_SELF (root deletion) -/
theorem bookkeeping :
    (∀ m ∈ singletonMask, hasBit m.2.2 IN_DELETE_SELF = true) ∧
    (∀ m ∈ singletonMask, m.2.1 = true →
      hasBit m.2.2 IN_CREATE = true ∧ hasBit m.2.2 IN_MOVED_FROM = true ∧ hasBit m.2.2 IN_MOVED_TO = true) ∧
    hasBit emptyFilterMaskNonRec IN_DELETE_SELF = true ∧
    hasBit emptyFilterMaskRec IN_CREATE = true ∧ hasBit emptyFilterMaskRec IN_MOVED_FROM = true ∧
    hasBit emptyFilterMaskRec IN_MOVED_TO = true := by
  decide +kernel

/-- a mask never asks for more than the unfiltered watch gets (so the filtered stream cannot
    contain an event the unfiltered one lacks) -/
theorem mask_within_default :
    ∀ m ∈ singletonMask, m.2.2 &&& WATCHDOG_ALL_EVENTS = m.2.2 := by
  decide +kernel

/-- the two corollaries the property names: deletions asked for => moves out of the tree are seen;
    a filtered recursive watch still follows new directories -/
theorem moves_out_seen_as_deleted :
    ∀ m ∈ singletonMask, (m.1 = "FileDeletedEvent" ∨ m.1 = "DirDeletedEvent") → hasBit m.2.2 IN_MOVED_FROM = true := by
  decide +kernel

/-- non-vacuity: the tables are not empty and contain accepted events -/
example : translation.length = 192 ∧ singletonMask.length = 26 ∧ accepted "FileSystemMovedEvent" "DirMovedEvent*" = true := by
  decide +kernel

/-! ### stream level (recursive watch, drained regime): the whole pipeline under a filter

  `WD.Pipe.Sys.runF m acc` is the pipeline model of C01–C03 with watch mask `m` (the kernel queues only those record
  kinds) and class filter `acc` on the emitter's queue.  The mask and the accepted classes of a filter are read off the
  REGENERATED tables (`singletonMask`, `eventClasses`); a filter with several classes has the union of the masks
  (`get_event_mask_from_filter` is that OR-homomorphism: checked exhaustively over all 2^13 filters on every run). -/
section stream
open WD.Pipe

def maskOf (n : Nat) : Flag → Bool
  | .modify => hasBit n IN_MODIFY | .attrib => hasBit n IN_ATTRIB | .closeWrite => hasBit n IN_CLOSE_WRITE
  | .closeNoWrite => hasBit n IN_CLOSE_NOWRITE | .open => hasBit n IN_OPEN | .movedFrom => hasBit n IN_MOVED_FROM
  | .movedTo => hasBit n IN_MOVED_TO | .create => hasBit n IN_CREATE | .delete => hasBit n IN_DELETE
  | .deleteSelf => hasBit n IN_DELETE_SELF | .ignored => true

/-- the filter's classes accept an event of class `e` -/
def accOf (cs : List String) (e : EvClass) : Bool := cs.any (fun c => accepted c e.name)

/-- mask of a filter: the recursive watch's bookkeeping bits plus every class's own bits -/
def filterMask (cs : List String) : Nat :=
  cs.foldl (fun a c => a ||| ((singletonMask.find? (fun r => r.1 == c && r.2.1)).map (·.2.2)).getD 0) emptyFilterMaskRec

/-- table level, decided over the regenerated tables: every filter class's mask keeps the bookkeeping records and
    leaves out only record kinds whose events the class rejects -/
theorem singleton_book_complete :
    ∀ r ∈ singletonMask, r.2.1 = true →
      (maskOf r.2.2 .create && maskOf r.2.2 .movedFrom && maskOf r.2.2 .movedTo && maskOf r.2.2 .deleteSelf &&
       completeB (maskOf r.2.2) (accOf [r.1])) = true := by
  decide +kernel

theorem empty_book_complete :
    (maskOf emptyFilterMaskRec .create && maskOf emptyFilterMaskRec .movedFrom && maskOf emptyFilterMaskRec .movedTo &&
     maskOf emptyFilterMaskRec .deleteSelf && completeB (maskOf emptyFilterMaskRec) (accOf [])) = true := by
  decide +kernel

theorem hasBit_or (a b bit : Nat) : hasBit (a ||| b) bit = (hasBit a bit || hasBit b bit) := by
  unfold hasBit
  rw [Nat.and_or_distrib_right]
  by_cases h1 : a &&& bit = 0
  · simp [h1]
  · have h3 : (a &&& bit ||| b &&& bit) ≠ 0 := by
      intro h; exact h1 (Nat.or_eq_zero_iff.1 h).1
    have e1 : ((a &&& bit ||| b &&& bit) != 0) = true := by simpa using h3
    have e2 : ((a &&& bit) != 0) = true := by simpa using h1
    rw [e1, e2]; rfl

theorem maskOf_or (a b : Nat) (f : Flag) : maskOf (a ||| b) f = (maskOf a f || maskOf b f) := by
  cases f <;> simp [maskOf, hasBit_or]

theorem book_of {n : Nat} (h : (maskOf n .create && maskOf n .movedFrom && maskOf n .movedTo && maskOf n .deleteSelf) = true) :
    Book (maskOf n) := by
  simp only [Bool.and_eq_true] at h
  exact ⟨h.1.1.1, h.1.1.2, h.1.2, h.2⟩

/-- every filter over the event classes: its mask keeps the bookkeeping records and is complete for its classes -/
theorem filter_book_complete (cs : List String) (hcs : ∀ c ∈ cs, ∃ r ∈ singletonMask, r.1 = c ∧ r.2.1 = true) :
    Book (maskOf (filterMask cs)) ∧ Complete (maskOf (filterMask cs)) (accOf cs) := by
  have h0 := empty_book_complete
  simp only [Bool.and_eq_true] at h0
  have gen : ∀ (cs pre : List String) (n : Nat), (∀ c ∈ cs, ∃ r ∈ singletonMask, r.1 = c ∧ r.2.1 = true) →
      Book (maskOf n) → Complete (maskOf n) (accOf pre) →
      Book (maskOf (cs.foldl (fun a c => a ||| ((singletonMask.find? (fun r => r.1 == c && r.2.1)).map (·.2.2)).getD 0) n)) ∧
      Complete (maskOf (cs.foldl (fun a c => a ||| ((singletonMask.find? (fun r => r.1 == c && r.2.1)).map (·.2.2)).getD 0) n))
        (accOf (pre ++ cs)) := by
    intro cs
    induction cs with
    | nil => intro pre n _ hb hc; simpa using ⟨hb, hc⟩
    | cons c rest ih =>
      intro pre n hmem hb hc
      simp only [List.foldl_cons]
      obtain ⟨r, hr, rfl, hrec⟩ := hmem c (List.mem_cons_self ..)
      -- the row the lookup finds is a recursive row of class `c`
      cases hfind : singletonMask.find? (fun x => x.1 == r.1 && x.2.1) with
      | none =>
        have := List.find?_eq_none.1 hfind r hr
        simp [hrec] at this
      | some r' =>
        have hr'mem := List.mem_of_find?_eq_some hfind
        have hr'p := List.find?_some hfind
        simp only [Bool.and_eq_true, beq_iff_eq] at hr'p
        have hrow := singleton_book_complete r' hr'mem hr'p.2
        simp only [Bool.and_eq_true] at hrow
        have hb' : Book (maskOf r'.2.2) := ⟨hrow.1.1.1.1, hrow.1.1.1.2, hrow.1.1.2, hrow.1.2⟩
        have hc' : Complete (maskOf r'.2.2) (accOf [r'.1]) := Complete_of_check hb' hrow.2
        have hb2 : Book (maskOf (n ||| r'.2.2)) := by
          have := hb.union_left (m2 := maskOf r'.2.2)
          exact ⟨by rw [maskOf_or]; exact this.create, by rw [maskOf_or]; exact this.movedFrom,
                 by rw [maskOf_or]; exact this.movedTo, by rw [maskOf_or]; exact this.deleteSelf⟩
        have hc2 : Complete (maskOf (n ||| r'.2.2)) (accOf (pre ++ [r.1])) := by
          have hu := hc.union hc'
          intro fs recursive full e hm hne
          have := hu fs recursive full e (by show (maskOf n e.flag || maskOf r'.2.2 e.flag) = false
                                             rw [← maskOf_or]; exact hm) hne
          refine ⟨fun ev hev => ?_, this.2⟩
          have h3 := this.1 ev hev
          simp only [accOf, List.any_append, List.any_cons, List.any_nil, Bool.or_false, hr'p.1] at h3 ⊢
          exact h3
        have := ih (pre ++ [r.1]) (n ||| r'.2.2) (fun c hc => hmem c (List.mem_cons_of_mem _ hc)) hb2 hc2
        simpa [Option.map, Option.getD, List.append_assoc] using this
  have hb0 : Book (maskOf emptyFilterMaskRec) := ⟨h0.1.1.1.1, h0.1.1.1.2, h0.1.1.2, h0.1.2⟩
  have := gen cs [] emptyFilterMaskRec hcs hb0 (Complete_of_check hb0 h0.2)
  simpa [filterMask] using this

/-- **the property, stream level** (`_partial`: recursive watch, every operation drained, histories of valid operations):
    a watch scheduled with the filter `cs` goes through the same states as the unfiltered watch and delivers, operation by
    operation and in the same order, exactly the unfiltered watch's events that are instances of one of the filter's
    classes — for every well-formed initial tree, every history, every filter over the event class lattice -/
theorem stream_filtered_partial (fs0 : FS) (hwf : fs0.WF) (full : Bool) (ops : List Op)
    (hv : allValid (Sys.start fs0 true full) ops = true)
    (cs : List String) (hcs : ∀ c ∈ cs, ∃ r ∈ singletonMask, r.1 = c ∧ r.2.1 = true) :
    (Sys.start fs0 true full).runF (maskOf (filterMask cs)) (accOf cs) ops =
      (((Sys.start fs0 true full).run ops).1,
       ((Sys.start fs0 true full).run ops).2.map (fun evs => evs.filter (fun e => accOf cs e.cls))) := by
  obtain ⟨hb, hc⟩ := filter_book_complete cs hcs
  obtain ⟨inv, hs, hcr, _, _⟩ := start_rec fs0 hwf full
  exact runF_eq hb hc _ ops (run_rec _ ops inv hs hcr hv).2.1

/-- non-vacuity: {FileDeletedEvent} on a history with a creation, a move out of the tree and a deletion: the filtered
    watch reports the move out and the deletion as deletions and nothing else -/
example :
    let ops := [Op.create ["W", "a"], .create ["W", "b"], .rename ["W", "a"] ["O", "a"], .unlink ["W", "b"]]
    ((Sys.start FS.init true false).runF (maskOf (filterMask ["FileDeletedEvent"])) (accOf ["FileDeletedEvent"]) ops).2.map
        (·.map PEv.toEvent) =
      [[], [], [⟨.FileDeletedEvent, "W/a", "", false⟩], [⟨.FileDeletedEvent, "W/b", "", false⟩]] := by
  decide +kernel

/-! ### non-recursive watches: the mask may also leave out CREATE / MOVED_FROM / MOVED_TO -/

def filterMaskNR (cs : List String) : Nat :=
  cs.foldl (fun a c => a ||| ((singletonMask.find? (fun r => r.1 == c && !r.2.1)).map (·.2.2)).getD 0) emptyFilterMaskNonRec

/-- table level, decided over the regenerated tables: under a non-recursive watch every filter class's mask asks for both
    halves of a move or for neither, keeps the root's DELETE_SELF, and leaves out only record kinds (and pairs) whose events
    the class rejects -/
theorem singleton_flat_complete :
    ∀ r ∈ singletonMask, r.2.1 = false →
      ((maskOf r.2.2 .movedFrom == maskOf r.2.2 .movedTo) && completeBF (maskOf r.2.2) (accOf [r.1])) = true := by
  decide +kernel

theorem empty_flat_complete :
    ((maskOf emptyFilterMaskNonRec .movedFrom == maskOf emptyFilterMaskNonRec .movedTo) &&
     completeBF (maskOf emptyFilterMaskNonRec) (accOf [])) = true := by
  decide +kernel

theorem filter_flat_complete (cs : List String) (hcs : ∀ c ∈ cs, ∃ r ∈ singletonMask, r.1 = c ∧ r.2.1 = false) :
    maskOf (filterMaskNR cs) .movedFrom = maskOf (filterMaskNR cs) .movedTo ∧
    CompleteF (maskOf (filterMaskNR cs)) (accOf cs) := by
  have h0 := empty_flat_complete
  simp only [Bool.and_eq_true, beq_iff_eq] at h0
  have gen : ∀ (cs pre : List String) (n : Nat), (∀ c ∈ cs, ∃ r ∈ singletonMask, r.1 = c ∧ r.2.1 = false) →
      maskOf n .movedFrom = maskOf n .movedTo → CompleteF (maskOf n) (accOf pre) →
      (maskOf (cs.foldl (fun a c => a ||| ((singletonMask.find? (fun r => r.1 == c && !r.2.1)).map (·.2.2)).getD 0) n) .movedFrom =
       maskOf (cs.foldl (fun a c => a ||| ((singletonMask.find? (fun r => r.1 == c && !r.2.1)).map (·.2.2)).getD 0) n) .movedTo) ∧
      CompleteF (maskOf (cs.foldl (fun a c => a ||| ((singletonMask.find? (fun r => r.1 == c && !r.2.1)).map (·.2.2)).getD 0) n))
        (accOf (pre ++ cs)) := by
    intro cs
    induction cs with
    | nil => intro pre n _ hb hc; simpa using ⟨hb, hc⟩
    | cons c rest ih =>
      intro pre n hmem hb hc
      simp only [List.foldl_cons]
      obtain ⟨r, hr, rfl, hrec⟩ := hmem c (List.mem_cons_self ..)
      cases hfind : singletonMask.find? (fun x => x.1 == r.1 && !x.2.1) with
      | none =>
        have := List.find?_eq_none.1 hfind r hr
        simp [hrec] at this
      | some r' =>
        have hr'mem := List.mem_of_find?_eq_some hfind
        have hr'p := List.find?_some hfind
        simp only [Bool.and_eq_true, beq_iff_eq, Bool.not_eq_true'] at hr'p
        have hrow := singleton_flat_complete r' hr'mem hr'p.2
        simp only [Bool.and_eq_true, beq_iff_eq] at hrow
        have hc' : CompleteF (maskOf r'.2.2) (accOf [r'.1]) := CompleteF_of_check hrow.2
        have hb2 : maskOf (n ||| r'.2.2) .movedFrom = maskOf (n ||| r'.2.2) .movedTo := by
          rw [maskOf_or, maskOf_or, hb, hrow.1]
        have hc2 : CompleteF (maskOf (n ||| r'.2.2)) (accOf (pre ++ [r.1])) := by
          have hu := hc.union hc'
          refine ⟨?_, ?_⟩
          · intro fs full e hm hne
            have hm' : (maskOf n e.flag || maskOf r'.2.2 e.flag) = false := by rw [← maskOf_or]; exact hm
            have := hu.one fs full e hm' hne
            refine ⟨fun ev hev => ?_, this.2⟩
            have h3 := this.1 ev hev
            simp only [accOf, List.any_append, List.any_cons, List.any_nil, Bool.or_false, hr'p.1] at h3 ⊢
            exact h3
          · intro hm fs full f t ev hev
            have hm' : (maskOf n .movedFrom || maskOf r'.2.2 .movedFrom) = false := by rw [← maskOf_or]; exact hm
            have h3 := hu.two hm' fs full f t ev hev
            simp only [accOf, List.any_append, List.any_cons, List.any_nil, Bool.or_false, hr'p.1] at h3 ⊢
            exact h3
        have := ih (pre ++ [r.1]) (n ||| r'.2.2) (fun c hc => hmem c (List.mem_cons_of_mem _ hc)) hb2 hc2
        simpa [Option.map, Option.getD, List.append_assoc] using this
  have := gen cs [] emptyFilterMaskNonRec hcs h0.1 (CompleteF_of_check h0.2)
  simpa [filterMaskNR] using this

/-- **the property, stream level, non-recursive watch** (`_partial`: every operation drained, histories of valid
    operations): a non-recursive watch scheduled with the filter `cs` delivers, operation by operation and in the same
    order, exactly the unfiltered non-recursive watch's events that are instances of one of the filter's classes, and its
    kernel state, its watch maps and its stopped flag are the unfiltered watch's (it merely remembers fewer MOVED_FROMs) -/
theorem stream_filtered_nonrecursive_partial (fs0 : FS) (hwf : fs0.WF) (full : Bool) (ops : List Op)
    (hv : allValid (Sys.start fs0 false full) ops = true)
    (cs : List String) (hcs : ∀ c ∈ cs, ∃ r ∈ singletonMask, r.1 = c ∧ r.2.1 = false) :
    ((Sys.start fs0 false full).runF (maskOf (filterMaskNR cs)) (accOf cs) ops).2 =
      ((Sys.start fs0 false full).run ops).2.map (fun evs => evs.filter (fun e => accOf cs e.cls)) ∧
    SimS ((Sys.start fs0 false full).run ops).1 ((Sys.start fs0 false full).runF (maskOf (filterMaskNR cs)) (accOf cs) ops).1 := by
  obtain ⟨hcl, hc⟩ := filter_flat_complete cs hcs
  obtain ⟨inv, hs, hcr, _, _⟩ := start_flat fs0 hwf full
  exact runF_flat hcl hc ops _ _ ⟨rfl, rfl, rfl, rfl, rfl, Sim.refl _⟩ (fun _ => inv.flatMaps)
    (run_flat _ ops inv hs hcr hv).2.1

/-- non-vacuity: {FileModifiedEvent} on a non-recursive watch (mask: MODIFY, ATTRIB, DELETE_SELF only): creations, moves
    and deletions go unreported, the write and the chmod are delivered -/
example :
    let ops := [Op.create ["W", "a"], .write ["W", "a"], .rename ["W", "a"] ["W", "b"], .chmod ["W", "b"], .unlink ["W", "b"]]
    ((Sys.start FS.init false false).runF (maskOf (filterMaskNR ["FileModifiedEvent"])) (accOf ["FileModifiedEvent"]) ops).2.map
        (·.map PEv.toEvent) =
      [[], [⟨.FileModifiedEvent, "W/a", "", false⟩], [], [⟨.FileModifiedEvent, "W/b", "", false⟩], []] := by
  decide +kernel

end stream

end WD.C11
