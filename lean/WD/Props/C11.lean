/-
  C11 — An event filter only removes events; it never alters the rest of the stream.
  Table level: the inotify mask computed from a filter (an optimisation) must let through every
  native record from which the unfiltered translation derives an event the filter accepts, both
  halves of a move together, and — for a recursive watch — the records the library's own
  directory bookkeeping needs.  Every table below is REGENERATED FROM THE SOURCE on every run
  (harness/tables.py evaluates InotifyEmitter.queue_events / get_event_mask_from_filter over their
  whole finite domain), so these `decide`d theorems are re-checked against what the code says now.
-/
import WD.Generated.EventClasses
import WD.Generated.InotifyTables
namespace WD.C11
open WD.Generated

def hasBit (m bit : Nat) : Bool := m &&& bit != 0

/-- event class `e` (a '*' suffix marks a synthetic event) is an instance of filter class `c` -/
def accepted (c e : String) : Bool :=
  let e' := if e.endsWith "*" then (e.dropEnd 1).toString else e
  match eventClasses.find? (fun r => r.1 == e') with
  | some (_, _, _, supers) => supers.contains c
  | none => false

/-- completeness of the mask for single records: whenever the unfiltered watch (default mask) would
    derive from a record an event that the singleton filter `{c}` accepts, the filter's mask contains
    that record's bit -/
theorem mask_complete_single :
    ∀ row ∈ translation, ∀ m ∈ singletonMask,
      hasBit WATCHDOG_ALL_EVENTS row.1 = true → m.2.1 = row.2.2.2.1 →
      (row.2.2.2.2.2.1.any (accepted m.1)) = true → hasBit m.2.2 row.1 = true := by
  decide +kernel

/-- ... and for a paired move: both halves -/
theorem mask_complete_pair :
    ∀ row ∈ pairTranslation, ∀ m ∈ singletonMask, m.2.1 = row.2.1 →
      (row.2.2.any (accepted m.1)) = true →
      hasBit m.2.2 IN_MOVED_FROM = true ∧ hasBit m.2.2 IN_MOVED_TO = true := by
  decide +kernel

/-- the two halves of a move are requested together or not at all (else a rename inside the tree
    would surface as a deletion or creation that the unfiltered stream does not contain) -/
theorem pairing_closed :
    ∀ m ∈ singletonMask, hasBit m.2.2 IN_MOVED_FROM = hasBit m.2.2 IN_MOVED_TO := by
  decide +kernel

/-- a recursive watch always keeps the records its own directory bookkeeping needs; every watch
    keeps DELETE_SELF (root deletion) -/
theorem bookkeeping :
    (∀ m ∈ singletonMask, hasBit m.2.2 IN_DELETE_SELF = true) ∧
    (∀ m ∈ singletonMask, m.2.1 = true →
      hasBit m.2.2 IN_CREATE = true ∧ hasBit m.2.2 IN_MOVED_FROM = true ∧ hasBit m.2.2 IN_MOVED_TO = true) ∧
    hasBit emptyFilterMaskNonRec IN_DELETE_SELF = true ∧
    hasBit emptyFilterMaskRec IN_CREATE = true ∧ hasBit emptyFilterMaskRec IN_MOVED_FROM = true ∧
    hasBit emptyFilterMaskRec IN_MOVED_TO = true := by
  decide +kernel

/-- a mask never asks for more than the unfiltered watch gets (so the filtered stream cannot
    contain an event the unfiltered one lacks) -/
theorem mask_within_default :
    ∀ m ∈ singletonMask, m.2.2 &&& WATCHDOG_ALL_EVENTS = m.2.2 := by
  decide +kernel

/-- the two corollaries the property names: deletions asked for => moves out of the tree are seen;
    a filtered recursive watch still follows new directories -/
theorem moves_out_seen_as_deleted :
    ∀ m ∈ singletonMask, (m.1 = "FileDeletedEvent" ∨ m.1 = "DirDeletedEvent") → hasBit m.2.2 IN_MOVED_FROM = true := by
  decide +kernel

/-- non-vacuity: the tables are not empty and contain accepted events -/
example : translation.length = 192 ∧ singletonMask.length = 26 ∧ accepted "FileSystemMovedEvent" "DirMovedEvent*" = true := by
  decide +kernel

end WD.C11
