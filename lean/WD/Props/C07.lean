/-
  C07 — Monitoring never silently dies while the observer runs and the root exists (native pipeline,
  every operation drained before the next).  For every well-formed initial tree and EVERY sequence of
  valid file-system operations — inside the tree or on entries that have left it.
-/
import WD.Proofs.Pipeline.NoCrash
namespace WD.C07
open WD WD.Pipe

/-- the reader never meets a watch descriptor it does not know (no KeyError, the thread lives on) -/
theorem no_crash (fs0 : FS) (hwf : fs0.WF) (recursive full : Bool) (ops : List Op)
    (hv : allValid (Sys.start fs0 recursive full) ops = true) :
    ((Sys.start fs0 recursive full).run ops).1.crashed = false :=
  ProofsPipe.no_crash fs0 hwf recursive full ops hv

/-- the emitter stops only when the root itself was removed, and then exactly one DirDeletedEvent(root)
    is the last event delivered -/
theorem stops_only_on_root_deletion (fs0 : FS) (hwf : fs0.WF) (recursive full : Bool) (ops : List Op)
    (hv : allValid (Sys.start fs0 recursive full) ops = true)
    (hs : ((Sys.start fs0 recursive full).run ops).1.stopped = true) :
    ((Sys.start fs0 recursive full).run ops).1.fs.exists ["W"] = false ∧
    (allEvents ((Sys.start fs0 recursive full).run ops)).getLast? = some ⟨.DirDeletedEvent, ["W"], [], false⟩ ∧
    ((allEvents ((Sys.start fs0 recursive full).run ops)).filter (fun e => e.cls == .DirDeletedEvent && e.src == ["W"])).length = 1 :=
  ProofsPipe.stops_only_on_root_deletion fs0 hwf recursive full ops hv hs

/-- non-vacuity: the history that used to kill the reader thread (move a watched directory out, re-create
    and remove its name, remove the moved directory) is valid and runs through -/
example :
    let fs0 := (kernelOp FS.init ⟨[], 1, 1⟩ (.mkdir ["W", "d"])).1
    let ops := [Op.rename ["W", "d"] ["O", "x"], .mkdir ["W", "d"], .rmdir ["W", "d"], .rmdir ["O", "x"], .create ["W", "a"]]
    allValid (Sys.start fs0 true false) ops = true ∧ ((Sys.start fs0 true false).run ops).1.crashed = false ∧
    (((Sys.start fs0 true false).run ops).2.getLast?.map (·.map PEv.toEvent)).isSome := by decide +kernel

end WD.C07
