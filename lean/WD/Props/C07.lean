/-
  C07 — Monitoring never silently dies while the observer runs and the root exists (native pipeline, recursive
  watch, every operation drained before the next).  For every well-formed initial tree and EVERY sequence of
  operations the file system accepts — inside the tree or on entries that have left it.
-/
import WD.Proofs.Pipeline.Theorems
import WD.Proofs.Pipeline.FlatSpec
import WD.Proofs.Pipeline.BurstFiles
import WD.Proofs.Pipeline.BurstFlat
import WD.Proofs.Pipeline.BurstGrow
import WD.Proofs.Pipeline.Paced
/-
  `_partial`: all initial trees, all histories of valid operations, recursive watch, in the regime "the stream
  drains after every operation"; library threads other than the inotify reader (their interplay is C04–C06, C12)
  and API call sequences are not part of this model.
-/
namespace WD.C07
open WD WD.Pipe

/-- the reader never meets a watch descriptor it does not know (no KeyError: the thread lives on) -/
theorem no_crash_partial (fs0 : FS) (hwf : fs0.WF) (full : Bool) (ops : List Op)
    (hv : allValid (Sys.start fs0 true full) ops = true) :
    ((Sys.start fs0 true full).run ops).1.crashed = false := by
  obtain ⟨inv, hs, hc, _, _⟩ := start_rec fs0 hwf full
  exact (run_rec _ ops inv hs hc hv).2.1

/-- the same for a non-recursive watch -/
theorem no_crash_nonrecursive_partial (fs0 : FS) (hwf : fs0.WF) (full : Bool) (ops : List Op)
    (hv : allValid (Sys.start fs0 false full) ops = true) :
    ((Sys.start fs0 false full).run ops).1.crashed = false := by
  obtain ⟨inv, hs, hc, _, _⟩ := start_flat fs0 hwf full
  exact (run_flat _ ops inv hs hc hv).2.1

theorem stops_iff_root_removed_nonrecursive_partial (fs0 : FS) (hwf : fs0.WF) (full : Bool) (ops : List Op)
    (hv : allValid (Sys.start fs0 false full) ops = true) :
    ((Sys.start fs0 false full).run ops).1.stopped = true ↔ Op.rmdir ["W"] ∈ ops := by
  obtain ⟨inv, hs, hc, _, _⟩ := start_flat fs0 hwf full
  exact stopped_iff_flat _ ops inv hs hc hv

/-- the emitter stops exactly when the watched root itself is removed -/
theorem stops_iff_root_removed_partial (fs0 : FS) (hwf : fs0.WF) (full : Bool) (ops : List Op)
    (hv : allValid (Sys.start fs0 true full) ops = true) :
    ((Sys.start fs0 true full).run ops).1.stopped = true ↔ Op.rmdir ["W"] ∈ ops := by
  obtain ⟨inv, hs, hc, _, _⟩ := start_rec fs0 hwf full
  exact stopped_iff _ ops inv hs hc hv

/-- while it runs, later changes in the tree are reported: the state after any history still satisfies what
    the per-operation contract needs (C03.contract_refined applies to every continuation), in particular
    every directory is still covered (C02.coverage_inv) -/
theorem still_reporting_partial (fs0 : FS) (hwf : fs0.WF) (full : Bool) (ops more : List Op)
    (hv : allValid (Sys.start fs0 true full) (ops ++ more) = true) :
    ((Sys.start fs0 true full).run (ops ++ more)).2 = contractRun fs0 true full (ops ++ more) := by
  obtain ⟨inv, hs, hc, h4, h5⟩ := start_rec fs0 hwf full
  have := (run_rec _ (ops ++ more) inv hs hc hv).1
  rw [h4, h5] at this; exact this

/-- when the root itself is deleted, exactly one directory-deleted event for the root is delivered for that
    operation, and the emitter stops (nothing is delivered afterwards: `contractRun`) -/
theorem root_deleted (fs : FS) (full recursive : Bool) :
    contract fs recursive full (.rmdir ["W"]) = ([⟨.DirDeletedEvent, ["W"], [], false⟩], true) := by
  simp [contract, mkEv]

/-- back to back: a burst of file operations read as one batch does not kill the reader either (recursive watch), … -/
theorem no_crash_file_burst_partial (fs0 : FS) (hwf : fs0.WF) (full : Bool) (pre burst : List Op)
    (hv : allValid (Sys.start fs0 true full) pre = true) (hroot : Op.rmdir ["W"] ∉ pre)
    (hb : allFile ((Sys.start fs0 true full).run pre).1 burst = true) :
    (((Sys.start fs0 true full).run pre).1.burst burst).1.crashed = false ∧
    (((Sys.start fs0 true full).run pre).1.burst burst).1.stopped = false := by
  obtain ⟨inv, hs, hc, _, _⟩ := start_rec fs0 hwf full
  have hr := run_rec _ pre inv hs hc hv
  have hst : ((Sys.start fs0 true full).run pre).1.stopped = false := by
    cases h : ((Sys.start fs0 true full).run pre).1.stopped
    · rfl
    · exact absurd ((stopped_iff _ pre inv hs hc hv).1 h) hroot
  obtain ⟨fsN, kN, recs, libN, levs, _, hrun, _⟩ := kernelOps_files burst _ (hr.2.2 hst) hst hr.2.1 hb
  rw [burst_files _ burst (hr.2.2 hst) hst hr.2.1 hb, hrun]
  exact ⟨hr.2.1, hst⟩

/-- … and under a non-recursive watch no burst of valid operations whatsoever does (root not removed) -/
theorem no_crash_burst_nonrecursive_partial (fs0 : FS) (hwf : fs0.WF) (full : Bool) (pre burst : List Op)
    (hv : allValid (Sys.start fs0 false full) pre = true) (hroot : Op.rmdir ["W"] ∉ pre)
    (hb : allValidNoRoot ((Sys.start fs0 false full).run pre).1 burst = true) :
    (((Sys.start fs0 false full).run pre).1.burst burst).1.crashed = false ∧
    (((Sys.start fs0 false full).run pre).1.burst burst).1.stopped = false := by
  obtain ⟨inv, hs, hc, _, _⟩ := start_flat fs0 hwf full
  have hr := run_flat _ pre inv hs hc hv
  have hst : ((Sys.start fs0 false full).run pre).1.stopped = false := by
    cases h : ((Sys.start fs0 false full).run pre).1.stopped
    · rfl
    · exact absurd ((stopped_iff_flat _ pre inv hs hc hv).1 h) hroot
  obtain ⟨fsN, kN, recs, libN, _, hrun, _⟩ := kernelOps_flat burst _ (hr.2.2 hst) hst hr.2.1 hb
  rw [burst_flat _ burst (hr.2.2 hst) hst hr.2.1 hb, hrun]
  exact ⟨hr.2.1, hst⟩

/-- non-vacuity: the history that used to kill the reader thread (move a watched directory out, re-create
    and remove its name, remove the moved directory), then the root goes away -/
example :
    let fs0 := (kernelOp FS.init ⟨[], 1, 1⟩ (.mkdir ["W", "d"])).1
    let ops := [Op.rename ["W", "d"] ["O", "x"], .mkdir ["W", "d"], .rmdir ["W", "d"], .rmdir ["O", "x"], .create ["W", "a"],
                .unlink ["W", "a"], .rmdir ["W"], .create ["O", "b"]]
    allValid (Sys.start fs0 true false) ops = true ∧ ((Sys.start fs0 true false).run ops).1.crashed = false ∧
    ((Sys.start fs0 true false).run ops).1.stopped = true ∧
    (((Sys.start fs0 true false).run ops).2.map (·.map PEv.toEvent)).drop 6 = [[⟨.DirDeletedEvent, "W", "", false⟩], []] := by
  decide +kernel


/-- a nested burst (`mkdir`s and file creations at any depth, read as one batch) neither kills the reader nor stops
    the emitter -/
theorem no_crash_growth_burst_partial (fs0 : FS) (hwf : fs0.WF) (full : Bool) (pre burst : List Op)
    (hv : allValid (Sys.start fs0 true full) pre = true) (hroot : Op.rmdir ["W"] ∉ pre)
    (hb : allFill ((Sys.start fs0 true full).run pre).1.fs burst = true) :
    (((Sys.start fs0 true full).run pre).1.burst burst).1.crashed = false ∧
    (((Sys.start fs0 true full).run pre).1.burst burst).1.stopped = false := by
  obtain ⟨inv, hs, hc⟩ := after_history fs0 hwf full pre hv hroot
  obtain ⟨_, h2, h3, _⟩ := burst_grow _ burst inv hs hc hb
  exact ⟨h3, h2⟩


/-- over PACED histories (single operations of any kind other than removing the root, bursts of file operations, nested
    creation bursts, each burst read as one batch) the reader never crashes and the emitter never stops -/
theorem no_crash_paced_partial (fs0 : FS) (hwf : fs0.WF) (full : Bool) (bs : List (List Op))
    (hb : pacedOK (Sys.start fs0 true full) bs) :
    ((Sys.start fs0 true full).runBursts bs).1.crashed = false ∧ ((Sys.start fs0 true full).runBursts bs).1.stopped = false := by
  obtain ⟨inv, hs, hc, _, _⟩ := start_rec fs0 hwf full
  obtain ⟨_, h2, h3, _⟩ := paced_run bs _ inv hs hc hb
  exact ⟨h3, h2⟩

end WD.C07
