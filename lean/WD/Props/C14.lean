/-
  C14 — Synthetic events for a moved / newly arrived directory name every descendant once and
  correctly.  Statements are for *all* trees and names (any depth, any width, names that repeat
  the directory's own path included).
-/
import WD.Proofs.SubEvents
namespace WD.C14
open WD

/-- the directory path handed to the generators: non-empty, no trailing separator
    (the library always passes `os.path.join(parent, name)` of a real entry) -/
def goodRoot (r : PStr) : Prop := r ≠ [] ∧ r.getLast? ≠ some '/'

/-- moved: exactly one event per descendant, in walk order; destination = new directory path ++ the
    descendant's relative path, source = old directory path ++ the *same* relative path (or absent
    when the old path is unknown); kind = the descendant's kind -/
theorem moved_paths (src dst : PStr) (ch : List Node) (hd : goodRoot dst) (hn : namesOk ch = true) :
    subMovedEvents src dst ch =
      (walkSuf [] ch).map (fun x => ⟨x.2, if src = [] then [] else src ++ x.1, dst ++ x.1⟩) :=
  Proofs.moved_paths src dst ch hd.1 hd.2 hn

/-- created: exactly one event per descendant with its real path and kind -/
theorem created_paths (dir : PStr) (ch : List Node) (hd : goodRoot dir) (hn : namesOk ch = true) :
    subCreatedEvents dir ch = (walkSuf [] ch).map (fun x => ⟨x.2, dir ++ x.1, []⟩) :=
  Proofs.created_paths dir ch hd.1 hd.2 hn

/-- the walk enumerates exactly the descendants (each once): it is a permutation of the plain
    pre-order enumeration of the tree -/
theorem one_per_descendant (ch : List Node) : (walkSuf [] ch).Perm (descSuf [] ch) :=
  Proofs.walkSuf_perm [] ch

/-- distinct descendants have distinct relative paths -/
theorem descendants_nodup (ch : List Node) (hn : namesOk ch = true) (hu : siblingsUnique ch = true) :
    ((descSuf [] ch).map Prod.fst).Nodup :=
  Proofs.descSuf_nodup [] ch hn hu

/-- parents come before their children: whenever an event for `p/n` is produced and `p` is itself a
    descendant (`p ≠ ""`), the event for directory `p` was produced earlier -/
theorem parents_first (ch : List Node) (hn : namesOk ch = true) (l1 l2 : List (PStr × Bool)) (x : PStr × Bool)
    (h : walkSuf [] ch = l1 ++ x :: l2) (p n : PStr) (hx : x.1 = p ++ '/' :: n) (hp : p ≠ [])
    (hnn : '/' ∉ n) : (p, true) ∈ l1 :=
  Proofs.parents_first ch hn l1 l2 x h p n hx hp hnn

/-- the same prefix rewrite on the keys of the watch map -/
theorem rekey_paths (old new rel : PStr) : rekeyPath old new (old ++ '/' :: rel) = new ++ '/' :: rel :=
  Proofs.rekey_under old new rel

theorem rekey_other (old new p : PStr) (h : (old ++ ['/']).isPrefixOf p = false) : rekeyPath old new p = p := by
  simp [rekeyPath, h]

/-- non-vacuity + the collision the property singles out: a descendant whose name repeats the
    directory's own (relative) path is rewritten correctly (`d/d` under new name `d`, old name `s`
    becomes `s/d`, not `s/s`) -/
example : subMovedEvents ['s'] ['d'] [.dir ['d'] [.file ['d']]] =
    [⟨true, ['s', '/', 'd'], ['d', '/', 'd']⟩, ⟨false, ['s', '/', 'd', '/', 'd'], ['d', '/', 'd', '/', 'd']⟩] := by
  simp [subMovedEvents, walkEvents, walkBelow, mkMoved, rewritePrefix, pjoin, List.filter, Node.isDir,
    Node.name]

end WD.C14
