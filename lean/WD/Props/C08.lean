/-
  C08 — A rename arrives as one paired move; no native event is lost or duplicated.
  The buffer = the delay queue (same steps as C17's model) + the reader's grouping.  Statements are
  for all thread scripts / schedules / clock advances (queue part) and all batches (grouping part).
-/
import WD.Proofs.InoBuffer
namespace WD.C08
open WD.IB

variable (delay : Nat) (scripts : List (List Op)) (as : List Action)

/-- nothing lost, nothing duplicated, kernel order: what was put and not pulled back out by a pairing
    look-up is, in order, what the consumer got followed by what still waits -/
theorem accounting (h : distinctPuts scripts) :
    live (run (init delay scripts) as).hist =
      gots (run (init delay scripts) as).hist ++ (run (init delay scripts) as).queue.map Entry.elem :=
  ProofsIB.accounting delay scripts as h

/-- never both alone and in a pair: an element is handed to the consumer or taken by a pairing
    look-up, never both, never twice -/
theorem never_both (h : distinctPuts scripts) :
    (gots (run (init delay scripts) as).hist ++ removeds (run (init delay scripts) as).hist).Nodup :=
  ProofsIB.never_both delay scripts as h

/-- in kernel order -/
theorem order (h : distinctPuts scripts) :
    (gots (run (init delay scripts) as).hist).Sublist (puts (run (init delay scripts) as).hist) :=
  ProofsIB.order delay scripts as h

/-- an unmatched first half is delivered alone no earlier than the pairing delay -/
theorem alone_not_early (h : distinctPuts scripts) (tid tid' : Nat) (e : Elem) (t t0 : Nat)
    (hg : Obs.got tid e t ∈ (run (init delay scripts) as).hist)
    (hp : Obs.put tid' e true t0 ∈ (run (init delay scripts) as).hist) : t0 + delay ≤ t :=
  ProofsIB.alone_not_early delay scripts as h tid tid' e t t0 hg hp

/-- until its delay has elapsed a first half is still in the queue (unless a look-up took it) ... -/
theorem pending_until_delay (h : distinctPuts scripts) (tid : Nat) (e : Elem) (t0 : Nat)
    (hp : Obs.put tid e true t0 ∈ (run (init delay scripts) as).hist)
    (hr : e ∉ removeds (run (init delay scripts) as).hist)
    (hc : (run (init delay scripts) as).clock < t0 + delay) :
    e ∈ (run (init delay scripts) as).queue.map Entry.elem :=
  ProofsIB.pending_until_delay delay scripts as h tid e t0 hp hr hc

/-- ... so a second half whose look-up happens before that finds a first half with its cookie:
    the two halves are delivered as one pair whenever the second arrives in time, however the
    buffer was cut into reads and however the threads interleave -/
theorem pairs_when_in_time (h : distinctPuts scripts) (tid tid' : Nat) (t : Thread) (e : Elem) (t0 v : Nat)
    (hp : Obs.put tid' e true t0 ∈ (run (init delay scripts) as).hist)
    (hr : e ∉ removeds (run (init delay scripts) as).hist)
    (hc : (run (init delay scripts) as).clock < t0 + delay)
    (ht : (run (init delay scripts) as).thread? tid = some t) (hpc : t.pc = .remAcq v) (hv : e.val = v) :
    ∃ s1 e', step (run (init delay scripts) as) tid = some s1 ∧ e'.val = v ∧
      s1.hist = (run (init delay scripts) as).hist ++ [.removed tid e' (run (init delay scripts) as).clock] :=
  ProofsIB.pairs_when_in_time delay scripts as h tid tid' t e t0 v hp hr hc ht hpc hv

/-- grouping loses and invents nothing: the records of the grouped items are a permutation of the batch -/
theorem group_covers (batch : List Rec) (slot0 : Nat) :
    ((groupBatch batch slot0).1.flatMap itemRecs).Perm batch :=
  ProofsIB.group_covers batch slot0

/-- an in-batch pair is the two halves of one rename -/
theorem group_pairs (batch : List Rec) (slot0 : Nat) (f t : Rec)
    (h : Item.pair f t ∈ (groupBatch batch slot0).1) :
    f.movedFrom = true ∧ t.movedTo = true ∧ f.cookie = t.cookie ∧ f ∈ batch ∧ t ∈ batch :=
  ProofsIB.group_pairs batch slot0 f t h

/-- singles keep their kernel order -/
theorem group_singles_order (batch : List Rec) (slot0 : Nat) :
    ((groupBatch batch slot0).1.filterMap (fun it => match it with | .single r => some r | _ => none)).Sublist batch :=
  ProofsIB.group_singles_order batch slot0

/-- non-vacuity: a rename cut across two reads, the second within the delay: delivered as one pair -/
example :
    let c := compile [(0, [⟨1, 7, true, false, false, false, false⟩]), (3, [⟨2, 7, false, true, false, false, false⟩])]
    let s := run (init 4 [c.ops, [.get, .get], [.sleep 9, .setStop, .close, .join 0]])
      [.step 0, .step 1, .step 2, .step 0, .step 0, .step 1, .step 1, .tick 3, .step 0, .step 0, .step 0, .tick 1,
       .step 1, .step 1, .step 1, .step 1, .step 1]
    interpret c 0 s.hist = [.two 1 2 4] := by decide +kernel

end WD.C08
