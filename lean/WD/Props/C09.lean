/-
  C09 — A snapshot diff is a correct, minimal, inode-faithful description of the change.
  Property theorems only (helpers live in WD.Proofs.Snapshot).  All statements are for arbitrary
  well-formed snapshots (`Snap.WF` = "every inode has one path"), of any size.
-/
import WD.Proofs.Snapshot
namespace WD.C09
open WD WD.Spec

variable {ref snap : Snap}

/-- created iff the entry's identity is absent from the old snapshot -/
theorem created_iff (hr : ref.WF) (hs : snap.WF) (p : Path) :
    p ∈ (diff false ref snap).created ↔
      ∃ st, snap.stat? p = some st ∧ ∀ q sr, ref.stat? q = some sr → sr.id ≠ st.id := by
  simp only [diff, created2, created1, List.mem_filter, getInode_false]
  constructor
  · rintro ⟨⟨hp, _⟩, h2⟩
    obtain ⟨st, hst⟩ := (snap.mem_paths_iff p).mp hp
    refine ⟨st, hst, ?_⟩
    have : snap.inode? p = some st.id := Snap.inode?_eq_some.mpr ⟨st, hst, rfl⟩
    simp only [this, Option.isNone_iff_eq_none] at h2
    exact (hr.pathOf_none_iff _).mp h2
  · rintro ⟨st, hst, hall⟩
    have hi : snap.inode? p = some st.id := Snap.inode?_eq_some.mpr ⟨st, hst, rfl⟩
    refine ⟨⟨(snap.mem_paths_iff p).mpr ⟨st, hst⟩, ?_⟩, ?_⟩
    · by_cases hc : ref.paths.contains p = true
      · obtain ⟨sr, hsr⟩ := (ref.contains_paths p).mp hc
        have hri : ref.inode? p = some sr.id := Snap.inode?_eq_some.mpr ⟨sr, hsr, rfl⟩
        have hne := hall p sr hsr
        simp [hi, hri, hne]
      · have hc' : p ∉ ref.paths := by simpa [List.contains_iff_mem] using hc
        simp [hc']
    · simp only [hi, Option.isNone_iff_eq_none]
      exact (hr.pathOf_none_iff _).mpr hall

/-- deleted iff the entry's identity is absent from the new snapshot -/
theorem deleted_iff (hr : ref.WF) (hs : snap.WF) (p : Path) :
    p ∈ (diff false ref snap).deleted ↔
      ∃ st, ref.stat? p = some st ∧ ∀ q ss, snap.stat? q = some ss → ss.id ≠ st.id := by
  simp only [diff, deleted2, deleted1, List.mem_filter, getInode_false]
  constructor
  · rintro ⟨⟨hp, _⟩, h2⟩
    obtain ⟨st, hst⟩ := (ref.mem_paths_iff p).mp hp
    refine ⟨st, hst, ?_⟩
    have : ref.inode? p = some st.id := Snap.inode?_eq_some.mpr ⟨st, hst, rfl⟩
    simp only [this, Option.isNone_iff_eq_none] at h2
    exact (hs.pathOf_none_iff _).mp h2
  · rintro ⟨st, hst, hall⟩
    have hi : ref.inode? p = some st.id := Snap.inode?_eq_some.mpr ⟨st, hst, rfl⟩
    refine ⟨⟨(ref.mem_paths_iff p).mpr ⟨st, hst⟩, ?_⟩, ?_⟩
    · by_cases hc : snap.paths.contains p = true
      · obtain ⟨ss, hss⟩ := (snap.contains_paths p).mp hc
        have hsi : snap.inode? p = some ss.id := Snap.inode?_eq_some.mpr ⟨ss, hss, rfl⟩
        have hne := hall p ss hss
        simp [hi, hsi, Ne.symm hne]
      · have hc' : p ∉ snap.paths := by simpa [List.contains_iff_mem] using hc
        simp [hc']
    · simp only [hi, Option.isNone_iff_eq_none]
      exact (hs.pathOf_none_iff _).mpr hall

/-- moved iff one and the same identity is found under a different path -/
theorem moved_iff (hr : ref.WF) (hs : snap.WF) (p q : Path) :
    (p, q) ∈ (diff false ref snap).moved ↔
      ∃ sr ss, ref.stat? p = some sr ∧ snap.stat? q = some ss ∧ sr.id = ss.id ∧ p ≠ q := by
  simp only [diff, unionPairs, List.mem_append, List.mem_filter, movedFromDeleted, movedFromCreated,
    List.mem_filterMap, deleted1, created1, getInode_false]
  constructor
  · rintro (⟨a, ⟨ha, hcond⟩, hm⟩ | ⟨⟨a, ⟨ha, hcond⟩, hm⟩, _⟩)
    · -- found in the first loop: a = p deleted-ish, q = snap.pathOf (ref.inode p)
      obtain ⟨sr, hsr⟩ := (ref.mem_paths_iff a).mp ha
      have hi : ref.inode? a = some sr.id := Snap.inode?_eq_some.mpr ⟨sr, hsr, rfl⟩
      simp only [hi, Option.map_eq_some_iff] at hm
      obtain ⟨q', hq', heq⟩ := hm
      cases heq
      obtain ⟨ss, hss, hid⟩ := hs.stat_of_pathOf hq'
      refine ⟨sr, ss, hsr, hss, hid.symm, ?_⟩
      intro hpq; subst hpq
      have hsi : snap.inode? p = some ss.id := Snap.inode?_eq_some.mpr ⟨ss, hss, rfl⟩
      have hc : p ∈ snap.paths := (snap.mem_paths_iff p).mpr ⟨ss, hss⟩
      simp [hi, hsi, hc, hid] at hcond
    · obtain ⟨ss, hss⟩ := (snap.mem_paths_iff a).mp ha
      have hi : snap.inode? a = some ss.id := Snap.inode?_eq_some.mpr ⟨ss, hss, rfl⟩
      simp only [hi, Option.map_eq_some_iff] at hm
      obtain ⟨p', hp', heq⟩ := hm
      cases heq
      obtain ⟨sr, hsr, hid⟩ := hr.stat_of_pathOf hp'
      refine ⟨sr, ss, hsr, hss, hid, ?_⟩
      intro hpq; subst hpq
      have hri : ref.inode? p = some sr.id := Snap.inode?_eq_some.mpr ⟨sr, hsr, rfl⟩
      have hc : p ∈ ref.paths := (ref.mem_paths_iff p).mpr ⟨sr, hsr⟩
      simp [hi, hri, hc, hid] at hcond
  · rintro ⟨sr, ss, hsr, hss, hid, hne⟩
    left
    refine ⟨p, ⟨(ref.mem_paths_iff p).mpr ⟨sr, hsr⟩, ?_⟩, ?_⟩
    · have hri : ref.inode? p = some sr.id := Snap.inode?_eq_some.mpr ⟨sr, hsr, rfl⟩
      by_cases hc : snap.paths.contains p = true
      · obtain ⟨sp, hsp⟩ := (snap.contains_paths p).mp hc
        have hsi : snap.inode? p = some sp.id := Snap.inode?_eq_some.mpr ⟨sp, hsp, rfl⟩
        have : sr.id ≠ sp.id := by
          intro h; apply hne
          exact hs.inj hsp hss (h ▸ hid)
        simp [hri, hsi, this]
      · have hc' : p ∉ snap.paths := by simpa [List.contains_iff_mem] using hc
        simp [hc']
    · have hri : ref.inode? p = some sr.id := Snap.inode?_eq_some.mpr ⟨sr, hsr, rfl⟩
      have := hs.pathOf_of_stat hss
      simp [hri, hid, this]

/-- modified (reported under the old path) iff identity kept and mtime or size changed -/
theorem modified_iff (hr : ref.WF) (hs : snap.WF) (p : Path) :
    p ∈ (diff false ref snap).modified ↔
      ∃ sr q ss, ref.stat? p = some sr ∧ snap.stat? q = some ss ∧ sr.id = ss.id ∧
        (sr.mtime ≠ ss.mtime ∨ sr.size ≠ ss.size) := by
  have hmv := fun a b => moved_iff hr hs a b
  simp only [diff] at hmv
  simp only [diff, unionPaths, List.mem_append, List.mem_eraseDups, List.mem_filter, modifiedUnmoved,
    modifiedMoved, List.mem_map, getInode_false]
  constructor
  · rintro (⟨hp, hcond⟩ | ⟨⟨⟨a, b⟩, ⟨hab, hd⟩, rfl⟩, _⟩)
    · obtain ⟨sr, hsr⟩ := (ref.mem_paths_iff p).mp hp
      simp only [Bool.and_eq_true, beq_iff_eq] at hcond
      obtain ⟨⟨hc, hids⟩, hd⟩ := hcond
      obtain ⟨ss, hss⟩ := (snap.contains_paths p).mp hc
      have hri : ref.inode? p = some sr.id := Snap.inode?_eq_some.mpr ⟨sr, hsr, rfl⟩
      have hsi : snap.inode? p = some ss.id := Snap.inode?_eq_some.mpr ⟨ss, hss, rfl⟩
      rw [hri, hsi] at hids
      simp only [hsr, hss, dataDiffers, Bool.or_eq_true, bne_iff_ne] at hd
      exact ⟨sr, p, ss, hsr, hss, by simpa using hids, hd⟩
    · obtain ⟨sr, ss, hsr, hss, hid, _⟩ := (hmv a b).mp hab
      simp only [hsr, hss, dataDiffers, Bool.or_eq_true, bne_iff_ne] at hd
      exact ⟨sr, b, ss, hsr, hss, hid, hd⟩
  · rintro ⟨sr, q, ss, hsr, hss, hid, hd⟩
    by_cases hpq : p = q
    · subst hpq
      left
      refine ⟨(ref.mem_paths_iff p).mpr ⟨sr, hsr⟩, ?_⟩
      have hri : ref.inode? p = some sr.id := Snap.inode?_eq_some.mpr ⟨sr, hsr, rfl⟩
      have hsi : snap.inode? p = some ss.id := Snap.inode?_eq_some.mpr ⟨ss, hss, rfl⟩
      have hc : snap.paths.contains p = true := (snap.contains_paths p).mpr ⟨ss, hss⟩
      simp only [hc, hri, hsi, hid, hsr, hss, dataDiffers, Bool.and_eq_true, beq_self_eq_true, true_and,
        Bool.or_eq_true, bne_iff_ne]
      exact hd
    · by_cases hun : p ∈ modifiedUnmoved false ref snap
      · left
        simpa only [modifiedUnmoved, List.mem_filter, getInode_false] using hun
      · right
        refine ⟨⟨(p, q), ⟨(hmv p q).mpr ⟨sr, ss, hsr, hss, hid, hpq⟩, ?_⟩, rfl⟩, ?_⟩
        · simp only [hsr, hss, dataDiffers, Bool.or_eq_true, bne_iff_ne]; exact hd
        · have key : (!(modifiedUnmoved false ref snap).contains p) = true := by
            simp [List.contains_iff_mem, hun]
          simpa only [modifiedUnmoved, getInode_false] using key

/-- the four lists exactly account for the change of the path set -/
theorem path_set_eq (hr : ref.WF) (hs : snap.WF) (p : Path) :
    p ∈ snap.paths ↔
      (p ∈ ref.paths ∧ p ∉ (diff false ref snap).deleted ∧ ∀ q, (p, q) ∉ (diff false ref snap).moved)
      ∨ p ∈ (diff false ref snap).created ∨ ∃ o, (o, p) ∈ (diff false ref snap).moved := by
  constructor
  · intro hp
    obtain ⟨ss, hss⟩ := (snap.mem_paths_iff p).mp hp
    -- where was this identity in the old snapshot?
    cases hro : ref.pathOf ss.id with
    | none =>
      right; left
      exact (created_iff hr hs p).mpr ⟨ss, hss, (hr.pathOf_none_iff _).mp hro⟩
    | some o =>
      obtain ⟨sr, hsr, hid⟩ := hr.stat_of_pathOf hro
      by_cases hop : o = p
      · subst hop
        left
        refine ⟨(ref.mem_paths_iff o).mpr ⟨sr, hsr⟩, ?_, ?_⟩
        · intro hd
          obtain ⟨st, hst, hall⟩ := (deleted_iff hr hs o).mp hd
          rw [hsr] at hst; cases hst
          exact hall o ss hss hid.symm
        · intro q hm
          obtain ⟨sr', ss', hsr', hss', hid', hne⟩ := (moved_iff hr hs o q).mp hm
          rw [hsr] at hsr'; cases hsr'
          exact hne (hs.inj hss hss' (hid.symm.trans hid'))
      · right; right
        exact ⟨o, (moved_iff hr hs o p).mpr ⟨sr, ss, hsr, hss, hid, hop⟩⟩
  · rintro (⟨hp, hnd, hnm⟩ | hc | ⟨o, hm⟩)
    · obtain ⟨sr, hsr⟩ := (ref.mem_paths_iff p).mp hp
      cases hso : snap.pathOf sr.id with
      | none =>
        exfalso; apply hnd
        exact (deleted_iff hr hs p).mpr ⟨sr, hsr, (hs.pathOf_none_iff _).mp hso⟩
      | some q =>
        obtain ⟨ss, hss, hid⟩ := hs.stat_of_pathOf hso
        by_cases hpq : p = q
        · subst hpq; exact (snap.mem_paths_iff p).mpr ⟨ss, hss⟩
        · exfalso; exact hnm q ((moved_iff hr hs p q).mpr ⟨sr, ss, hsr, hss, hid.symm, hpq⟩)
    · obtain ⟨st, hst, _⟩ := (created_iff hr hs p).mp hc
      exact (snap.mem_paths_iff p).mpr ⟨st, hst⟩
    · obtain ⟨_, ss, _, hss, _, _⟩ := (moved_iff hr hs o p).mp hm
      exact (snap.mem_paths_iff p).mpr ⟨ss, hss⟩

/-- diffing a snapshot against itself is empty -/
theorem self_empty (h : snap.WF) :
    (diff false snap snap).created = [] ∧ (diff false snap snap).deleted = [] ∧
    (diff false snap snap).moved = [] ∧ (diff false snap snap).modified = [] := by
  refine ⟨?_, ?_, ?_, ?_⟩
  · apply List.eq_nil_iff_forall_not_mem.mpr
    intro p hp
    obtain ⟨st, hst, hall⟩ := (created_iff h h p).mp hp
    exact hall p st hst rfl
  · apply List.eq_nil_iff_forall_not_mem.mpr
    intro p hp
    obtain ⟨st, hst, hall⟩ := (deleted_iff h h p).mp hp
    exact hall p st hst rfl
  · apply List.eq_nil_iff_forall_not_mem.mpr
    rintro ⟨p, q⟩ hp
    obtain ⟨a, b, ha, hb, hid, hne⟩ := (moved_iff h h p q).mp hp
    exact hne (h.inj ha hb hid)
  · apply List.eq_nil_iff_forall_not_mem.mpr
    intro p hp
    obtain ⟨a, q, b, ha, hb, hid, hd⟩ := (modified_iff h h p).mp hp
    have := h.inj ha hb hid
    subst this
    rw [ha] at hb; cases hb
    rcases hd with hd | hd <;> exact hd rfl

/-- swapping the arguments swaps created with deleted and reverses moves -/
theorem swap (hr : ref.WF) (hs : snap.WF) (p q : Path) :
    (p ∈ (diff false ref snap).created ↔ p ∈ (diff false snap ref).deleted) ∧
    (p ∈ (diff false ref snap).deleted ↔ p ∈ (diff false snap ref).created) ∧
    ((p, q) ∈ (diff false ref snap).moved ↔ (q, p) ∈ (diff false snap ref).moved) := by
  refine ⟨?_, ?_, ?_⟩
  · rw [created_iff hr hs, deleted_iff hs hr]
  · rw [deleted_iff hr hs, created_iff hs hr]
  · rw [moved_iff hr hs, moved_iff hs hr]
    constructor
    · rintro ⟨a, b, ha, hb, hid, hne⟩; exact ⟨b, a, hb, ha, hid.symm, Ne.symm hne⟩
    · rintro ⟨a, b, ha, hb, hid, hne⟩; exact ⟨b, a, hb, ha, hid.symm, Ne.symm hne⟩

/-- pairwise consistency: a move source is never also reported deleted, a move destination never
    created, a modified path never deleted; a source has one destination and vice versa -/
theorem consistent (hr : ref.WF) (hs : snap.WF) (p q q' : Path) :
    ((p, q) ∈ (diff false ref snap).moved → p ∉ (diff false ref snap).deleted ∧ q ∉ (diff false ref snap).created) ∧
    (p ∈ (diff false ref snap).modified → p ∉ (diff false ref snap).deleted) ∧
    ((p, q) ∈ (diff false ref snap).moved → (p, q') ∈ (diff false ref snap).moved → q = q') ∧
    ((q, p) ∈ (diff false ref snap).moved → (q', p) ∈ (diff false ref snap).moved → q = q') := by
  refine ⟨?_, ?_, ?_, ?_⟩
  · intro hm
    obtain ⟨a, b, ha, hb, hid, _⟩ := (moved_iff hr hs p q).mp hm
    constructor
    · intro hd
      obtain ⟨st, hst, hall⟩ := (deleted_iff hr hs p).mp hd
      rw [ha] at hst; cases hst
      exact hall q b hb hid.symm
    · intro hc
      obtain ⟨st, hst, hall⟩ := (created_iff hr hs q).mp hc
      rw [hb] at hst; cases hst
      exact hall p a ha hid
  · intro hm hd
    obtain ⟨a, r, b, ha, hb, hid, _⟩ := (modified_iff hr hs p).mp hm
    obtain ⟨st, hst, hall⟩ := (deleted_iff hr hs p).mp hd
    rw [ha] at hst; cases hst
    exact hall r b hb hid.symm
  · intro h1 h2
    obtain ⟨a, b, ha, hb, hid, _⟩ := (moved_iff hr hs p q).mp h1
    obtain ⟨a', b', ha', hb', hid', _⟩ := (moved_iff hr hs p q').mp h2
    rw [ha] at ha'; cases ha'
    exact hs.inj hb hb' (hid.symm.trans hid')
  · intro h1 h2
    obtain ⟨a, b, ha, hb, hid, _⟩ := (moved_iff hr hs q p).mp h1
    obtain ⟨a', b', ha', hb', hid', _⟩ := (moved_iff hr hs q' p).mp h2
    rw [hb] at hb'; cases hb'
    exact hr.inj ha ha' (hid.trans hid'.symm)

/-- every entry of the four lists appears in exactly one of the file/directory lists, by kind -/
theorem kind_partition (d : Diff) (ref snap : Snap) (p : Path) (x : Path × Path) :
    let l := d.lists ref snap
    (p ∈ d.created ↔ (p ∈ l.filesCreated ∨ p ∈ l.dirsCreated)) ∧
    (p ∈ l.dirsCreated → p ∉ l.filesCreated ∧ snap.isdirD p = true) ∧
    (p ∈ l.filesCreated → snap.isdirD p = false) ∧
    (p ∈ d.deleted ↔ (p ∈ l.filesDeleted ∨ p ∈ l.dirsDeleted)) ∧
    (p ∈ l.dirsDeleted → p ∉ l.filesDeleted ∧ ref.isdirD p = true) ∧
    (p ∈ l.filesDeleted → ref.isdirD p = false) ∧
    (p ∈ d.modified ↔ (p ∈ l.filesModified ∨ p ∈ l.dirsModified)) ∧
    (p ∈ l.dirsModified → p ∉ l.filesModified ∧ ref.isdirD p = true) ∧
    (p ∈ l.filesModified → ref.isdirD p = false) ∧
    (x ∈ d.moved ↔ (x ∈ l.filesMoved ∨ x ∈ l.dirsMoved)) ∧
    (x ∈ l.dirsMoved → x ∉ l.filesMoved ∧ ref.isdirD x.1 = true) ∧
    (x ∈ l.filesMoved → ref.isdirD x.1 = false) := by
  simp only [Diff.lists, List.mem_filter, List.contains_iff_mem, Bool.not_eq_true', decide_eq_false_iff_not,
    decide_eq_true_eq, Bool.not_eq_eq_eq_not, Bool.not_true]
  refine ⟨?_, ?_, ?_, ?_, ?_, ?_, ?_, ?_, ?_, ?_, ?_, ?_⟩ <;>
    first
      | (constructor
         · intro h; by_cases hk : snap.isdirD p = true <;> simp_all
         · rintro (h | h) <;> exact h.1)
      | (constructor
         · intro h; by_cases hk : ref.isdirD p = true <;> simp_all
         · rintro (h | h) <;> exact h.1)
      | (constructor
         · intro h; by_cases hk : ref.isdirD x.1 = true <;> simp_all
         · rintro (h | h) <;> exact h.1)
      | (intro h; simp_all)

/-- with `ignore_device`, a pure change of device id is no change -/
theorem ignore_device_pure (f : Nat → Nat) (hr : ref.WF)
    (hsnap : snap.stats = ref.stats.map (fun e => (e.1, { e.2 with dev := f e.2.dev }))) :
    (diff true ref snap).created = [] ∧ (diff true ref snap).deleted = [] ∧
    (diff true ref snap).moved = [] ∧ (diff true ref snap).modified = [] := by
  have hlook : ∀ p, snap.stat? p = (ref.stat? p).map (fun st => { st with dev := f st.dev }) := by
    intro p
    simp only [Snap.stat?, hsnap]
    induction ref.stats with
    | nil => rfl
    | cons hd t ih =>
      obtain ⟨k, v⟩ := hd
      simp only [List.map_cons, alookup_cons]
      split <;> simp [ih]
  have hpaths : snap.paths = ref.paths := by
    simp [Snap.paths, akeys, hsnap, List.map_map, Function.comp_def]
  have hget : ∀ p, getInode true ref p = getInode true snap p := by
    intro p; simp only [getInode, hlook]; cases ref.stat? p <;> simp
  have hc : created1 true ref snap = [] := by
    apply List.eq_nil_iff_forall_not_mem.mpr
    intro p hp
    simp only [created1, List.mem_filter, hpaths, hget] at hp
    obtain ⟨h1, h2⟩ := hp
    simp [List.contains_iff_mem, h1] at h2
  have hd : deleted1 true ref snap = [] := by
    apply List.eq_nil_iff_forall_not_mem.mpr
    intro p hp
    simp only [deleted1, List.mem_filter, hpaths, hget] at hp
    obtain ⟨h1, h2⟩ := hp
    simp [List.contains_iff_mem, h1] at h2
  have hm : (diff true ref snap).moved = [] := by
    simp [diff, hc, hd, unionPairs, movedFromDeleted, movedFromCreated]
  refine ⟨by simp [diff, hc, created2], by simp [diff, hd, deleted2], hm, ?_⟩
  simp only [diff] at hm
  simp only [diff, hm, unionPaths, modifiedMoved, List.filter_nil, List.map_nil, List.eraseDups_nil,
    List.append_nil]
  apply List.eq_nil_iff_forall_not_mem.mpr
  intro p hp
  simp only [modifiedUnmoved, List.mem_filter, hlook, Bool.and_eq_true] at hp
  obtain ⟨_, _, h3⟩ := hp
  cases hq : ref.stat? p with
  | none => simp [hq] at h3
  | some st => simp [hq, dataDiffers] at h3

/-- when no device id differs, `ignore_device` changes nothing -/
theorem ignore_device_same_dev (d : Nat) (hr : ∀ e ∈ ref.stats, e.2.dev = d) (hs : ∀ e ∈ snap.stats, e.2.dev = d) :
    ∀ p, (getInode true ref p == getInode true snap p) = (getInode false ref p == getInode false snap p) := by
  intro p
  simp only [getInode, Snap.stat?]
  cases h1 : alookup p ref.stats with
  | none => cases h2 : alookup p snap.stats <;> simp
  | some a =>
    cases h2 : alookup p snap.stats with
    | none => simp
    | some b =>
      have ha := hr _ (alookup_some_mem h1)
      have hb := hs _ (alookup_some_mem h2)
      simp only [Option.map_some, ite_true, Stat.id] at *
      simp only [ha, hb]
      rw [Bool.eq_iff_iff, beq_iff_eq, beq_iff_eq]; simp

/-- snapshots built from a walk in which every inode has one path are well-formed
    (so the hypotheses of the theorems above are met by what `DirectorySnapshot.__init__` builds) -/
theorem build_wf (es : List (Path × Stat)) (h : entriesWF es = true) : (Snap.build es).WF := by
  rw [build_eq_of_wf es h]
  simp only [entriesWF, Bool.and_eq_true, decide_eq_true_eq, List.all_eq_true, bne_iff_ne] at h
  obtain ⟨⟨h1, h2⟩, h3⟩ := h
  have nd1 : keysNodup es := h1
  have nd2 : keysNodup (es.map (fun e => (e.2.id, e.1))) := by
    simpa [keysNodup, akeys, List.map_map, Function.comp_def] using h2
  refine ⟨nd1, nd2, ?_, ?_⟩
  · intro i p
    rw [alookup_some_iff nd2]
    constructor
    · intro hm
      obtain ⟨e, he, heq⟩ := List.mem_map.mp hm
      cases heq
      exact ⟨e.2, (alookup_some_iff nd1).mpr he, rfl⟩
    · rintro ⟨st, hst, hid⟩
      exact List.mem_map.mpr ⟨(p, st), (alookup_some_iff nd1).mp hst, by simp [hid]⟩
  · intro p hp
    obtain ⟨e, he, rfl⟩ := List.mem_map.mp hp
    exact h3 e he

/-- non-vacuity: a concrete non-trivial well-formed pair (two names swapped, one inode re-used
    for a new entry, one entry modified in place) meets the hypotheses, and the diff is what one expects -/
def exRef : Snap := Snap.build [("r", ⟨100, 1, true, 1, 0⟩), ("r/a", ⟨1, 1, false, 1, 0⟩), ("r/b", ⟨2, 1, false, 1, 0⟩),
  ("r/c", ⟨3, 1, false, 1, 0⟩), ("r/d", ⟨4, 1, true, 1, 0⟩)]
def exSnap : Snap := Snap.build [("r", ⟨100, 1, true, 2, 0⟩), ("r/a", ⟨2, 1, false, 1, 0⟩), ("r/b", ⟨1, 1, false, 1, 0⟩),
  ("r/e", ⟨5, 1, false, 1, 0⟩), ("r/d", ⟨4, 1, true, 1, 7⟩)]
example : exRef.WF ∧ exSnap.WF := ⟨build_wf _ (by decide), build_wf _ (by decide)⟩
example : (diff false exRef exSnap).moved = [("r/a", "r/b"), ("r/b", "r/a")] ∧
    (diff false exRef exSnap).created = ["r/e"] ∧ (diff false exRef exSnap).deleted = ["r/c"] ∧
    (diff false exRef exSnap).modified = ["r", "r/d"] := by decide

end WD.C09
