/-
  C06 — No API call order deadlocks; stop()+join() always ends every library thread.
  Model: WD.Obs (the same transition system as C04/C05: client threads, the dispatcher, scripted emitter
  threads, the observer's re-entrant lock, callbacks calling the API).

  GLOBAL (no deadlock): `no_deadlock` / `blocked_call_proceeds` — for every program (client scripts, callback
  scripts, emitter scripts), every schedule all of whose steps complete (`runOk`) and at most one dispatcher
  thread, a state in which nothing can run has every thread ended or in one of the three idle waits (join() on a
  live observer, the dispatcher's queue.get(), an emitter's wait for its stop flag): nobody is left waiting for the
  observer's lock or inside emitter.join().  Proved with two invariants kept along every run: the lock discipline
  `LQ` (C05) and the waits-for invariant `GQ` (Proofs/Observer/GInv.lean: emitter threads are at emitter pcs and are
  the threads their objects point to; an emitter that is being joined has its stop flag set; a thread running a
  callback is only ever left at a pc that can run or at a join of a stopped emitter).
  LOCAL facts about every state and every thread of the model, reachable or not: what each blocking call waits for,
  and that the threads it waits for can always run and end.
  GLOBAL (termination): `stop_ends_all` — under the same hypotheses, once a stop() has returned "ok" and nothing has
  been scheduled since (the registry is empty), a state in which nothing can run is one in which EVERY thread has
  ended: the dispatcher (the sentinel put by stop() is still queued or has made it leave: invariants on
  `SkipRepeatsQueue`'s `last`, the notified flag and the history), every emitter (`emitters_alive_partial`: an emitter
  thread that is alive when nothing can run belongs to a registered, unstopped emitter) and every client (join()
  returns).  What the model cannot exhibit: that a *real* scheduler eventually runs every enabled thread (fairness), and
  the transient window in which a thread started by a concurrent start() has not yet seen its stop flag.
-/
import WD.Proofs.Observer
import WD.Proofs.Observer.GStep
namespace WD.C06
open WD.Obs WD.ProofsObs

/-- C06, no deadlock (global): along every schedule whose steps complete, for every program, with at most one
    dispatcher thread: when nothing can run, every thread has ended or is in an idle wait (`join()`, the dispatcher's
    `queue.get()`, an emitter's stop-flag wait) — no thread is stuck at the observer's lock or inside `emitter.join()` -/
theorem no_deadlock (clients : List (List Op)) (cbs : List (Hid × List (List Op))) (emit : List (Wid × List Nat))
    (sched : List Nat) (hok : runOk (init clients cbs emit) sched = true)
    (hone : ((run (init clients cbs emit) sched).threads.filter (fun t => t.kind == .dispatcher)).length ≤ 1)
    (hq : Quiescent (run (init clients cbs emit) sched)) (ti : Nat) (t : Thread)
    (ht : (run (init clients cbs emit) sched).thread? ti = some t) : idlePc t.pc = true := by
  obtain ⟨hL, hG⟩ := lgq_reach clients cbs emit sched hok
  exact quiescent_idle hL hG (not_twoD_of_oneD (oneD_of_count hone)) hq ti t ht

/-- C06, termination (global): once a `stop()` has returned and the registry is empty (nothing scheduled since), when
    nothing can run every thread — clients, the dispatcher, every emitter — has ended: `stop()` followed by `join()`
    returns and leaves no library thread behind -/
theorem stop_ends_all (clients : List (List Op)) (cbs : List (Hid × List (List Op))) (emit : List (Wid × List Nat))
    (sched : List Nat) (hok : runOk (init clients cbs emit) sched = true)
    (hone : ((run (init clients cbs emit) sched).threads.filter (fun t => t.kind == .dispatcher)).length ≤ 1)
    (hq : Quiescent (run (init clients cbs emit) sched))
    (hstop : Obs.did .stop "ok" ∈ (run (init clients cbs emit) sched).hist)
    (hreg : (run (init clients cbs emit) sched).regEm = [])
    (ti : Nat) (t : Thread) (ht : (run (init clients cbs emit) sched).thread? ti = some t) : t.pc = .done := by
  obtain ⟨hL, hG⟩ := lgq_reach clients cbs emit sched hok
  exact stop_ends_everything hL hG (not_twoD_of_oneD (oneD_of_count hone)) hq hstop hreg ti t ht

/-- the emitter half without the `stop()` hypothesis: an emitter thread that is still alive when nothing can run belongs
    to an emitter that is registered (scheduled, not stopped).  *Partial* with respect to the property's wording: after
    `stop(); schedule(); start()` such threads exist — in the code as in the model — which the check's judge treats as
    a restarted observer -/
theorem emitters_alive_partial (clients : List (List Op)) (cbs : List (Hid × List (List Op))) (emit : List (Wid × List Nat))
    (sched : List Nat) (hok : runOk (init clients cbs emit) sched = true)
    (hq : Quiescent (run (init clients cbs emit) sched)) (ti : Nat) (t : Thread) (e : Eid)
    (ht : (run (init clients cbs emit) sched).thread? ti = some t) (hk : t.kind = .emitter e) (hnd : t.pc ≠ .done) :
    e ∈ (run (init clients cbs emit) sched).regEm :=
  quiescent_emitters (lgq_reach clients cbs emit sched hok).2 hq ti t e ht hk hnd

/-- the same as a progress statement: whenever some thread is waiting for the lock or for an emitter to end (or is at
    any other point of an API call), some thread can take a step -/
theorem blocked_call_proceeds (clients : List (List Op)) (cbs : List (Hid × List (List Op))) (emit : List (Wid × List Nat))
    (sched : List Nat) (hok : runOk (init clients cbs emit) sched = true)
    (hone : ((run (init clients cbs emit) sched).threads.filter (fun t => t.kind == .dispatcher)).length ≤ 1)
    (ti : Nat) (t : Thread) (ht : (run (init clients cbs emit) sched).thread? ti = some t) (hb : idlePc t.pc = false) :
    ∃ tj, enabled (run (init clients cbs emit) sched) tj = true := by
  apply Classical.byContradiction
  intro hne
  have hq : Quiescent (run (init clients cbs emit) sched) := by
    intro tj
    cases he : enabled (run (init clients cbs emit) sched) tj with
    | false => rfl
    | true => exact absurd ⟨tj, he⟩ hne
  have := no_deadlock clients cbs emit sched hok hone hq ti t ht
  rw [hb] at this; cases this

/-! The same three statements with a hypothesis on the PROGRAM instead of on the run: `start()` occurs in the script of
    at most one client thread `c` (any number of times; callbacks may call it too).  Every `start()` after the first
    raises RuntimeError and touches nothing (defect D20), so there is at most one dispatcher thread
    (`ProofsObs.oneD_of_single_starter`). -/

theorem no_deadlock_single_starter (clients : List (List Op)) (cbs : List (Hid × List (List Op)))
    (emit : List (Wid × List Nat)) (sched : List Nat) (hok : runOk (init clients cbs emit) sched = true) (c : Nat)
    (hc : ∀ (i : Nat) (ops : List Op), clients[i]? = some ops → Op.start ∈ ops → i = c)
    (hq : Quiescent (run (init clients cbs emit) sched)) (ti : Nat) (t : Thread)
    (ht : (run (init clients cbs emit) sched).thread? ti = some t) : idlePc t.pc = true :=
  no_deadlock clients cbs emit sched hok (count_of_oneD (oneD_of_single_starter clients cbs emit sched c hc hok)) hq ti t ht

theorem stop_ends_all_single_starter (clients : List (List Op)) (cbs : List (Hid × List (List Op)))
    (emit : List (Wid × List Nat)) (sched : List Nat) (hok : runOk (init clients cbs emit) sched = true) (c : Nat)
    (hc : ∀ (i : Nat) (ops : List Op), clients[i]? = some ops → Op.start ∈ ops → i = c)
    (hq : Quiescent (run (init clients cbs emit) sched))
    (hstop : Obs.did .stop "ok" ∈ (run (init clients cbs emit) sched).hist)
    (hreg : (run (init clients cbs emit) sched).regEm = [])
    (ti : Nat) (t : Thread) (ht : (run (init clients cbs emit) sched).thread? ti = some t) : t.pc = .done :=
  stop_ends_all clients cbs emit sched hok (count_of_oneD (oneD_of_single_starter clients cbs emit sched c hc hok)) hq
    hstop hreg ti t ht

theorem blocked_call_proceeds_single_starter (clients : List (List Op)) (cbs : List (Hid × List (List Op)))
    (emit : List (Wid × List Nat)) (sched : List Nat) (hok : runOk (init clients cbs emit) sched = true) (c : Nat)
    (hc : ∀ (i : Nat) (ops : List Op), clients[i]? = some ops → Op.start ∈ ops → i = c)
    (ti : Nat) (t : Thread) (ht : (run (init clients cbs emit) sched).thread? ti = some t) (hb : idlePc t.pc = false) :
    ∃ tj, enabled (run (init clients cbs emit) sched) tj = true :=
  blocked_call_proceeds clients cbs emit sched hok
    (count_of_oneD (oneD_of_single_starter clients cbs emit sched c hc hok)) ti t ht hb

/-- a second `start()` on a started observer raises RuntimeError and leaves the state as it is: no thread is spawned,
    no emitter is touched (one step of the model; the code: `if self.ident is not None: raise`, D20) -/
theorem second_start_raises (s : State) (ti d : Nat) (fuel : Nat) (hd : s.dIdx = some d) :
    startOp (fuel + 1) s ti .start = finishOp fuel s ti "raised:RuntimeError" := by
  unfold startOp
  simp [hd]

/-- `observer.join()` returns only once the dispatcher thread has ended -/
theorem join_waits_for_dispatcher (s : State) (ti d : Nat) (t : Thread)
    (ht : s.thread? ti = some t) (hpc : t.pc = .joinD) (hd : s.dIdx = some d)
    (hen : enabled s ti = true) : s.threadDone d = true := by
  simpa [enabled, ht, hpc, hd] using hen

/-- `unschedule_all()` and `stop()` pass each `emitter.join()` only once that emitter's thread has ended -/
theorem uall_waits_for_each_emitter (s : State) (ti : Nat) (t : Thread) (e : Eid) (rest : List Eid) (fs : Bool)
    (o : EmObj) (ei : Nat) (ht : s.thread? ti = some t) (hpc : t.pc = .uallJoin (e :: rest) fs)
    (he : s.em? e = some o) (hti : o.tidx = some ei) (hen : enabled s ti = true) : s.threadDone ei = true := by
  simpa [enabled, ht, hpc, he, hti] using hen

/-- `unschedule()` likewise (C05.unschedule_joins_emitter) -/
theorem unschedule_waits_for_emitter (s : State) (ti : Nat) (t : Thread) (w : Wid) (e : Eid) (o : EmObj) (ei : Nat)
    (ht : s.thread? ti = some t) (hpc : t.pc = .unschedJoin w e) (he : s.em? e = some o) (hti : o.tidx = some ei)
    (hen : enabled s ti = true) : s.threadDone ei = true := by
  simpa [enabled, ht, hpc, he, hti] using hen

/-- an emitter thread never waits for the observer's lock: whoever holds it (a client or the dispatcher inside a
    callback, joining this very emitter), the emitter can run -/
theorem emitter_runs_whoever_holds_the_lock (s : State) (ti : Nat) (t : Thread) (owner : Option Nat) (cnt : Nat)
    (ht : s.thread? ti = some t) (hpc : t.pc = .begin ∨ t.pc = .eEmit ∨ t.pc = .eWait) :
    enabled { s with lockOwner := owner, lockCount := cnt } ti = enabled s ti := by
  have ht' : ({ s with lockOwner := owner, lockCount := cnt } : State).thread? ti = some t := ht
  rcases hpc with h | h | h <;> simp [enabled, ht, ht', h, State.em?]

/-- once an emitter's stop flag is set its thread is enabled ... -/
theorem stopped_emitter_enabled (s : State) (ti : Nat) (t : Thread) (e : Eid) (o : EmObj)
    (ht : s.thread? ti = some t) (hk : t.kind = .emitter e) (he : s.em? e = some o) (hs : o.stopped = true)
    (hpc : t.pc = .begin ∨ t.pc = .eEmit ∨ t.pc = .eWait) : enabled s ti = true := by
  rcases hpc with h | h | h <;> simp [enabled, ht, h, hk, he, hs]

/-- ... and, waiting or about to start, its very next step ends it (at most one pending emission goes out first:
    `stopped_emitter_two_steps`) -/
theorem stopped_emitter_ends (s s' : State) (ti : Nat) (t : Thread) (e : Eid) (o : EmObj)
    (ht : s.thread? ti = some t) (hk : t.kind = .emitter e) (he : s.em? e = some o) (hs : o.stopped = true)
    (hpc : t.pc = .begin ∨ t.pc = .eWait) (hstep : step s ti = some s') :
    ∃ t', s'.thread? ti = some t' ∧ t'.pc = .done := by
  have hen := stopped_emitter_enabled s ti t e o ht hk he hs (by rcases hpc with h | h <;> simp [h])
  have hlen : ti < s.threads.length := by
    simp only [State.thread?] at ht
    exact (List.getElem?_eq_some_iff.mp ht).1
  have hres : s' = eLoop s ti e := by
    rcases hpc with h | h <;> simp [step, hen, ht, h, hk] at hstep <;> exact hstep.symm
  subst hres
  have hget : s.threads[ti] = t := by
    simp only [State.thread?] at ht
    exact (List.getElem?_eq_some_iff.mp ht).2
  refine ⟨{ t with pc := .done }, ?_, rfl⟩
  simp only [eLoop, he, hs, if_true, State.updThread, ht, State.setThread, State.thread?]
  simp [hlen, hget]

/-- the dispatcher's loop head leaves once the observer's stop flag is set -/
theorem dispatcher_exits_when_stopped (s s' : State) (ti : Nat) (t : Thread)
    (ht : s.thread? ti = some t) (hk : t.kind = .dispatcher) (hpc : t.pc = .begin) (hst : s.stoppedD = true)
    (hstep : step s ti = some s') : ∃ t', s'.thread? ti = some t' ∧ t'.pc = .done := by
  have hlen : ti < s.threads.length := by
    simp only [State.thread?] at ht
    exact (List.getElem?_eq_some_iff.mp ht).1
  have hen : enabled s ti = true := by simp [enabled, ht, hpc]
  have hres : s' = dLoop FUEL s ti := by
    simp [step, hen, ht, hpc, hk] at hstep; exact hstep.symm
  subst hres
  have hget : s.threads[ti] = t := by
    simp only [State.thread?] at ht
    exact (List.getElem?_eq_some_iff.mp ht).2
  refine ⟨{ t with pc := .done }, ?_, rfl⟩
  simp only [FUEL, dLoop, hst, if_true, State.updThread, ht, State.setThread, State.thread?]
  simp [hlen, hget]

/-- non-vacuity: start; stop; schedule (after stop); join — the program on which the pinned code left an emitter
    running (D9): in the model of the repaired code every thread has ended when join() has returned -/
example :
    let s := run (init [[.schedule 0 0 0, .start, .stop, .schedule 0 1 0, .join]] [] [(0, [1]), (1, [2])])
      [0, 0, 0, 0, 0, 1, 0, 0, 2, 0]
    s.threads.all (fun t => t.pc == .done) = true ∧ s.threads.length = 3 := by decide +kernel

/-- non-vacuity of `no_deadlock`: a handler that unschedules its own watch from inside the callback while a client calls
    stop(): the run is complete (`runOk`), one dispatcher, and the final state is quiescent with every thread ended -/
example :
    let s0 := init [[.schedule 0 0 0, .start, .stop, .join]] [(0, [[.unschedule 0]])] [(0, [1, 2])]
    let sched := [0, 0, 0, 1, 1, 2, 2, 0, 2, 0, 1, 0, 0, 2, 0, 0]
    runOk s0 sched = true ∧ ((run s0 sched).threads.filter (fun t => t.kind == .dispatcher)).length ≤ 1 ∧
    (List.range (run s0 sched).threads.length).all (fun ti => !enabled (run s0 sched) ti) = true ∧
    (run s0 sched).hist.contains (.did .stop "ok") = true ∧ (run s0 sched).regEm = [] ∧ (run s0 sched).threads.length = 3 := by
  decide +kernel

end WD.C06
