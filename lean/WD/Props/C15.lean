/-
  C15 — Handlers call exactly the callbacks the event type and match rules dictate.
  `m` (pathlib's PurePath.match), `lower` (str.lower) and `rm` (re.match) are parameters: the
  theorems hold for arbitrary matchers; the correspondence run supplies the real ones.
-/
import WD.Model.Events
import WD.Generated.EventClasses
namespace WD.C15
open WD

/-- the class table regenerated from the source on every run is the hand-written model's table -/
def modelTable : List (String × String × Bool × List String) :=
  [EvClass.DirCreatedEvent, .DirDeletedEvent, .DirModifiedEvent, .DirMovedEvent, .FileClosedEvent,
   .FileClosedNoWriteEvent, .FileCreatedEvent, .FileDeletedEvent, .FileModifiedEvent, .FileMovedEvent,
   .FileOpenedEvent, .FileSystemEvent, .FileSystemMovedEvent].map
    (fun c => (c.name, c.eventType, c.isDirectory,
      ([EvClass.DirCreatedEvent, .DirDeletedEvent, .DirModifiedEvent, .DirMovedEvent, .FileClosedEvent,
        .FileClosedNoWriteEvent, .FileCreatedEvent, .FileDeletedEvent, .FileModifiedEvent, .FileMovedEvent,
        .FileOpenedEvent, .FileSystemEvent, .FileSystemMovedEvent].filter (fun d => c.isSubclass d)).map EvClass.name))

theorem class_table : WD.Generated.eventClasses = modelTable := by decide

/-- base handler: on_any_event, then exactly the one on_<type> callback, once each, for every
    concrete event class (every class whose event_type is not the abstract base's "") -/
theorem base_dispatch (c : EvClass) (h : c ≠ .FileSystemEvent) :
    baseDispatch c = .calls ["on_any_event", "on_" ++ c.eventType] ∧
    ("on_" ++ c.eventType) ∈ callbacksOfType.map ("on_" ++ ·) := by
  cases c <;> first | exact absurd rfl h | decide

/-- the abstract base class has no callback of its own: dispatching it raises (after on_any_event) -/
theorem base_dispatch_abstract : baseDispatch .FileSystemEvent = .error "AttributeError" := by decide

variable (m : String → String → Bool) (lower : String → String)

/-- the pattern rule, stated outright -/
theorem pattern_iff (cfg : PatCfg) (e : Event)
    (hnc : ¬ ∃ p, p ∈ effInc lower cfg.caseSensitive cfg.patterns ∧ p ∈ effExc lower cfg.caseSensitive cfg.ignorePatterns) :
    patternDispatch m lower cfg e =
      if ¬ (cfg.ignoreDirectories = true ∧ e.cls.isDirectory = true) ∧
         ∃ p ∈ e.matchPaths, (∃ i ∈ effInc lower cfg.caseSensitive cfg.patterns, m p i = true) ∧
                             (∀ x ∈ effExc lower cfg.caseSensitive cfg.ignorePatterns, m p x = false)
      then baseDispatch e.cls else .calls [] := by
  unfold patternDispatch
  by_cases hd : (cfg.ignoreDirectories && e.cls.isDirectory) = true
  · have : cfg.ignoreDirectories = true ∧ e.cls.isDirectory = true := by simpa using hd
    simp [hd, this]
  · have hd' : ¬ (cfg.ignoreDirectories = true ∧ e.cls.isDirectory = true) := by simpa using hd
    simp only [hd, Bool.false_eq_true, if_false]
    have hconf : ¬ (e.matchPaths ≠ [] ∧ (effInc lower cfg.caseSensitive cfg.patterns).any
        (fun p => (effExc lower cfg.caseSensitive cfg.ignorePatterns).contains p) = true) := by
      rintro ⟨_, h⟩
      simp only [List.any_eq_true, List.contains_iff_mem] at h
      obtain ⟨p, hp1, hp2⟩ := h
      exact hnc ⟨p, hp1, hp2⟩
    simp only [matchAnyPaths, filterPaths, hconf, if_false, Option.map_some]
    by_cases hex : ∃ p ∈ e.matchPaths, (∃ i ∈ effInc lower cfg.caseSensitive cfg.patterns, m p i = true) ∧
        (∀ x ∈ effExc lower cfg.caseSensitive cfg.ignorePatterns, m p x = false)
    · have : (List.filter (matchPath m (effInc lower cfg.caseSensitive cfg.patterns)
          (effExc lower cfg.caseSensitive cfg.ignorePatterns)) e.matchPaths).isEmpty = false := by
        obtain ⟨p, hp, ⟨i, hi, hmi⟩, hx⟩ := hex
        rw [Bool.eq_false_iff]; intro hemp
        rw [List.isEmpty_iff] at hemp
        have : p ∈ List.filter (matchPath m (effInc lower cfg.caseSensitive cfg.patterns)
          (effExc lower cfg.caseSensitive cfg.ignorePatterns)) e.matchPaths := by
          rw [List.mem_filter]
          refine ⟨hp, ?_⟩
          simp only [matchPath, Bool.and_eq_true, List.any_eq_true, Bool.not_eq_true']
          refine ⟨⟨i, hi, hmi⟩, ?_⟩
          rw [Bool.eq_false_iff]; intro h
          simp only [List.any_eq_true] at h
          obtain ⟨x, hx1, hx2⟩ := h
          rw [hx x hx1] at hx2; exact absurd hx2 (by simp)
        rw [hemp] at this; simp at this
      simp [this, hd', hex]
    · have : (List.filter (matchPath m (effInc lower cfg.caseSensitive cfg.patterns)
          (effExc lower cfg.caseSensitive cfg.ignorePatterns)) e.matchPaths).isEmpty = true := by
        rw [List.isEmpty_iff]
        apply List.eq_nil_iff_forall_not_mem.mpr
        intro p hp
        rw [List.mem_filter] at hp
        apply hex
        refine ⟨p, hp.1, ?_⟩
        have h2 := hp.2
        simp only [matchPath, Bool.and_eq_true, List.any_eq_true, Bool.not_eq_true'] at h2
        refine ⟨h2.1, ?_⟩
        intro x hx
        rw [Bool.eq_false_iff]; intro hmx
        have := h2.2
        rw [Bool.eq_false_iff] at this
        exact this (List.any_eq_true.mpr ⟨x, hx, hmx⟩)
      simp [this, hex]

/-- a pattern that is both included and excluded is rejected as soon as a path is examined -/
theorem conflict_rejected (cs : Bool) (inc exc : Option (List String)) (paths : List String)
    (hp : paths ≠ []) (p : String) (h1 : p ∈ effInc lower cs inc) (h2 : p ∈ effExc lower cs exc) :
    filterPaths m lower cs inc exc paths = none := by
  unfold filterPaths
  have : (effInc lower cs inc).any (fun p => (effExc lower cs exc).contains p) = true :=
    List.any_eq_true.mpr ⟨p, h1, by simpa using h2⟩
  simp only [hp, this, ne_eq, not_false_eq_true, and_self, if_true]

/-- the path filter returns a sub-sequence of its input, consisting of exactly the matching paths -/
theorem filter_subsequence (cs : Bool) (inc exc : Option (List String)) (paths l : List String)
    (h : filterPaths m lower cs inc exc paths = some l) :
    l.Sublist paths ∧ ∀ p, p ∈ l ↔ p ∈ paths ∧ matchPath m (effInc lower cs inc) (effExc lower cs exc) p = true := by
  simp only [filterPaths] at h
  split at h
  · simp at h
  · simp only [Option.some.injEq] at h
    subst h
    exact ⟨List.filter_sublist, fun p => List.mem_filter⟩

/-- defaults: no include list means `*` (include all that pathlib matches with `*`), no exclude list
    means exclude none -/
theorem defaults (cs : Bool) (paths : List String) :
    filterPaths m lower cs none none paths = some (paths.filter (fun p => m p (if cs then "*" else lower "*"))) := by
  unfold filterPaths effInc effExc
  have : ∀ x : String, matchPath m [x] [] = fun p => m p x := by
    intro x; funext p; simp [matchPath]
  cases cs <;> simp [this]

variable (rm : String → String → Bool)

/-- the regex rule, stated outright -/
theorem regex_iff (cfg : ReCfg) (e : Event) :
    regexDispatch rm cfg e =
      if ¬ (cfg.ignoreDirectories = true ∧ e.cls.isDirectory = true) ∧
         (∀ r ∈ cfg.ignoreRegexes, ∀ p ∈ e.matchPaths, rm r p = false) ∧
         (∃ r ∈ cfg.regexes, ∃ p ∈ e.matchPaths, rm r p = true)
      then baseDispatch e.cls else .calls [] := by
  unfold regexDispatch
  by_cases hd : (cfg.ignoreDirectories && e.cls.isDirectory) = true
  · have : cfg.ignoreDirectories = true ∧ e.cls.isDirectory = true := by simpa using hd
    simp [hd, this]
  · have hd' : ¬ (cfg.ignoreDirectories = true ∧ e.cls.isDirectory = true) := by simpa using hd
    simp only [hd, Bool.false_eq_true, if_false]
    by_cases hi : cfg.ignoreRegexes.any (fun r => e.matchPaths.any (rm r)) = true
    · have : ¬ (∀ r ∈ cfg.ignoreRegexes, ∀ p ∈ e.matchPaths, rm r p = false) := by
        intro hall
        simp only [List.any_eq_true] at hi
        obtain ⟨r, hr, p, hp, hrp⟩ := hi
        rw [hall r hr p hp] at hrp; exact absurd hrp (by simp)
      simp [hi, this]
    · have hall : ∀ r ∈ cfg.ignoreRegexes, ∀ p ∈ e.matchPaths, rm r p = false := by
        intro r hr p hp
        rw [Bool.eq_false_iff]; intro h
        exact hi (List.any_eq_true.mpr ⟨r, hr, List.any_eq_true.mpr ⟨p, hp, h⟩⟩)
      simp only [hi, Bool.false_eq_true, if_false]
      by_cases hr : cfg.regexes.any (fun r => e.matchPaths.any (rm r)) = true
      · have : ∃ r ∈ cfg.regexes, ∃ p ∈ e.matchPaths, rm r p = true := by
          simpa only [List.any_eq_true] using hr
        have hcond : ¬ (cfg.ignoreDirectories = true ∧ e.cls.isDirectory = true) ∧
            (∀ r ∈ cfg.ignoreRegexes, ∀ p ∈ e.matchPaths, rm r p = false) ∧
            (∃ r ∈ cfg.regexes, ∃ p ∈ e.matchPaths, rm r p = true) := ⟨hd', hall, this⟩
        rw [if_pos hr, if_pos hcond]
      · have : ¬ ∃ r ∈ cfg.regexes, ∃ p ∈ e.matchPaths, rm r p = true := by
          intro h; apply hr; simpa only [List.any_eq_true] using h
        have hcond : ¬ (¬ (cfg.ignoreDirectories = true ∧ e.cls.isDirectory = true) ∧
            (∀ r ∈ cfg.ignoreRegexes, ∀ p ∈ e.matchPaths, rm r p = false) ∧
            (∃ r ∈ cfg.regexes, ∃ p ∈ e.matchPaths, rm r p = true)) := fun h => this h.2.2
        rw [if_neg hr, if_neg hcond]

/-- the paths that take part in matching are exactly the event's non-empty paths -/
theorem match_paths (e : Event) (p : String) :
    p ∈ e.matchPaths ↔ p ≠ "" ∧ (p = e.dest ∨ p = e.src) := by
  unfold Event.matchPaths
  by_cases h1 : e.dest = "" <;> by_cases h2 : e.src = "" <;> simp [h1, h2] <;> grind

/-- non-vacuity: a moved event whose source matches an include pattern and no exclude pattern is
    dispatched to on_any_event + on_moved; the same event is ignored when it is a directory event and
    directories are ignored -/
example :
    patternDispatch (fun p q => p == "a.py" && q == "*.py") id
      ⟨some ["*.py"], some ["*.txt"], false, true⟩ ⟨.FileMovedEvent, "a.py", "b.txt", false⟩
      = .calls ["on_any_event", "on_moved"] := by decide
example :
    patternDispatch (fun p q => p == "a.py" && q == "*.py") id
      ⟨some ["*.py"], some ["*.txt"], true, true⟩ ⟨.DirMovedEvent, "a.py", "b.txt", false⟩
      = .calls [] := by decide

end WD.C15
