/-
  C01 — Replaying the native event stream reproduces the real directory tree (recursive watch, every operation
  drained before the next).  For every well-formed initial tree and EVERY history of operations the file system
  accepts — create, write, chmod, delete, recursive delete, rename or replace of files and directories at any
  depth, moves out of the tree, moves of files or whole directory trees into it (and back), operations outside.

  `_partial`: of the regime "file operations back to back, directory operations paced" the model has the bursts of
  file creations / writes / attribute changes / file removals (`burst_simple_partial`: the reader sees the whole burst
  as one batch and looks at the file system as it is after the last operation); bursts with renames and nested
  directory creation are exercised on the real observer only.  The history does not remove the watched root itself
  (that case is C07.root_deleted: one DirDeletedEvent, stop).
-/
import WD.Proofs.Pipeline.ReplayRun
import WD.Proofs.Pipeline.ReplayFlat
import WD.Proofs.Pipeline.Burst
import WD.Proofs.Pipeline.BurstFiles
import WD.Proofs.Pipeline.BurstFlat
import WD.Proofs.Pipeline.BurstGrow
import WD.Proofs.Pipeline.Paced
import WD.Proofs.Pipeline.PacedFlat
import WD.Proofs.Pipeline.BurstMkRename
import WD.Proofs.Pipeline.Theorems
namespace WD.C01
open WD WD.Pipe

/-- applying the delivered created / deleted / moved events, in delivery order, to the tree as it stood when
    the watch started yields exactly the tree that exists afterwards -/
theorem replay_partial (fs0 : FS) (hwf : fs0.WF) (full : Bool) (ops : List Op)
    (hv : allValid (Sys.start fs0 true full) ops = true) (hroot : Op.rmdir ["W"] ∉ ops) :
    sameTree (replay (treeW fs0) (allEvents ((Sys.start fs0 true full).run ops)))
             (treeW ((Sys.start fs0 true full).run ops).1.fs) := by
  obtain ⟨inv, hs, hc, h4, h5⟩ := start_rec fs0 hwf full
  have hrun := (run_rec _ ops inv hs hc hv).1
  rw [h4, h5] at hrun
  rw [allValid_eq_fsValid, h4] at hv
  simp only [allEvents]
  rw [hrun, run_fs, h4]
  exact replay_run hwf full ops hv hroot

/-- non-recursive watch: the same for exactly the root's direct children -/
theorem replay_nonrecursive_partial (fs0 : FS) (hwf : fs0.WF) (full : Bool) (ops : List Op)
    (hv : allValid (Sys.start fs0 false full) ops = true) (hroot : Op.rmdir ["W"] ∉ ops) :
    sameTree (replay (treeW1 fs0) (allEvents ((Sys.start fs0 false full).run ops)))
             (treeW1 ((Sys.start fs0 false full).run ops).1.fs) := by
  obtain ⟨inv, hs, hc, h4, h5⟩ := start_flat fs0 hwf full
  have hrun := (run_flat _ ops inv hs hc hv).1
  rw [h4, h5] at hrun
  rw [allValid_eq_fsValid, h4] at hv
  simp only [allEvents]
  rw [hrun, run_fs, h4]
  exact replayFlat_run hwf full ops hv hroot

/-- the statement about the contract alone (no pipeline): one operation -/
theorem replay_contract_step (fs : FS) (hwf : fs.WF) (full : Bool) (op : Op) (hv : validOp fs op = true) :
    sameTree (replay (treeW fs) (contract fs true full op).1) (treeW (fsAfter fs op)) :=
  replay_contract hwf full op hv

/-- non-vacuity: a tree moved in from outside, changed inside, renamed, partly moved out again, a replace -/
example :
    let k0 : Kern := ⟨[], 1, 1⟩
    let fs0 := [Op.mkdir ["O", "d"], .create ["O", "d", "b"], .mkdir ["O", "d", "dd"], .create ["W", "b"]].foldl (fun fs op => (kernelOp fs k0 op).1) FS.init
    let ops := [Op.rename ["O", "d"] ["W", "dd"], .create ["W", "dd", "dd", "a"], .rename ["W", "dd"] ["W", "e"],
                .rename ["W", "e", "dd"] ["O", "x"], .rename ["W", "e", "b"] ["W", "b"], .rmtree ["W", "e"]]
    allValid (Sys.start fs0 true false) ops = true ∧ Op.rmdir ["W"] ∉ ops ∧
    treeW ((Sys.start fs0 true false).run ops).1.fs = [(["W", "b"], false)] ∧
    replay (treeW fs0) (allEvents ((Sys.start fs0 true false).run ops)) = [(["W", "b"], false)] := by decide +kernel

/-- **back to back**: after any drained history, a burst of file creations, writes, attribute changes and file removals
    ("file operations may follow each other without limit") that the reader only gets to see as ONE batch after the
    last of them - looking at the file system as it is then - leaves the observer in the same state and delivers the
    same events in the same order as the same operations drained one by one.  Every statement about drained
    histories (the replay above, coverage, the per-operation contract) therefore also holds with such bursts in them. -/
theorem burst_simple_partial (fs0 : FS) (hwf : fs0.WF) (full : Bool) (pre burst : List Op)
    (hv : allValid (Sys.start fs0 true full) pre = true) (hroot : Op.rmdir ["W"] ∉ pre)
    (hb : allSimple ((Sys.start fs0 true full).run pre).1 burst = true) :
    ((Sys.start fs0 true full).run pre).1.burst burst =
      ((((Sys.start fs0 true full).run pre).1.run burst).1, (((Sys.start fs0 true full).run pre).1.run burst).2.flatten) := by
  obtain ⟨inv, hs, hc, _, _⟩ := start_rec fs0 hwf full
  have hr := run_rec _ pre inv hs hc hv
  have hst : ((Sys.start fs0 true full).run pre).1.stopped = false := by
    cases h : ((Sys.start fs0 true full).run pre).1.stopped
    · rfl
    · exact absurd ((stopped_iff _ pre inv hs hc hv).1 h) hroot
  exact burst_simple _ burst (hr.2.2 hst) hst hr.2.1 hb

/-- **back to back, all file operations**: the same for bursts that also rename files, replace files by renaming onto
    them, and move files out of and into the tree - the whole "file operations may follow each other without limit" clause
    of the property.  (The cookies of the kernel pair each MOVED_TO with its own MOVED_FROM however many renames the batch
    holds; a file's old name is never a key of the watch map; what the emitter makes of a file's records does not depend
    on the file system it looks at.) -/
theorem burst_files_partial (fs0 : FS) (hwf : fs0.WF) (full : Bool) (pre burst : List Op)
    (hv : allValid (Sys.start fs0 true full) pre = true) (hroot : Op.rmdir ["W"] ∉ pre)
    (hb : allFile ((Sys.start fs0 true full).run pre).1 burst = true) :
    ((Sys.start fs0 true full).run pre).1.burst burst =
      ((((Sys.start fs0 true full).run pre).1.run burst).1, (((Sys.start fs0 true full).run pre).1.run burst).2.flatten) := by
  obtain ⟨inv, hs, hc, _, _⟩ := start_rec fs0 hwf full
  have hr := run_rec _ pre inv hs hc hv
  have hst : ((Sys.start fs0 true full).run pre).1.stopped = false := by
    cases h : ((Sys.start fs0 true full).run pre).1.stopped
    · rfl
    · exact absurd ((stopped_iff _ pre inv hs hc hv).1 h) hroot
  exact burst_files _ burst (hr.2.2 hst) hst hr.2.1 hb

/-- **back to back, non-recursive watch**: after any drained history, ANY burst of valid operations that does not remove
    the watched root - files and directories created, removed, renamed, moved in and out, at any depth - read as ONE batch
    after the last of them leaves the observer in the same state and delivers the same events in the same order as the same
    operations drained one by one.  (One kernel watch, maps that never change, no synthetic events: the non-recursive
    observer never looks at the file system; the kernel's cookies are fresh per rename, so pairing does not depend on the
    batching either.)  With `replay_nonrecursive_partial`: the replay of the root's direct children holds for bursts too. -/
theorem burst_nonrecursive_partial (fs0 : FS) (hwf : fs0.WF) (full : Bool) (pre burst : List Op)
    (hv : allValid (Sys.start fs0 false full) pre = true) (hroot : Op.rmdir ["W"] ∉ pre)
    (hb : allValidNoRoot ((Sys.start fs0 false full).run pre).1 burst = true) :
    ((Sys.start fs0 false full).run pre).1.burst burst =
      ((((Sys.start fs0 false full).run pre).1.run burst).1, (((Sys.start fs0 false full).run pre).1.run burst).2.flatten) := by
  obtain ⟨inv, hs, hc, _, _⟩ := start_flat fs0 hwf full
  have hr := run_flat _ pre inv hs hc hv
  have hst : ((Sys.start fs0 false full).run pre).1.stopped = false := by
    cases h : ((Sys.start fs0 false full).run pre).1.stopped
    · rfl
    · exact absurd ((stopped_iff_flat _ pre inv hs hc hv).1 h) hroot
  exact burst_flat _ burst (hr.2.2 hst) hst hr.2.1 hb

/-- non-vacuity: `mkdir -p` with a file, a directory rename, a move out and a file rename in one batch -/
example :
    let s := ((Sys.start FS.init false false).run [.create ["W", "a"]]).1
    let ops := [Op.mkdir ["W", "d"], .mkdir ["W", "d", "dd"], .create ["W", "d", "x"], .rename ["W", "d"] ["W", "e"],
                .rename ["W", "a"] ["W", "b"], .rename ["W", "e"] ["O", "e"]]
    allValidNoRoot s ops = true ∧
    (s.burst ops).2.map PEv.toEvent =
      [⟨.DirCreatedEvent, "W/d", "", false⟩, ⟨.DirModifiedEvent, "W", "", false⟩,
       ⟨.DirMovedEvent, "W/d", "W/e", false⟩, ⟨.DirModifiedEvent, "W", "", false⟩, ⟨.DirModifiedEvent, "W", "", false⟩,
       ⟨.FileMovedEvent, "W/a", "W/b", false⟩, ⟨.DirModifiedEvent, "W", "", false⟩, ⟨.DirModifiedEvent, "W", "", false⟩,
       ⟨.DirDeletedEvent, "W/e", "", false⟩, ⟨.DirModifiedEvent, "W", "", false⟩] := by
  decide +kernel

/-- non-vacuity: create, rename twice, replace another file by renaming onto it, move out, move a file in - one batch -/
example :
    let s := ((Sys.start FS.init true false).run [.mkdir ["W", "d"], .create ["W", "b"], .create ["O", "x"]]).1
    let ops := [Op.create ["W", "d", "a"], .rename ["W", "d", "a"] ["W", "a"], .rename ["W", "a"] ["W", "b"],
                .rename ["W", "b"] ["O", "b"], .rename ["O", "x"] ["W", "d", "x"]]
    allFile s ops = true ∧
    (s.burst ops).2.map PEv.toEvent =
      [⟨.FileCreatedEvent, "W/d/a", "", false⟩, ⟨.DirModifiedEvent, "W/d", "", false⟩, ⟨.FileOpenedEvent, "W/d/a", "", false⟩,
       ⟨.FileClosedEvent, "W/d/a", "", false⟩, ⟨.DirModifiedEvent, "W/d", "", false⟩,
       ⟨.FileMovedEvent, "W/d/a", "W/a", false⟩, ⟨.DirModifiedEvent, "W/d", "", false⟩, ⟨.DirModifiedEvent, "W", "", false⟩,
       ⟨.FileMovedEvent, "W/a", "W/b", false⟩, ⟨.DirModifiedEvent, "W", "", false⟩, ⟨.DirModifiedEvent, "W", "", false⟩,
       ⟨.FileDeletedEvent, "W/b", "", false⟩, ⟨.DirModifiedEvent, "W", "", false⟩,
       ⟨.FileCreatedEvent, "W/d/x", "", false⟩, ⟨.DirModifiedEvent, "W/d", "", false⟩] := by
  decide +kernel

/-- non-vacuity: a storm on one name inside a directory created before, read as one batch -/
example :
    let s := ((Sys.start FS.init true false).run [.mkdir ["W", "d"]]).1
    let ops := [Op.create ["W", "d", "a"], .write ["W", "d", "a"], .chmod ["W", "d"], .unlink ["W", "d", "a"], .create ["W", "d", "a"]]
    allSimple s ops = true ∧
    (s.burst ops).2.map PEv.toEvent =
      [⟨.FileCreatedEvent, "W/d/a", "", false⟩, ⟨.DirModifiedEvent, "W/d", "", false⟩, ⟨.FileOpenedEvent, "W/d/a", "", false⟩,
       ⟨.FileClosedEvent, "W/d/a", "", false⟩, ⟨.DirModifiedEvent, "W/d", "", false⟩,
       ⟨.FileOpenedEvent, "W/d/a", "", false⟩, ⟨.FileModifiedEvent, "W/d/a", "", false⟩, ⟨.FileClosedEvent, "W/d/a", "", false⟩,
       ⟨.DirModifiedEvent, "W/d", "", false⟩,
       ⟨.DirModifiedEvent, "W/d", "", false⟩, ⟨.DirModifiedEvent, "W/d", "", false⟩,
       ⟨.FileDeletedEvent, "W/d/a", "", false⟩, ⟨.DirModifiedEvent, "W/d", "", false⟩,
       ⟨.FileCreatedEvent, "W/d/a", "", false⟩, ⟨.DirModifiedEvent, "W/d", "", false⟩, ⟨.FileOpenedEvent, "W/d/a", "", false⟩,
       ⟨.FileClosedEvent, "W/d/a", "", false⟩, ⟨.DirModifiedEvent, "W/d", "", false⟩] := by
  decide +kernel


/-- **back-to-back regime, growth**: after any drained history, a burst of `mkdir`s and file creations at any depth
    (`mkdir -p` + populate: directories created inside directories of the same burst, filled before the reader wakes
    up), read as ONE batch after its last operation: replaying the delivered events on the tree as it was before the
    burst gives the tree as it is after it.  (Here burst and drained run do NOT deliver the same list: what was created
    inside a directory before its watch existed is announced by the walk of `_recursive_simulate`, not by the kernel.) -/
theorem replay_growth_burst_partial (fs0 : FS) (hwf : fs0.WF) (full : Bool) (pre burst : List Op)
    (hv : allValid (Sys.start fs0 true full) pre = true) (hroot : Op.rmdir ["W"] ∉ pre)
    (hb : allFill ((Sys.start fs0 true full).run pre).1.fs burst = true) :
    sameTree (replay (treeW ((Sys.start fs0 true full).run pre).1.fs) (((Sys.start fs0 true full).run pre).1.burst burst).2)
             (treeW (((Sys.start fs0 true full).run pre).1.burst burst).1.fs) := by
  obtain ⟨inv, hs, hc⟩ := after_history fs0 hwf full pre hv hroot
  obtain ⟨h1, _, _, _, h5, _⟩ := burst_grow _ burst inv hs hc hb
  rw [h1]; exact h5

/-- non-vacuity: a three-level `mkdir -p` with files, all issued before the reader wakes up -/
example :
    let s := ((Sys.start FS.init true false).run [.mkdir ["W", "a"]]).1
    let ops := [Op.mkdir ["W", "a", "b"], .mkdir ["W", "a", "b", "c"], .create ["W", "a", "b", "c", "f"], .create ["W", "a", "g"],
                .mkdir ["W", "x"], .mkdir ["W", "x", "y"], .create ["W", "x", "y", "z"]]
    allFillB s ops = true ∧
    (s.burst ops).2.map PEv.toEvent =
      [⟨.DirCreatedEvent, "W/a/b", "", false⟩, ⟨.DirModifiedEvent, "W/a", "", false⟩,
       ⟨.DirCreatedEvent, "W/a/b/c", "", false⟩, ⟨.DirModifiedEvent, "W/a/b", "", false⟩,
       ⟨.FileCreatedEvent, "W/a/b/c/f", "", false⟩, ⟨.DirModifiedEvent, "W/a/b/c", "", false⟩,
       ⟨.FileCreatedEvent, "W/a/g", "", false⟩, ⟨.DirModifiedEvent, "W/a", "", false⟩,
       ⟨.FileOpenedEvent, "W/a/g", "", false⟩, ⟨.FileClosedEvent, "W/a/g", "", false⟩, ⟨.DirModifiedEvent, "W/a", "", false⟩,
       ⟨.DirCreatedEvent, "W/x", "", false⟩, ⟨.DirModifiedEvent, "W", "", false⟩,
       ⟨.DirCreatedEvent, "W/x/y", "", false⟩, ⟨.DirModifiedEvent, "W/x", "", false⟩,
       ⟨.FileCreatedEvent, "W/x/y/z", "", false⟩, ⟨.DirModifiedEvent, "W/x/y", "", false⟩] := by decide +kernel


/-- **paced histories**: the history is ANY sequence of bursts, each issued back to back and read as one batch after its
    last operation, where a burst is (a) one operation of any kind - i.e. a drained operation: renames and moves of whole
    directory trees, recursive deletes, replacements -, (b) file operations without limit (creations, writes, attribute
    changes, removals, renames / replacements / moves of files), or (c) a nested creation burst (mkdirs and file
    creations at any depth).  Replaying everything delivered, in order, on the initial tree gives the final tree.
    Not covered: bursts of several operations that rename, move or remove DIRECTORIES. -/
theorem replay_paced_partial (fs0 : FS) (hwf : fs0.WF) (full : Bool) (bs : List (List Op))
    (hb : pacedOK (Sys.start fs0 true full) bs) :
    sameTree (replay (treeW fs0) ((Sys.start fs0 true full).runBursts bs).2.flatten)
             (treeW ((Sys.start fs0 true full).runBursts bs).1.fs) := by
  obtain ⟨inv, hs, hc, h4, _⟩ := start_rec fs0 hwf full
  have := (paced_run bs _ inv hs hc hb).2.2.2
  rw [h4] at this; exact this

/-- non-vacuity: a directory moved in from outside, a nested creation burst inside it, a file storm, the directory
    renamed, another nested burst under the new name -/
example :
    let k0 : Kern := ⟨[], 1, 1⟩
    let fs0 := [Op.mkdir ["O", "d"], .create ["O", "d", "b"]].foldl (fun fs op => (kernelOp fs k0 op).1) FS.init
    let bs := [[Op.rename ["O", "d"] ["W", "d"]],
               [.mkdir ["W", "d", "x"], .mkdir ["W", "d", "x", "y"], .create ["W", "d", "x", "y", "f"]],
               [.create ["W", "a"], .rename ["W", "a"] ["W", "d", "x", "a"], .write ["W", "d", "b"], .unlink ["W", "d", "x", "y", "f"]],
               [.rename ["W", "d"] ["W", "e"]],
               [.mkdir ["W", "e", "x", "z"], .create ["W", "e", "x", "z", "g"], .mkdir ["W", "n"], .mkdir ["W", "n", "m"]]]
    pacedOKB (Sys.start fs0 true false) bs = true ∧
    ((Sys.start fs0 true false).runBursts bs).2.flatten.length = 38 := by decide +kernel


/-- "created and immediately renamed": `mkdir p; rename p q` issued back to back and read as one batch (both parents
    directories of the tree, `q` a free name) delivers exactly what the two operations deliver one at a time - a created
    event for the old name, one moved event with both names, the parents' modified events - although the reader never sees
    the directory under its old name (the CREATE record finds nothing to watch, the MOVED_TO finds no watch to re-key);
    this kind of burst is also admitted by `pacedOK` / `replay_paced_partial` -/
theorem burst_created_and_renamed_partial (fs0 : FS) (hwf : fs0.WF) (full : Bool) (pre : List Op) (p q : P)
    (hv : allValid (Sys.start fs0 true full) pre = true) (hroot : Op.rmdir ["W"] ∉ pre)
    (hb : mkRenameB ((Sys.start fs0 true full).run pre).1 [.mkdir p, .rename p q] = true) :
    (((Sys.start fs0 true full).run pre).1.burst [.mkdir p, .rename p q]).2 =
      (contractRun ((Sys.start fs0 true full).run pre).1.fs true full [.mkdir p, .rename p q]).flatten := by
  obtain ⟨inv, hs, hc⟩ := after_history fs0 hwf full pre hv hroot
  simp only [mkRenameB, Bool.and_eq_true, beq_iff_eq, decide_eq_true_eq, Bool.not_eq_true', bne_iff_ne, ne_eq] at hb
  obtain ⟨⟨⟨⟨⟨⟨⟨_, a1⟩, a2⟩, a3⟩, a4⟩, a5⟩, a6⟩, a7⟩ := hb
  have := (burst_mkdir_rename_replay _ p q inv hs hc a1 a2 a3 a4 a5 a6 a7).1
  rw [this, run_full, (start_rec fs0 hwf full).2.2.2.2]


/-- non-recursive watch, PACED histories: ANY sequence of bursts of valid operations (files and directories created,
    removed, renamed, moved in and out - anything but the removal of the root), each burst read as one batch: replaying
    everything delivered on the root's direct children as they were at the start gives the root's direct children as they
    are at the end (under a non-recursive watch the batching is invisible: `runBursts_flat`) -/
theorem replay_paced_nonrecursive_partial (fs0 : FS) (hwf : fs0.WF) (full : Bool) (bs : List (List Op))
    (hb : flatOK (Sys.start fs0 false full) bs = true) :
    sameTree (replay (treeW1 fs0) ((Sys.start fs0 false full).runBursts bs).2.flatten)
             (treeW1 ((Sys.start fs0 false full).runBursts bs).1.fs) := by
  obtain ⟨inv, hs, hc, _, _⟩ := start_flat fs0 hwf full
  obtain ⟨h1, h2, h3, h4⟩ := runBursts_flat bs _ inv hs hc hb
  rw [h1, h2]
  exact replay_nonrecursive_partial fs0 hwf full bs.flatten h3 h4


/-- "a directory may be renamed again right after it arrived": `rename o q1; rename q1 q2` read as one batch, `o` a
    directory TREE outside the watched tree, `q1`, `q2` free names in directories of the tree.  The reader never sees the
    tree under `q1` (the first MOVED_TO finds nothing there any more); it is watched, with all it holds, under `q2`.  The
    stream differs from the two drained operations' (no synthetic created events for the stay at `q1`; the descendants are
    announced by synthetic moved events `q1/.. -> q2/..`) but replays to the same tree.  Also a burst kind of `pacedOK`. -/
theorem burst_arrived_and_renamed_partial (fs0 : FS) (hwf : fs0.WF) (full : Bool) (pre : List Op) (o q1 q2 : P)
    (hv : allValid (Sys.start fs0 true full) pre = true) (hroot : Op.rmdir ["W"] ∉ pre)
    (hb : moveInRenameB ((Sys.start fs0 true full).run pre).1 [.rename o q1, .rename q1 q2] = true) :
    sameTree (replay (treeW ((Sys.start fs0 true full).run pre).1.fs)
               (((Sys.start fs0 true full).run pre).1.burst [.rename o q1, .rename q1 q2]).2)
             (treeW (((Sys.start fs0 true full).run pre).1.burst [.rename o q1, .rename q1 q2]).1.fs) := by
  obtain ⟨inv, hs, hc⟩ := after_history fs0 hwf full pre hv hroot
  exact (paced_step _ _ inv hs hc (okBurst_of_check _ _ (by simp [okBurstB, hb]))).2.2.2

/-- non-vacuity: a populated tree moved in and renamed at once -/
example :
    let k0 : Kern := ⟨[], 1, 1⟩
    let fs0 := [Op.mkdir ["O", "d"], .create ["O", "d", "b"], .mkdir ["O", "d", "dd"], .create ["O", "d", "dd", "a"], .mkdir ["W", "x"]].foldl
      (fun fs op => (kernelOp fs k0 op).1) FS.init
    let s := Sys.start fs0 true false
    moveInRenameB s [.rename ["O", "d"] ["W", "d"], .rename ["W", "d"] ["W", "x", "e"]] = true ∧
    (s.burst [.rename ["O", "d"] ["W", "d"], .rename ["W", "d"] ["W", "x", "e"]]).2.map PEv.toEvent =
      [⟨.DirCreatedEvent, "W/d", "", false⟩, ⟨.DirModifiedEvent, "W", "", false⟩,
       ⟨.DirMovedEvent, "W/d", "W/x/e", false⟩, ⟨.DirModifiedEvent, "W", "", false⟩, ⟨.DirModifiedEvent, "W/x", "", false⟩,
       ⟨.FileMovedEvent, "W/d/b", "W/x/e/b", true⟩, ⟨.DirMovedEvent, "W/d/dd", "W/x/e/dd", true⟩,
       ⟨.FileMovedEvent, "W/d/dd/a", "W/x/e/dd/a", true⟩] := by decide +kernel


/-- "renamed twice in a row": `rename a b; rename b c` read as one batch, `a` a directory TREE of the watched tree, `b`, `c`
    free names.  Both halves are re-keyings of the watch maps that never look at the file system, so the observer ends in
    the state of the drained run; the stream lacks the synthetic moved events of the first move (nothing lies at `b` when
    the emitter looks) but replays to the same tree: the descendants are announced once, as moved from `b/..` to `c/..`.
    Also a burst kind of `pacedOK`. -/
theorem burst_renamed_twice_partial (fs0 : FS) (hwf : fs0.WF) (full : Bool) (pre : List Op) (a b c : P)
    (hv : allValid (Sys.start fs0 true full) pre = true) (hroot : Op.rmdir ["W"] ∉ pre)
    (hb : renameChainB ((Sys.start fs0 true full).run pre).1 [.rename a b, .rename b c] = true) :
    sameTree (replay (treeW ((Sys.start fs0 true full).run pre).1.fs)
               (((Sys.start fs0 true full).run pre).1.burst [.rename a b, .rename b c]).2)
             (treeW (((Sys.start fs0 true full).run pre).1.burst [.rename a b, .rename b c]).1.fs) := by
  obtain ⟨inv, hs, hc⟩ := after_history fs0 hwf full pre hv hroot
  exact (paced_step _ _ inv hs hc (okBurst_of_check _ _ (by simp [okBurstB, hb]))).2.2.2

/-- non-vacuity: a populated directory renamed twice before the reader wakes up, the second time into another directory -/
example :
    let k0 : Kern := ⟨[], 1, 1⟩
    let fs0 := [Op.mkdir ["W", "d"], .create ["W", "d", "b"], .mkdir ["W", "d", "dd"], .mkdir ["W", "x"]].foldl
      (fun fs op => (kernelOp fs k0 op).1) FS.init
    let s := Sys.start fs0 true false
    renameChainB s [.rename ["W", "d"] ["W", "e"], .rename ["W", "e"] ["W", "x", "f"]] = true ∧
    (s.burst [.rename ["W", "d"] ["W", "e"], .rename ["W", "e"] ["W", "x", "f"]]).2.map PEv.toEvent =
      [⟨.DirMovedEvent, "W/d", "W/e", false⟩, ⟨.DirModifiedEvent, "W", "", false⟩, ⟨.DirModifiedEvent, "W", "", false⟩,
       ⟨.DirMovedEvent, "W/e", "W/x/f", false⟩, ⟨.DirModifiedEvent, "W", "", false⟩, ⟨.DirModifiedEvent, "W/x", "", false⟩,
       ⟨.FileMovedEvent, "W/e/b", "W/x/f/b", true⟩, ⟨.DirMovedEvent, "W/e/dd", "W/x/f/dd", true⟩] := by decide +kernel

end WD.C01
