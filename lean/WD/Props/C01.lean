/-
  C01 — Replaying the native event stream reproduces the real directory tree (drained regime).
  For every well-formed initial tree, every history of valid operations on entries of the watched tree
  (create, write, chmod, delete, recursive delete, rename/replace of files and directories at any depth,
  moves out of the tree, moves of files or whole trees into it), recursive and non-recursive watches,
  normal and full emitters.
-/
import WD.Proofs.Pipeline.Replay
namespace WD.C01
open WD WD.Pipe

/-- recursive watch: the delivered created / deleted / moved events, applied in delivery order to the
    tree as it stood when the watch started, give exactly the tree that exists afterwards -/
theorem replay_sync (fs0 : FS) (hwf : fs0.WF) (full : Bool) (ops : List Op)
    (h : histOk (Sys.start fs0 true full) ops = true) :
    sameTree (replay (treeW fs0) (allEvents ((Sys.start fs0 true full).run ops)))
             (treeW ((Sys.start fs0 true full).run ops).1.fs) :=
  ProofsPipe.replay_sync fs0 hwf full ops h

/-- non-recursive watch: the same for the root's direct children -/
theorem replay_sync_nonrecursive (fs0 : FS) (hwf : fs0.WF) (full : Bool) (ops : List Op)
    (h : histOk (Sys.start fs0 false full) ops = true) :
    sameTree ((replay (treeW1 fs0) (allEvents ((Sys.start fs0 false full).run ops))).filter (fun x => x.1.length = 2))
             (treeW1 ((Sys.start fs0 false full).run ops).1.fs) :=
  ProofsPipe.replay_sync_nonrecursive fs0 hwf full ops h

/-- non-vacuity: a tree moved in from outside, changed inside, renamed, partly moved out again -/
example :
    let k0 : Kern := ⟨[], 1, 1⟩
    let fs0 := [Op.mkdir ["O", "d"], .create ["O", "d", "b"], .mkdir ["O", "d", "dd"]].foldl (fun fs op => (kernelOp fs k0 op).1) FS.init
    let ops := [Op.rename ["O", "d"] ["W", "dd"], .create ["W", "dd", "dd", "a"], .rename ["W", "dd"] ["W", "e"],
                .rename ["W", "e", "dd"] ["O", "x"], .unlink ["W", "e", "b"]]
    histOk (Sys.start fs0 true false) ops = true ∧
    treeW ((Sys.start fs0 true false).run ops).1.fs = [(["W", "e"], true)] := by decide +kernel

end WD.C01
