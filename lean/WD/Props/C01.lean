/-
  C01 — Replaying the native event stream reproduces the real directory tree (recursive watch, every operation
  drained before the next).  For every well-formed initial tree and EVERY history of operations the file system
  accepts — create, write, chmod, delete, recursive delete, rename or replace of files and directories at any
  depth, moves out of the tree, moves of files or whole directory trees into it (and back), operations outside.

  `_partial`: the regime "file operations back to back, directory operations paced" of the property is not in
  the model (the reader never lags behind the operations here); it is exercised on the real observer only.  The
  history does not remove the watched root itself (that case is C07.root_deleted: one DirDeletedEvent, stop).
-/
import WD.Proofs.Pipeline.ReplayRun
import WD.Proofs.Pipeline.ReplayFlat
namespace WD.C01
open WD WD.Pipe

/-- applying the delivered created / deleted / moved events, in delivery order, to the tree as it stood when
    the watch started yields exactly the tree that exists afterwards -/
theorem replay_partial (fs0 : FS) (hwf : fs0.WF) (full : Bool) (ops : List Op)
    (hv : allValid (Sys.start fs0 true full) ops = true) (hroot : Op.rmdir ["W"] ∉ ops) :
    sameTree (replay (treeW fs0) (allEvents ((Sys.start fs0 true full).run ops)))
             (treeW ((Sys.start fs0 true full).run ops).1.fs) := by
  obtain ⟨inv, hs, hc, h4, h5⟩ := start_rec fs0 hwf full
  have hrun := (run_rec _ ops inv hs hc hv).1
  rw [h4, h5] at hrun
  rw [allValid_eq_fsValid, h4] at hv
  simp only [allEvents]
  rw [hrun, run_fs, h4]
  exact replay_run hwf full ops hv hroot

/-- non-recursive watch: the same for exactly the root's direct children -/
theorem replay_nonrecursive_partial (fs0 : FS) (hwf : fs0.WF) (full : Bool) (ops : List Op)
    (hv : allValid (Sys.start fs0 false full) ops = true) (hroot : Op.rmdir ["W"] ∉ ops) :
    sameTree (replay (treeW1 fs0) (allEvents ((Sys.start fs0 false full).run ops)))
             (treeW1 ((Sys.start fs0 false full).run ops).1.fs) := by
  obtain ⟨inv, hs, hc, h4, h5⟩ := start_flat fs0 hwf full
  have hrun := (run_flat _ ops inv hs hc hv).1
  rw [h4, h5] at hrun
  rw [allValid_eq_fsValid, h4] at hv
  simp only [allEvents]
  rw [hrun, run_fs, h4]
  exact replayFlat_run hwf full ops hv hroot

/-- the statement about the contract alone (no pipeline): one operation -/
theorem replay_contract_step (fs : FS) (hwf : fs.WF) (full : Bool) (op : Op) (hv : validOp fs op = true) :
    sameTree (replay (treeW fs) (contract fs true full op).1) (treeW (fsAfter fs op)) :=
  replay_contract hwf full op hv

/-- non-vacuity: a tree moved in from outside, changed inside, renamed, partly moved out again, a replace -/
example :
    let k0 : Kern := ⟨[], 1, 1⟩
    let fs0 := [Op.mkdir ["O", "d"], .create ["O", "d", "b"], .mkdir ["O", "d", "dd"], .create ["W", "b"]].foldl (fun fs op => (kernelOp fs k0 op).1) FS.init
    let ops := [Op.rename ["O", "d"] ["W", "dd"], .create ["W", "dd", "dd", "a"], .rename ["W", "dd"] ["W", "e"],
                .rename ["W", "e", "dd"] ["O", "x"], .rename ["W", "e", "b"] ["W", "b"], .rmtree ["W", "e"]]
    allValid (Sys.start fs0 true false) ops = true ∧ Op.rmdir ["W"] ∉ ops ∧
    treeW ((Sys.start fs0 true false).run ops).1.fs = [(["W", "b"], false)] ∧
    replay (treeW fs0) (allEvents ((Sys.start fs0 true false).run ops)) = [(["W", "b"], false)] := by decide +kernel

end WD.C01
