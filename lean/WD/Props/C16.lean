/-
  C16 — The event queue drops only true consecutive duplicates and never anything else.
  For every set of producer/consumer scripts (any number of threads) and every schedule.
-/
import WD.Proofs.SkipQueue
import WD.Model.Events
namespace WD.C16
open WD.SQ

variable (scripts : List (List Op)) (sched : List Nat)

/-- FIFO, nothing lost, nothing duplicated: what the consumers obtained so far, followed by the
    queue content, is exactly the sequence of items enqueued, in order -/
theorem fifo_no_loss :
    enqs (run (init scripts) sched).hist =
      gots (run (init scripts) sched).hist ++ (run (init scripts) sched).queue :=
  ProofsSQ.sq_fifo_no_loss scripts sched

/-- the unlocked `_last_item` always denotes the most recently enqueued item while it is still
    waiting in the queue, and nothing otherwise -/
theorem last_is_pending_tail (h : distinctPuts scripts) :
    (run (init scripts) sched).last = (run (init scripts) sched).queue.getLast? :=
  ProofsSQ.sq_last_is_tail scripts sched h

/-- an offered item is dropped only if, at the moment of its check, it is equal to the item enqueued
    immediately before — the tail of the queue — and that one is still waiting to be consumed -/
theorem only_duplicates_dropped (h : distinctPuts scripts) (tid : Nat) (s' : State) (x y : Item)
    (hs : step (run (init scripts) sched) tid = some s')
    (hd : s'.hist = (run (init scripts) sched).hist ++ [.dropped tid x y]) :
    x.val = y.val ∧ (run (init scripts) sched).queue.getLast? = some y ∧
      (enqs (run (init scripts) sched).hist).getLast? = some y :=
  ProofsSQ.sq_only_duplicates_dropped scripts sched h tid s' x y hs hd

/-- every recorded drop was against an equal item that had really been enqueued -/
theorem dropped_equal (h : distinctPuts scripts) (tid : Nat) (x y : Item)
    (hd : Obs.dropped tid x y ∈ (run (init scripts) sched).hist) :
    x.val = y.val ∧ y ∈ enqs (run (init scripts) sched).hist :=
  ProofsSQ.sq_dropped_equal scripts sched h tid x y hd

/-- once the equal item has been taken out (here: the queue is empty), an equal item is accepted
    again: a `put` that starts now goes to the locked append, whatever it equals -/
theorem accepted_after_get (h : distinctPuts scripts) (tid : Nat) (t : Thread) (x : Item)
    (ht : (run (init scripts) sched).thread? tid = some t) (hpc : t.pc = .putRead1 x)
    (hq : (run (init scripts) sched).queue = []) :
    ∃ s1 t1, step (run (init scripts) sched) tid = some s1 ∧ s1.thread? tid = some t1 ∧ t1.pc = .putAcq x :=
  ProofsSQ.sq_accepted_after_get scripts sched h tid t x ht hpc hq

/-- equal items separated by a different item are both delivered: an item that differs from the
    pending tail is never dropped -/
theorem separated_both_delivered (h : distinctPuts scripts) (tid : Nat) (t : Thread) (x y : Item)
    (ht : (run (init scripts) sched).thread? tid = some t) (hpc : t.pc = .putRead2 x)
    (hq : (run (init scripts) sched).queue.getLast? = some y) (hne : x.val ≠ y.val) :
    ∃ s1 t1, step (run (init scripts) sched) tid = some s1 ∧ s1.thread? tid = some t1 ∧ t1.pc = .putAcq x :=
  ProofsSQ.sq_separated scripts sched h tid t x y ht hpc hq hne

/-- the locked append always enqueues -/
theorem append_enqueues (tid : Nat) (t : Thread) (x : Item) (s : State)
    (ht : s.thread? tid = some t) (hpc : t.pc = .putAcq x) :
    ∃ s1, step s tid = some s1 ∧ s1.queue = s.queue ++ [x] ∧ s1.hist = s.hist ++ [.enq tid x] :=
  ProofsSQ.sq_append_enqueues tid t x s ht hpc

/-- two events are equal only if they have the same class and the same field values -/
theorem event_eq (a b : WD.Event) :
    a = b ↔ a.cls = b.cls ∧ a.src = b.src ∧ a.dest = b.dest ∧ a.synthetic = b.synthetic := by
  cases a; cases b; simp

/-- non-vacuity: the duplicate race — the consumer takes the first item out between the producer's
    two unlocked loads; the second (equal) item is accepted -/
example :
    let s := run (init [[.put ⟨1, 5⟩, .put ⟨2, 5⟩], [.get]]) [0, 1, 0, 0, 0, 1, 0, 0]
    enqs s.hist = [⟨1, 5⟩, ⟨2, 5⟩] ∧ gots s.hist = [⟨1, 5⟩] ∧ s.queue = [⟨2, 5⟩] := by decide

example :   -- and without the consumer in between it is dropped against the pending tail
    let s := run (init [[.put ⟨1, 5⟩, .put ⟨2, 5⟩], [.get]]) [0, 1, 0, 0, 0, 0]
    s.hist = [.enq 0 ⟨1, 5⟩, .dropped 0 ⟨2, 5⟩ ⟨1, 5⟩] := by decide

end WD.C16
