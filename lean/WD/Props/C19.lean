/-
  C19 — Event paths keep the caller's path type and the entry's exact name, all backends.
  The theorems are about `WD.PT`: how the two backends build event paths.  They assume of Python's
  os.fsencode/os.fsdecode exactly: `enc (dec b) = b` (surrogateescape round trip) and that encoding distributes
  over os.path.join (`/` is ASCII).  This is the property where the theorem carries least and the tie most:
  the real observers are run on names that are not valid in the file-system encoding, not NFC-normalised, and
  that repeat the text of the watched path (harness/c19.py).
-/
import WD.Model.PathType
namespace WD.C19
open WD.PT

variable {S : Type} (c : Codec S)

/-- what is assumed of os.fsencode / os.fsdecode / os.path.join -/
structure CodecOK (c : Codec S) : Prop where
  round : ∀ b, c.enc (c.dec b) = b
  encJoin : ∀ a n, c.enc (c.joinS a n) = joinB (c.enc a) (c.enc n)

theorem foldl_enc (h : CodecOK c) (rel : List B) (p : S) :
    c.enc (rel.foldl (fun a n => c.joinS a (c.dec n)) p) = rel.foldl joinB (c.enc p) := by
  induction rel generalizing p with
  | nil => rfl
  | cons n rest ih => simp only [List.foldl_cons]; rw [ih, h.encJoin, h.round]

/-- bytes stay bytes; str and pathlib.Path give str — native backend, direct / source / destination / parent paths -/
theorem type_preserved_native (w : WatchArg S) (rel : List B) : (nativePath c w rel).isBytes = w.isBytes := by
  cases w <;> simp [nativePath, decodePath, WatchArg.isBytes, EvPath.isBytes]

/-- ... synthetic events -/
theorem type_preserved_native_sub (w : WatchArg S) (dir below : List B) : (nativeSubPath c w dir below).isBytes = w.isBytes := by
  cases w <;> simp [nativeSubPath, nativePath, decodePath, WatchArg.isBytes, EvPath.isBytes]

/-- ... polling backend -/
theorem type_preserved_polling (w : WatchArg S) (rel : List B) : (pollingPath c w rel).isBytes = w.isBytes := by
  cases w <;> simp [pollingPath, WatchArg.stored, WatchArg.isBytes, EvPath.isBytes]

/-- converting an event path back with the file-system encoding names the real entry: the watched path joined
    with the entry's real relative name, byte for byte — whatever bytes the name consists of -/
theorem exact_name_native (h : CodecOK c) (w : WatchArg S) (rel : List B) :
    (nativePath c w rel).raw c = rel.foldl joinB (w.rootB c) := by
  cases w <;> simp [nativePath, decodePath, WatchArg.isBytes, EvPath.raw, h.round]

theorem foldl_joinB_append (p : B) (a b : List B) : (a ++ b).foldl joinB p = b.foldl joinB (a.foldl joinB p) := by
  simp [List.foldl_append]

theorem exact_name_native_sub (h : CodecOK c) (w : WatchArg S) (dir below : List B) :
    (nativeSubPath c w dir below).raw c = (dir ++ below).foldl joinB (w.rootB c) := by
  rw [foldl_joinB_append]
  cases w <;> simp [nativeSubPath, nativePath, decodePath, WatchArg.isBytes, EvPath.raw, foldl_enc c h, h.round]

theorem exact_name_polling (h : CodecOK c) (w : WatchArg S) (rel : List B) :
    (pollingPath c w rel).raw c = rel.foldl joinB (w.rootB c) := by
  cases w <;> simp [pollingPath, WatchArg.stored, WatchArg.rootB, EvPath.raw, foldl_enc c h]

/-- the native and the polling observer agree: same type, same bytes -/
theorem backends_agree (h : CodecOK c) (w : WatchArg S) (rel : List B) :
    (nativePath c w rel).isBytes = (pollingPath c w rel).isBytes ∧ (nativePath c w rel).raw c = (pollingPath c w rel).raw c := by
  rw [type_preserved_native, type_preserved_polling, exact_name_native c h, exact_name_polling c h]
  exact ⟨rfl, rfl⟩

/-- non-vacuity: the identity codec on byte strings (a file-system encoding in which every byte string is a
    valid name, e.g. latin-1) satisfies the assumptions -/
example : CodecOK (⟨id, id, joinB⟩ : Codec B) := ⟨fun _ => rfl, fun _ _ => rfl⟩

end WD.C19
