/-
  C13 — The registry stays consistent over any call sequence; failed calls leave no trace.
  For every sequence of API calls (any length), with a failure injectable at every emitter
  construction / start.
-/
import WD.Proofs.Registry
namespace WD.C13
open WD WD.Reg

/-- the abstraction from the observer's four containers to the reference map -/
def Abs (s : State) (m : Spec) : Prop :=
  (∀ w, s.handlersOf w = m.handlers w) ∧ s.emitters.map Emitter.watch = m.scheduled ∧
  s.alive = m.alive ∧ s.everStarted = m.everStarted

/-- the observer behaves like a simple map from distinct watches to handler sets: same results
    (return / exception kind) for every call, and the abstraction commutes with every call -/
theorem refines_map (calls : List Call) :
    (run init calls).2 = (specRun Spec.init calls).2 ∧ Abs (run init calls).1 (specRun Spec.init calls).1 :=
  ProofsReg.refines_map calls

/-- equal watches share one emitter: never two emitters for one watch key -/
theorem one_emitter_per_watch (calls : List Call) :
    ((run init calls).1.emitters.map Emitter.watch).Nodup :=
  ProofsReg.one_emitter_per_watch calls

/-- the emitters reported are exactly those of the currently scheduled watches -/
theorem emitters_are_scheduled (calls : List Call) (w : Watch) :
    (∃ e ∈ (run init calls).1.emitters, e.watch = w) ↔ w ∈ (specRun Spec.init calls).1.scheduled :=
  ProofsReg.emitters_are_scheduled calls w

/-- a schedule() that raised has no effect at all on handlers, emitters, watches, liveness -/
theorem failed_schedule_no_effect (calls : List Call) (h : Handler) (w : Watch) (f : Fault) (k : String)
    (hr : (call (run init calls).1 (.schedule h w f)).2 = .raised k) :
    let s := (run init calls).1
    let s' := (call s (.schedule h w f)).1
    s'.handlers = s.handlers ∧ s'.emitters = s.emitters ∧ s'.watches = s.watches ∧ s'.alive = s.alive :=
  ProofsReg.failed_schedule_no_effect calls h w f k hr

/-- unscheduling one watch does not affect another -/
theorem unschedule_independent (s : State) (w w' : Watch) (hne : w' ≠ w) :
    (call s (.unschedule w)).1.handlersOf w' = s.handlersOf w' ∧
    (call s (.unschedule w)).1.emitterOf w' = s.emitterOf w' :=
  ProofsReg.unschedule_independent s w w' hne

/-- non-vacuity: a failed schedule followed by a successful one for another handler -/
example : (run init [.schedule 0 0 .ctor, .schedule 1 0 .none]).2 = [.raised "ctor", .ok] ∧
    (run init [.schedule 0 0 .ctor, .schedule 1 0 .none]).1.handlersOf 0 = [1] := by decide

end WD.C13
