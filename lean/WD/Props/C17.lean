/-
  C17 — Delay queue: FIFO, never early, loses or duplicates nothing; close() unblocks.
  All statements are for every set of thread scripts (any number of threads, any length) and every
  sequence of scheduling steps and clock advances (`Action`), i.e. for all interleavings and timings.
-/
import WD.Proofs.DelayQueue
namespace WD.C17
open WD.DQ

variable (delay : Nat) (scripts : List (List Op)) (as : List Action)

/-- FIFO + nothing lost + nothing duplicated, in one equation: the elements put so far and not
    taken out by `remove()`, in put order, are exactly the elements returned by `get()` so far (in
    return order) followed by the current queue content -/
theorem accounting (h : distinctPuts scripts) :
    live (run (init delay scripts) as).hist =
      gots (run (init delay scripts) as).hist ++ (run (init delay scripts) as).queue.map Entry.elem :=
  ProofsDQ.accounting delay scripts as h

/-- every element is handed out at most once, by `get()` xor `remove()` -/
theorem exactly_once (h : distinctPuts scripts) :
    (gots (run (init delay scripts) as).hist ++ removeds (run (init delay scripts) as).hist).Nodup :=
  ProofsDQ.exactly_once delay scripts as h

/-- elements leave through `get()` in the order they were put in -/
theorem fifo (h : distinctPuts scripts) :
    (gots (run (init delay scripts) as).hist).Sublist (puts (run (init delay scripts) as).hist) :=
  ProofsDQ.fifo delay scripts as h

/-- an element removed by `remove()` is never returned by `get()` (not even to a consumer that
    was already waiting on it) -/
theorem removed_not_returned (h : distinctPuts scripts) (e : Elem)
    (hr : e ∈ removeds (run (init delay scripts) as).hist) : e ∉ gots (run (init delay scripts) as).hist :=
  ProofsDQ.removed_not_returned delay scripts as h e hr

/-- a delayed element is never returned before its delay has elapsed since insertion -/
theorem never_early (h : distinctPuts scripts) (tid tid' : Nat) (e : Elem) (t t0 : Nat)
    (hg : Obs.got tid e t ∈ (run (init delay scripts) as).hist)
    (hp : Obs.put tid' e true t0 ∈ (run (init delay scripts) as).hist) : t0 + delay ≤ t :=
  ProofsDQ.never_early delay scripts as h tid tid' e t t0 hg hp

/-- an element put without delay is available immediately once it is at the head: a `get()` that
    finds it there goes straight to the pop (no sleep, clock unchanged) and the pop returns it -/
theorem immediate (s : State) (tid : Nat) (t : Thread) (head : Entry) (rest : List Entry)
    (ht : s.thread? tid = some t) (hpc : t.pc = .getAcq ∨ (t.pc = .getWait ∧ t.notified = true))
    (hq : s.queue = head :: rest) (hnd : head.delayed = false) (hc : s.closed = false) :
    ∃ s1, step s tid = some s1 ∧ s1.clock = s.clock ∧ s1.queue = s.queue ∧
      (∃ t1, s1.thread? tid = some t1 ∧ t1.pc = .getPop head) ∧
      ∃ s2, step s1 tid = some s2 ∧ Obs.got tid head.elem s.clock ∈ s2.hist ∧ s2.queue = rest :=
  ProofsDQ.immediate s tid t head rest ht hpc hq hnd hc

/-- after `close()` has completed, no consumer is left blocked un-notified in `wait()` (single
    consumer, as in the library) ... -/
theorem close_unblocks (h : singleConsumer scripts) (ctid t0 : Nat)
    (hc : Obs.closed ctid t0 ∈ (run (init delay scripts) as).hist) (tid : Nat) (t : Thread)
    (ht : (run (init delay scripts) as).thread? tid = some t) (hw : t.pc = .getWait) : t.notified = true :=
  ProofsDQ.close_unblocks delay scripts as h ctid t0 hc tid t ht hw

/-- ... and a `get()` that runs once the queue is closed returns the end marker instead of blocking -/
theorem closed_get_returns_none (s : State) (tid : Nat) (t : Thread)
    (ht : s.thread? tid = some t) (hpc : t.pc = .getAcq ∨ (t.pc = .getWait ∧ t.notified = true))
    (hc : s.closed = true) :
    ∃ s1, step s tid = some s1 ∧ Obs.gotNone tid s.clock ∈ s1.hist :=
  ProofsDQ.closed_get_returns_none s tid t ht hpc hc

/-- non-vacuity: a producer puts a delayed and a plain element, a remover takes the first out while
    the consumer sleeps on it; the consumer then gets only the second one, at the removal's time -/
example :
    let s := run (init 4 [[.get], [.put ⟨1, 7⟩ true, .put ⟨2, 8⟩ false], [.remove 7]])
      [.step 0, .step 1, .step 1, .step 1, .step 0, .step 2, .step 2, .tick 4, .step 0, .step 0, .step 0, .step 0]
    gots s.hist = [⟨2, 8⟩] ∧ removeds s.hist = [⟨1, 7⟩] ∧ s.queue = [] := by decide

end WD.C17
