/-
  C18 — Tricks: debounced batches complete and ordered; stop ends all.
  Theorems for the event debouncer (all producer/stopper scripts, all schedules, all clock advances).
  The auto-restart and shell-command tricks are explored over a simulated process table by the
  harness and judged by trace predicates (no theorem here: see evidence / DESIGN.md).
-/
import WD.Proofs.Debouncer
namespace WD.C18
open WD.Deb WD.ProofsDeb

variable (interval : Nat) (scripts : List (List Op)) (as : List Action)




/-- exactly once, in arrival order: what the callback has received so far (batches concatenated),
    followed by what is still pending, is exactly what was handed in, in order -/
theorem batches_in_order :
    handedVals (run (init interval scripts) as).hist =
      batchVals (run (init interval scripts) as).hist ++ (run (init interval scripts) as).events :=
  ProofsDeb.batches_in_order interval scripts as

/-- nothing is delivered after stop() has returned -/
theorem nothing_after_stop (p q : List Obs) (tid t : Nat) (vs : List Nat) (t' : Nat)
    (h : (run (init interval scripts) as).hist = p ++ .stopped tid t :: q) : Obs.batch vs t' ∉ q :=
  ProofsDeb.nothing_after_stop interval scripts as p q tid t vs t' h

/-- a batch is delivered only once no further event has arrived for the debounce interval: every
    event of the batch was handed in at least `interval` before the delivery -/
theorem batch_after_silence (p q : List Obs) (vs : List Nat) (t : Nat) (tid v t0 : Nat)
    (h : (run (init interval scripts) as).hist = p ++ .batch vs t :: q)
    (hv : Obs.handed tid v t0 ∈ p) (hin : v ∈ vs) (hd : ((handedVals p).filter (· == v)).length = 1) :
    t0 + interval ≤ t :=
  ProofsDeb.batch_after_silence interval scripts as p q vs t tid v t0 h hv hin hd

/-- the thread always exits on stop(): once stop() has returned the debouncer is finished or able
    to take a step (it is never left blocked in wait()), and its next steps lead to `done` without
    delivering anything -/
theorem exits_on_stop (tid t : Nat) (h : Obs.stopped tid t ∈ (run (init interval scripts) as).hist) :
    (run (init interval scripts) as).deb = .done ∨ debEnabled (run (init interval scripts) as) = true :=
  ProofsDeb.exits_on_stop interval scripts as tid t h

/-- non-vacuity: two events within the interval form one batch, delivered `interval` after the second -/
example :
    let s := run (init 4 [[.event 1, .sleep 2, .event 2]])
      [.step 0, .step 0, .step 1, .step 1, .step 0, .step 1, .tick 2, .step 1, .step 1, .step 0, .tick 4, .step 0]
    s.hist.filterMap (fun o => match o with | .batch vs t => some (vs, t) | _ => none) = [([1, 2], 6)] := by
  decide +kernel

end WD.C18
