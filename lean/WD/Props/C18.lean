/-
  C18 — Tricks: debounced batches complete and ordered; stop ends all.
  Theorems for the event debouncer (all producer/stopper scripts, all schedules, all clock advances)
  and for the auto-restart trick (`WD.Rst`: all client scripts of start()/event/stop()/sleep, all
  child lifetimes, kill delays, debounce intervals, all schedules, all clock advances).
  The shell-command trick (`WD.Shell`) driven by one dispatching thread: all event/sleep scripts, all
  command lifetimes, all schedules and clock advances.
-/
import WD.Proofs.Debouncer
import WD.Proofs.Restart
import WD.Proofs.Restart.Helpers
import WD.Proofs.Restart.Spawns
import WD.Proofs.Restart.Debs
import WD.Proofs.Restart.Progress
import WD.Proofs.Restart.NoDeadlock
import WD.Proofs.Restart.JoinAll
import WD.Proofs.Shell
namespace WD.C18
open WD.Deb WD.ProofsDeb

variable (interval : Nat) (scripts : List (List Op)) (as : List Action)




/-- exactly once, in arrival order: what the callback has received so far (batches concatenated),
    followed by what is still pending, is exactly what was handed in, in order -/
theorem batches_in_order :
    handedVals (run (init interval scripts) as).hist =
      batchVals (run (init interval scripts) as).hist ++ (run (init interval scripts) as).events :=
  ProofsDeb.batches_in_order interval scripts as

/-- nothing is delivered after stop() has returned -/
theorem nothing_after_stop (p q : List Obs) (tid t : Nat) (vs : List Nat) (t' : Nat)
    (h : (run (init interval scripts) as).hist = p ++ .stopped tid t :: q) : Obs.batch vs t' ∉ q :=
  ProofsDeb.nothing_after_stop interval scripts as p q tid t vs t' h

/-- a batch is delivered only once no further event has arrived for the debounce interval: every
    event of the batch was handed in at least `interval` before the delivery -/
theorem batch_after_silence (p q : List Obs) (vs : List Nat) (t : Nat) (tid v t0 : Nat)
    (h : (run (init interval scripts) as).hist = p ++ .batch vs t :: q)
    (hv : Obs.handed tid v t0 ∈ p) (hin : v ∈ vs) (hd : ((handedVals p).filter (· == v)).length = 1) :
    t0 + interval ≤ t :=
  ProofsDeb.batch_after_silence interval scripts as p q vs t tid v t0 h hv hin hd

/-- the thread always exits on stop(): once stop() has returned the debouncer is finished or able
    to take a step (it is never left blocked in wait()), and its next steps lead to `done` without
    delivering anything -/
theorem exits_on_stop (tid t : Nat) (h : Obs.stopped tid t ∈ (run (init interval scripts) as).hist) :
    (run (init interval scripts) as).deb = .done ∨ debEnabled (run (init interval scripts) as) = true :=
  ProofsDeb.exits_on_stop interval scripts as tid t h

/-- non-vacuity: two events within the interval form one batch, delivered `interval` after the second -/
example :
    let s := run (init 4 [[.event 1, .sleep 2, .event 2]])
      [.step 0, .step 0, .step 1, .step 1, .step 0, .step 1, .tick 2, .step 1, .step 1, .step 0, .tick 4, .step 0]
    s.hist.filterMap (fun o => match o with | .batch vs t => some (vs, t) | _ => none) = [([1, 2], 6)] := by
  decide +kernel

/-! ### AutoRestartTrick (`WD.Rst`) -/
section restart
open WD.Rst
variable (cfg : Cfg) (lifetimes : List (Option Nat)) (rscripts : List (List Rst.Op)) (ras : List Rst.Action)

/-- never more than one child process alive at a time: in every reachable state (any scripts of start() / events /
    stop() calls on any number of threads, any child lifetimes, any time a child takes to die of a signal, with or
    without debouncer and restart-on-exit, any schedule, any advance of the clock) two live children are the same
    child -/
theorem one_child_at_a_time (p q : Nat)
    (hp : (Rst.run (Rst.init cfg lifetimes rscripts) ras).aliveP p = true)
    (hq : (Rst.run (Rst.init cfg lifetimes rscripts) ras).aliveP q = true) : p = q :=
  ProofsRst.one_child cfg lifetimes rscripts ras p q hp hq

/-- after the stop() that does the work has returned no child is alive (a stop() that finds the trick already
    stopping returns at once and is logged as `stopNoop`: "the body of the function is only run once") -/
theorem no_child_after_stop (tid t : Nat)
    (h : Rst.Obs.stopRet tid t ∈ (Rst.run (Rst.init cfg lifetimes rscripts) ras).hist) (pid : Nat) :
    (Rst.run (Rst.init cfg lifetimes rscripts) ras).aliveP pid = false :=
  ProofsRst.no_child_after_stop cfg lifetimes rscripts ras tid t h pid

/-- one scheduler action (a thread step or an advance of the clock) starts at most one child, in every state -/
theorem one_spawn_per_action (s : Rst.State) (a : Rst.Action) : (Rst.act s a).procs.length ≤ s.procs.length + 1 := by
  cases a with
  | tick d => simp [Rst.act]
  | step i =>
    simp only [Rst.act, Rst.step]
    cases hi : s.threads[i]? with
    | none => simp
    | some t =>
      simp only
      split
      · exact ProofsRst.stepT_spawns_le_one s i t
      · simp

/-- children are started only by the locked part of `start()` and by the step that completes `_stop_process` inside
    `_restart_process` (directly or at the end of the kill loop): a step of `stop()`, of a process watcher or of the
    debouncer loop itself never starts one, and the restarting thread has left `_stop_process` when it has -/
theorem spawn_only_in_start_or_restart (s : Rst.State) (i : Nat)
    (h : s.procs.length < (Rst.act s (.step i)).procs.length) :
    ∃ t, s.threads[i]? = some t ∧ ProofsRst.spawnSite t.pc = true := by
  simp only [Rst.act, Rst.step] at h
  cases hi : s.threads[i]? with
  | none => simp [hi] at h
  | some t =>
    refine ⟨t, rfl, ?_⟩
    simp only [hi] at h
    split at h
    · exact ProofsRst.stepT_spawn_site s i t h
    · simp at h

/-- … and none is started later -/
theorem no_spawn_after_stop (p q : List Rst.Obs) (tid t pid t' : Nat)
    (h : (Rst.run (Rst.init cfg lifetimes rscripts) ras).hist = p ++ Rst.Obs.stopRet tid t :: q) :
    Rst.Obs.spawn pid t' ∉ q :=
  ProofsRst.no_spawn_after_stop cfg lifetimes rscripts ras p q tid t pid t' h

/-- restarts are serialised: two threads inside the region guarded by `_restart_lock` are the same thread -/
theorem restart_lock_exclusive (i j : Nat) (ti tj : Rst.Thread)
    (hi : (Rst.run (Rst.init cfg lifetimes rscripts) ras).threads[i]? = some ti) (hhi : ProofsRst.holds ti.pc = true)
    (hj : (Rst.run (Rst.init cfg lifetimes rscripts) ras).threads[j]? = some tj) (hhj : ProofsRst.holds tj.pc = true) :
    i = j :=
  ProofsRst.lock_exclusive cfg lifetimes rscripts ras i j ti tj hi hhi hj hhj

/-- the kill loop always has a child to poll (`self.process.poll()` never meets `None`: the totalised branch of
    `Rst.killLoop` is unreachable) -/
theorem kill_loop_has_child (i : Nat) (ti : Rst.Thread)
    (hi : (Rst.run (Rst.init cfg lifetimes rscripts) ras).threads[i]? = some ti) (hs : ProofsRst.isSleep ti.pc = true) :
    (Rst.run (Rst.init cfg lifetimes rscripts) ras).process ≠ none :=
  ProofsRst.sleeping_has_process cfg lifetimes rscripts ras i ti hi hs

/-- the watcher threads, their stop flags: once the working stop() has returned the trick references no watcher and no
    child, and EVERY watcher thread ever started has been told to stop (a watcher is told to stop when its child is
    replaced or stopped).  That they have also ENDED by then is `watchers_gone_after_stop`. -/
theorem watchers_stopped_after_stop (tid t : Nat)
    (h : Rst.Obs.stopRet tid t ∈ (Rst.run (Rst.init cfg lifetimes rscripts) ras).hist) :
    (Rst.run (Rst.init cfg lifetimes rscripts) ras).watcher = none ∧
    (Rst.run (Rst.init cfg lifetimes rscripts) ras).process = none ∧
    ∀ (j : Nat) (th : Rst.Thread), (Rst.run (Rst.init cfg lifetimes rscripts) ras).threads[j]? = some th →
      ProofsRst.isWatcher th.kind = true → th.stopFlag = true :=
  ProofsRst.watchers_stopped cfg lifetimes rscripts ras tid t h

/-- all helper threads gone, the debouncer: once the working stop() has returned, every EventDebouncer thread the trick
    ever started has ENDED (stop() joined it) - for every script of start() / event / stop() calls on any number of
    threads, start() after stop(), racing it, or called twice included: start() creates its debouncer under the stopping
    lock, never while the trick is stopping and never a second one (repaired defect D16); and at any time there is at
    most one debouncer thread, the one the trick refers to -/
theorem debouncer_gone_after_stop (tid t : Nat)
    (h : Rst.Obs.stopRet tid t ∈ (Rst.run (Rst.init cfg lifetimes rscripts) ras).hist)
    (j : Nat) (th : Rst.Thread) (hth : (Rst.run (Rst.init cfg lifetimes rscripts) ras).threads[j]? = some th)
    (hk : th.kind = .deb) : th.pc = .done :=
  (ProofsRst.debouncer_gone cfg lifetimes rscripts ras).1 tid t h j th hth (by rw [hk]; rfl)

theorem one_debouncer (j : Nat) (th : Rst.Thread)
    (hth : (Rst.run (Rst.init cfg lifetimes rscripts) ras).threads[j]? = some th) (hk : th.kind = .deb) :
    (Rst.run (Rst.init cfg lifetimes rscripts) ras).debTid = some j :=
  (ProofsRst.debouncer_gone cfg lifetimes rscripts ras).2 j th hth (by rw [hk]; rfl)

/-- non-vacuity: start() with a debouncer, stop(), then start() again: the second start() creates nothing -/
example :
    let s := Rst.run (Rst.init { interval := 200, killAfter := 1000, killDelay := 0, restartOnExit := false } [none, none]
        [[.start, .stop, .start]])
      [.step 0, .step 0, .step 0, .step 0, .step 0, .step 0, .step 0, .step 1, .step 1, .step 0, .step 0, .step 0, .step 0, .step 0, .step 0]
    (s.hist.any fun o => match o with | .stopRet _ _ => true | _ => false) = true ∧ s.threads.length = 2 ∧
    (s.threads.map (·.pc)) = [.done, .done] := by
  decide +kernel

/-- no deadlock on the two locks: in every reachable state, whenever a thread is waiting for `_restart_lock` (start(), a
    restart, stop()) or for `_stopping_lock` (start(), stop(), `_stop_process`), some thread can take a step, or the
    holder of `_restart_lock` is asleep in the kill loop with its 0.25 s deadline pending - nobody waits for a lock whose
    holder is itself blocked for good -/
theorem no_deadlock_on_locks (j : Nat) (t : Rst.Thread)
    (ht : (Rst.run (Rst.init cfg lifetimes rscripts) ras).threads[j]? = some t)
    (hw : ProofsRst.waitsS t.pc = true ∨ ProofsRst.waitsR t.pc = true) :
    ProofsRst.CanMove (Rst.run (Rst.init cfg lifetimes rscripts) ras) :=
  ProofsRst.lock_wait_progress cfg lifetimes rscripts ras j t ht hw

/-- **no call blocks for ever** (global): in every reachable state of the trick in which nothing can run and no timed wait
    is pending (`Stuck`: the state would never change again), every thread - application threads inside `start()`,
    `dispatch()` or `stop()`, process watchers, the debouncer - has ended, except that the debouncer may be waiting for a
    first event while nobody has stopped it.  No thread is left at a lock, at the debouncer's condition, or in a `join()`.
    (Proof: the lock discipline of `no_deadlock_on_locks`, plus: the condition lock is held across visible operations only
    by the debouncer inside its callback; what `stop()` joins are the debouncer and a watcher thread, whose pcs are those
    of their loops and of a restart; once the trick is stopping the debouncer's flag is up or the stopping thread is on
    its way to raise it, and a flagged debouncer is never left un-notified - `Proofs/Restart/Cond.lean`, `Joins.lean`,
    `StopFlag.lean`, `NoDeadlock.lean`.)  What the model cannot exhibit: that a real scheduler runs every enabled thread. -/
theorem no_call_blocks_forever (hs : ProofsRst.Stuck (Rst.run (Rst.init cfg lifetimes rscripts) ras))
    (i : Nat) (t : Rst.Thread) (ht : (Rst.run (Rst.init cfg lifetimes rscripts) ras).threads[i]? = some t) :
    t.pc = .done ∨ (t.pc = .dWaitFirst ∧ t.kind = .deb ∧ t.stopFlag = false) :=
  ProofsRst.stuck_idle (ProofsRst.reach_run cfg lifetimes rscripts ras) hs i t ht

/-- **stop ends all** (global): once the working `stop()` has returned, a state in which nothing can run and no timed wait
    is pending is one in which every thread of the trick has ended - the application threads, every process watcher, the
    debouncer -/
theorem stop_ends_all_threads (hs : ProofsRst.Stuck (Rst.run (Rst.init cfg lifetimes rscripts) ras)) (tid tm : Nat)
    (h : Rst.Obs.stopRet tid tm ∈ (Rst.run (Rst.init cfg lifetimes rscripts) ras).hist)
    (i : Nat) (t : Rst.Thread) (ht : (Rst.run (Rst.init cfg lifetimes rscripts) ras).threads[i]? = some t) : t.pc = .done :=
  ProofsRst.stuck_all_done_after_stop (ProofsRst.reach_run cfg lifetimes rscripts ras) hs ⟨_, h, rfl⟩ i t ht

/-- the debouncer's condition lock is never waited for in vain: whenever a thread waits for it (`handle_event`,
    `event_debouncer.stop()`, the debouncer's loop head), some thread can take a step or sleeps in the kill loop -/
theorem no_deadlock_on_condition (j : Nat) (t : Rst.Thread)
    (ht : (Rst.run (Rst.init cfg lifetimes rscripts) ras).threads[j]? = some t) (hw : ProofsRst.waitsC t.pc = true) :
    ProofsRst.CanMove (Rst.run (Rst.init cfg lifetimes rscripts) ras) :=
  ProofsRst.waitC_progress (ProofsRst.reach_run cfg lifetimes rscripts ras).inv (ProofsRst.reach_run cfg lifetimes rscripts ras).ch j t ht hw

/-- non-vacuity: a run with a debouncer and a watcher that ends in a stuck state after `stop()` returned -/
example :
    let s := Rst.run (Rst.init { interval := 200, killAfter := 1000, killDelay := 0, restartOnExit := true } [none, none]
        [[.start, .event, .stop]])
      ([.step 0, .step 0, .step 0, .step 0, .step 0, .step 0, .step 1, .step 1, .step 2, .step 0, .step 0, .step 0, .step 0,
        .tick 300, .step 1, .step 1, .step 2, .step 0, .step 0, .step 0, .step 0, .step 0, .tick 300] ++
       [.step 1, .step 1, .step 1, .step 2, .step 2, .step 3, .step 3, .step 0, .step 0, .step 0, .step 0, .tick 300, .step 1,
        .step 2, .step 3, .step 0, .step 0, .step 0])
    ProofsRst.stuckB s = true ∧ (s.hist.any fun o => match o with | .stopRet _ _ => true | _ => false) = true := by
  decide +kernel

/-- **"with all its helper threads gone", the process watchers** (repaired defect D29): once the working `stop()` has
    returned, every watcher thread the trick ever started has ENDED - the current one and every one that an earlier
    restart replaced: `stop()` joins the whole list `_process_watchers`, which holds every watcher that has not ended
    (`stop_joins_every_live_watcher`).  For every script of start() / event / stop() calls on any number of threads, all
    child lifetimes, schedules and clock advances. -/
theorem watchers_gone_after_stop (tid t : Nat)
    (h : Rst.Obs.stopRet tid t ∈ (Rst.run (Rst.init cfg lifetimes rscripts) ras).hist)
    (j : Nat) (th : Rst.Thread) (hth : (Rst.run (Rst.init cfg lifetimes rscripts) ras).threads[j]? = some th)
    (hk : ProofsRst.isWatcher th.kind = true) : th.pc = .done :=
  ProofsRst.watchers_gone cfg lifetimes rscripts ras tid t h j th hth hk

/-- **all helper threads gone**: once the working `stop()` has returned, every thread of the trick that is not an
    application thread - the debouncer, every process watcher - has ended -/
theorem helpers_gone_after_stop (tid t : Nat)
    (h : Rst.Obs.stopRet tid t ∈ (Rst.run (Rst.init cfg lifetimes rscripts) ras).hist)
    (j : Nat) (th : Rst.Thread) (hth : (Rst.run (Rst.init cfg lifetimes rscripts) ras).threads[j]? = some th)
    (hk : th.kind ≠ .client) : th.pc = .done := by
  cases hkk : th.kind with
  | client => exact absurd hkk hk
  | deb => exact (ProofsRst.debouncer_gone cfg lifetimes rscripts ras).1 tid t h j th hth (by rw [hkk]; rfl)
  | watcher pid => exact ProofsRst.watchers_gone cfg lifetimes rscripts ras tid t h j th hth (by rw [hkk]; rfl)

/-- a `stop()` past the restart lock carries, in the list of watchers it is going to join, every watcher thread that has
    not ended -/
theorem stop_joins_every_live_watcher (i : Nat) (ti : Rst.Thread)
    (hi : (Rst.run (Rst.init cfg lifetimes rscripts) ras).threads[i]? = some ti) (hc : ProofsRst.carries ti.pc = true)
    (u : Nat) (tu : Rst.Thread) (hu : (Rst.run (Rst.init cfg lifetimes rscripts) ras).threads[u]? = some tu)
    (hk : ProofsRst.isWatcher tu.kind = true) (hnd : tu.pc ≠ .done) : u ∈ ProofsRst.carried ti.pc :=
  ProofsRst.stop_carries_all_live_watchers cfg lifetimes rscripts ras i ti hi hc u tu hu hk hnd

def joinAllPrefix : List Rst.Action :=
  [.step 0, .step 0, .step 0, .step 0, .step 0, .step 0, .tick 250, .step 0, .tick 250, .step 0, .step 0,
   .step 0, .step 0, .step 0, .tick 250, .step 0, .tick 250, .step 0, .step 0]

/-- non-vacuity: start, an event (the child is replaced, and so is its watcher, thread 1, which has not run yet), stop:
    `stop()` waits for the REPLACED watcher first (it is not enabled until thread 1 has ended), then for the current one;
    when it has returned both watcher threads have ended -/
example :
    let s0 := Rst.init { interval := 0, killAfter := 1000, killDelay := 300, restartOnExit := true } [none, none]
        [[.start, .event, .stop]]
    let s := Rst.run s0 joinAllPrefix
    let s' := Rst.run s [.step 1, .step 0, .step 2, .step 0]
    (s.threads.map (·.pc) = [.stJoinW 1 [2], .begin, .begin]) ∧ Rst.enabled s 0 = false ∧
    (s'.hist.any fun o => match o with | .stopRet _ _ => true | _ => false) = true ∧
    s'.threads.map (·.pc) = [.done, .done, .done] := by
  decide +kernel

/-- a watcher that has been told to stop is not blocked in its poll loop: it can take its next step, and that step ends it -/
theorem stopped_watcher_ends (s : Rst.State) (j : Nat) (th : Rst.Thread) (hth : s.threads[j]? = some th)
    (hf : th.stopFlag = true) (dl : Nat) (hpc : th.pc = .wWait dl) :
    Rst.enabled s j = true ∧ ∃ s', Rst.step s j = some s' ∧ ProofsRst.pcOf s' j = some .done :=
  ProofsRst.stopped_watcher_ends s j th hth hf dl hpc

/-- non-vacuity: start, an event while the child runs (the child takes 300 ms to die of SIGINT), stop: two children
    were spawned, the working stop() returned, nobody is alive -/
example :
    let s := Rst.run (Rst.init { interval := 0, killAfter := 1000, killDelay := 300, restartOnExit := true } [none, none]
        [[.start, .event, .stop]])
      [.step 0, .step 0, .step 0, .step 0, .step 0, .step 0, .tick 250, .step 0, .tick 250, .step 0, .step 0,
       .step 0, .step 0, .step 0, .tick 250, .step 0, .tick 250, .step 0, .step 1, .step 2, .step 0, .step 0]
    s.procs.length = 2 ∧ s.aliveList = [] ∧ (s.hist.any fun o => match o with | .stopRet _ _ => true | _ => false) = true := by
  decide +kernel

end restart

/-! ### ShellCommandTrick (`WD.Shell`) -/

/-- with `wait_for_process` or `drop_during_process` commands never overlap: in every reachable state (any script of
    events and pauses of the one dispatching thread, any command lifetimes, any schedule of the dispatcher and the
    watcher threads, any advance of the clock) two running commands are the same command -/
theorem shell_no_overlap (wait drop : Bool) (lifetimes : List (Option Nat)) (script : List Shell.Op)
    (sas : List Shell.Action) (hwd : wait = true ∨ drop = true) (p q : Nat)
    (hp : (Shell.run (Shell.init wait drop lifetimes script) sas).aliveP p = true)
    (hq : (Shell.run (Shell.init wait drop lifetimes script) sas).aliveP q = true) : p = q :=
  ProofsShell.no_overlap wait drop lifetimes script sas hwd p q hp hq

/-- non-vacuity: drop mode, three events 0.1 s apart, commands last 0.25 s: the second event is dropped, the third
    runs after the first command's watcher has seen it end -/
example :
    let s := Shell.run (Shell.init false true [some 250, some 250] [.event, .sleep 100, .event, .sleep 300, .event])
      [.step 0, .step 0, .step 1, .tick 100, .step 0, .step 1, .tick 100, .step 1, .tick 100, .step 1, .tick 100, .step 0, .step 0]
    s.procs.length = 2 ∧ s.aliveList = [1] := by
  decide +kernel

/-- … and without either option they do overlap (the hypothesis is needed) -/
example :
    let s := Shell.run (Shell.init false false [some 250, some 250] [.event, .event]) [.step 0, .step 0]
    s.aliveList = [0, 1] := by
  decide +kernel

end WD.C18
