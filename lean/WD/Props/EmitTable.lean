/-
  The pipeline model's emitter (`WD.Pipe.emit`, the function the theorems of C01, C02, C03, C07 are about)
  agrees with the decision table of `InotifyEmitter.queue_events` that harness/tables.py REGENERATES FROM
  THE SOURCE on every run (every record kind x ISDIR x full_events x recursive x "is the watch root", and the
  paired move), evaluated there on a directory `d` holding a sub-directory and a file so that the synthetic
  sub-events materialise.  `decide`d over the whole table: re-checked against what the code says now.
-/
import WD.Model.Pipeline
import WD.Generated.InotifyTables
namespace WD.EmitTable
open WD.Pipe WD.Generated

def flagOfBit (b : Nat) : Option Flag :=
  if b = IN_MODIFY then some .modify else if b = IN_ATTRIB then some .attrib
  else if b = IN_CLOSE_WRITE then some .closeWrite else if b = IN_CLOSE_NOWRITE then some .closeNoWrite
  else if b = IN_OPEN then some .open else if b = IN_MOVED_FROM then some .movedFrom
  else if b = IN_MOVED_TO then some .movedTo else if b = IN_CREATE then some .create
  else if b = IN_DELETE then some .delete else if b = IN_DELETE_SELF then some .deleteSelf
  else none

/-- the scratch tree of harness/tables.py: `root/d/{sub/, f}` -/
def tableFS : FS :=
  ⟨[⟨["W"], true, 1⟩, ⟨["O"], true, 2⟩, ⟨["W", "d"], true, 3⟩, ⟨["W", "d", "sub"], true, 4⟩, ⟨["W", "d", "f"], false, 5⟩], 6⟩

def tag (e : PEv) : String := e.cls.name ++ (if e.syn then "*" else "")

def sameSet (a b : List String) : Bool := a.all b.contains && b.all a.contains

/-- the model's answer for one table row -/
def modelRow (bit : Nat) (isDir full recursive isRoot : Bool) : List String × Bool :=
  match flagOfBit bit with
  | none => ([], false)                           -- a record kind the emitter ignores (IN_ACCESS, IN_MOVE_SELF)
  | some fl =>
    let src := if isRoot then ["W"] else ["W", "d"]
    let r := emit tableFS recursive full (.one ⟨1, fl, isDir, 0, if isRoot then none else some "d", src⟩)
    (r.1.map tag, r.2)

/-- every row of the regenerated table: same set of event classes (synthetic ones marked), same "emitter stopped" -/
theorem emit_agrees_with_source :
    ∀ row ∈ translation,
      sameSet (modelRow row.1 row.2.1 row.2.2.1 row.2.2.2.1 row.2.2.2.2.1).1 row.2.2.2.2.2.1 = true ∧
      (modelRow row.1 row.2.1 row.2.2.1 row.2.2.2.1 row.2.2.2.2.1).2 = row.2.2.2.2.2.2 := by
  decide +kernel

/-- the paired move -/
theorem emit_pair_agrees_with_source :
    ∀ row ∈ pairTranslation,
      sameSet ((emit tableFS row.2.1 false
          (.two ⟨1, .movedFrom, row.1, 5, some "old", ["W", "old"]⟩ ⟨1, .movedTo, row.1, 5, some "d", ["W", "d"]⟩)).1.map tag)
        row.2.2 = true := by
  decide +kernel

/-- the kernel model only ever queues record kinds of the watch mask the library asks for -/
theorem model_flags_in_default_mask :
    ∀ b ∈ [IN_MODIFY, IN_ATTRIB, IN_CLOSE_WRITE, IN_CLOSE_NOWRITE, IN_OPEN, IN_MOVED_FROM, IN_MOVED_TO, IN_CREATE,
           IN_DELETE, IN_DELETE_SELF], b &&& WATCHDOG_ALL_EVENTS = b ∧ (flagOfBit b).isSome = true := by
  decide +kernel

example : translation.length = 192 ∧ pairTranslation.length = 4 := by decide +kernel

end WD.EmitTable
