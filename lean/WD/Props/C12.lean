/-
  C12 — Every descriptor is released exactly once, also on failure.
  For every plan of kernel batches and every interleaving of close() with the reader at every step
  of its read loop (all schedules, any length).
-/
import WD.Proofs.FdProto
namespace WD.C12
open WD.Fd

/-- no descriptor is polled, read, written, passed to inotify_rm_watch / inotify_add_watch after it
    was closed, and none is closed twice -/
theorem no_use_after_close (plan : List (List Rec)) (sched : List Nat) (e : Ev)
    (h : e ∈ (run (init plan) sched).log) :
    (∀ fd w, e ≠ .useAfterClose fd w) ∧ (∀ fd, e ≠ .secondClose fd) :=
  ProofsFd.no_use_after_close plan sched e h

/-- each descriptor is closed at most once -/
theorem closed_at_most_once (plan : List (List Rec)) (sched : List Nat) (fd : Fd) :
    ((run (init plan) sched).log.filter (· == .close fd)).length ≤ 1 :=
  ProofsFd.closed_at_most_once plan sched fd

/-- when close() has completed and the reader thread has ended, all three descriptors are closed -/
theorem released_when_done (plan : List (List Rec)) (sched : List Nat)
    (h : allDone (run (init plan) sched) = true) :
    (run (init plan) sched).inoOpen = false ∧ (run (init plan) sched).killROpen = false ∧
    (run (init plan) sched).killWOpen = false :=
  ProofsFd.released_when_done plan sched h

/-- close() never leaves the reader blocked: once the closer is past the protocol step, a reader in
    poll() has something to wake it (the wake-up byte or the kernel's answer to rm_watch) -/
theorem reader_woken (plan : List (List Rec)) (sched : List Nat)
    (hc : (run (init plan) sched).closed = true) (hr : (run (init plan) sched).reader = .rPoll) :
    readerEnabled (run (init plan) sched) = true :=
  ProofsFd.reader_woken plan sched hc hr

/-- a failure at any kernel call of the constructor leaves no descriptor open -/
theorem ctor_failure_releases (n k : Nat) (h : (ctor n (some k)).2 = true) : (ctor n (some k)).1 = 0 := by
  unfold ctor at *
  cases k with
  | zero => rfl
  | succ k => simp only at h ⊢; split at h <;> simp_all

/-- non-vacuity: close() lands while the reader sits in poll(); the reader wakes, closes all three -/
example :
    let s := run (init [[.dirCreate]]) [0, 0, 1, 1, 0, 0, 1, 1]
    allDone s = true ∧ s.inoOpen = false ∧ s.log.filter (fun e => match e with | .close _ => true | _ => false) =
      [.close .ino, .close .killR, .close .killW] := by decide

end WD.C12
