/-
  C12 — Every descriptor is released exactly once, also on failure.
  For every plan of kernel batches and every interleaving of close() with the reader at every step
  of its read loop (all schedules, any length).
-/
import WD.Proofs.FdProto
namespace WD.C12
open WD.Fd

/-- no descriptor is polled, read, written, passed to inotify_rm_watch / inotify_add_watch after it
    was closed, and none is closed twice -/
theorem no_use_after_close (plan : List (List Rec)) (sched : List Nat) (e : Ev)
    (h : e ∈ (run (init plan) sched).log) :
    (∀ fd w, e ≠ .useAfterClose fd w) ∧ (∀ fd, e ≠ .secondClose fd) :=
  ProofsFd.no_use_after_close plan sched e h

/-- each descriptor is closed at most once -/
theorem closed_at_most_once (plan : List (List Rec)) (sched : List Nat) (fd : Fd) :
    ((run (init plan) sched).log.filter (· == .close fd)).length ≤ 1 :=
  ProofsFd.closed_at_most_once plan sched fd

/-- when close() has completed and the reader thread has ended, all three descriptors are closed -/
theorem released_when_done (plan : List (List Rec)) (sched : List Nat)
    (h : allDone (run (init plan) sched) = true) :
    (run (init plan) sched).inoOpen = false ∧ (run (init plan) sched).killROpen = false ∧
    (run (init plan) sched).killWOpen = false :=
  ProofsFd.released_when_done plan sched h

/-- close() never leaves the reader blocked: once the closer is past the protocol step, a reader in
    poll() has something to wake it (the wake-up byte or the kernel's answer to rm_watch) -/
theorem reader_woken (plan : List (List Rec)) (sched : List Nat)
    (hc : (run (init plan) sched).closed = true) (hr : (run (init plan) sched).reader = .rPoll) :
    readerEnabled (run (init plan) sched) = true :=
  ProofsFd.reader_woken plan sched hc hr

/-- a failure at any kernel call of the constructor - `inotify_init`, the `pipe()` of the wake-up channel, any of the
    `inotify_add_watch` calls - leaves no descriptor open: what had been opened is exactly what the failing step closes -/
theorem ctor_failure_releases (n k : Nat) (h : (ctor n (some k)).2 = true) : (ctor n (some k)).1 = 0 := by
  have tail : ∀ (m pos : Nat), (ctorRun (List.replicate m CCall.addWatch) pos (some k) 3).2 = true →
      (ctorRun (List.replicate m CCall.addWatch) pos (some k) 3).1 = 0 := by
    intro m
    induction m with
    | zero => intro pos h; simp [ctorRun] at h
    | succ m ih =>
      intro pos h
      simp only [List.replicate_succ, ctorRun] at h ⊢
      split
      · rfl
      · next hne => simp only [hne, if_false] at h; exact ih _ h
  unfold ctor ctorCalls at *
  simp only [List.cons_append, List.nil_append, ctorRun] at h ⊢
  split
  · rfl
  · next h0 =>
    simp only [h0, if_false] at h
    split
    · rfl
    · next h1 => simp only [h1, if_false] at h; exact tail n 2 h

/-- no call fails: nothing is raised, the three descriptors stay open for the reader -/
theorem ctor_ok (n : Nat) : ctor n none = (3, false) := by
  have tail : ∀ (m pos : Nat), ctorRun (List.replicate m CCall.addWatch) pos none 3 = (3, false) := by
    intro m
    induction m with
    | zero => intro pos; simp [ctorRun]
    | succ m ih => intro pos; simp only [List.replicate_succ, ctorRun]; simp [CCall.opens, ih]
  unfold ctor ctorCalls
  simp only [List.cons_append, List.nil_append, ctorRun]
  simp [CCall.opens, tail]

/-- an entry that has vanished (ENOENT / ENOTDIR): whether the constructor raises (calls 0-2) or skips the entry (a
    sub-directory's add-watch), a raise leaves no descriptor open -/
theorem ctor_vanished_releases (n k : Nat) (h : (ctorTol n k).2 = true) : (ctorTol n k).1 = 0 := by
  unfold ctorTol at *
  split
  · next h3 => simp [h3, ctor_ok] at h
  · next h3 => simp only [h3, if_false] at h; exact ctor_failure_releases n k h

/-- the constructor raises exactly when one of its calls fails -/
theorem ctor_raises_iff (n k : Nat) : (ctor n (some k)).2 = true ↔ k < n + 2 := by
  have tail : ∀ (m pos o : Nat), (ctorRun (List.replicate m CCall.addWatch) pos (some k) o).2 = true ↔ (pos ≤ k ∧ k < pos + m) := by
    intro m
    induction m with
    | zero => intro pos o; simp [ctorRun]
    | succ m ih =>
      intro pos o
      simp only [List.replicate_succ, ctorRun]
      split
      · next h => simp at h; subst h; simp
      · next h =>
        rw [ih]
        have : k ≠ pos := fun e => h (by rw [e])
        omega
  unfold ctor ctorCalls
  simp only [List.cons_append, List.nil_append, ctorRun]
  split
  · next h => simp at h; subst h; simp
  · next h0 =>
    split
    · next h => simp at h; subst h; simp
    · next h1 =>
      rw [tail]
      have a : k ≠ 0 := fun e => h0 (by rw [e])
      have b : k ≠ 1 := fun e => h1 (by rw [e])
      omega

/-- non-vacuity: close() lands while the reader sits in poll(); the reader wakes, closes all three -/
example :
    let s := run (init [[.dirCreate]]) [0, 0, 1, 1, 0, 0, 1, 1]
    allDone s = true ∧ s.inoOpen = false ∧ s.log.filter (fun e => match e with | .close _ => true | _ => false) =
      [.close .ino, .close .killR, .close .killW] := by decide

end WD.C12
