/-
  C12 (also C06) — an emitter's start() overtaken by stop(): the hand-over of the InotifyBuffer between
  `InotifyEmitter.on_thread_start` and `on_thread_stop` (repaired defects D19, D20), and the tie of its model to the source:
  the statement shapes of the four methods, regenerated from the source's AST on every run, are the ones the model was
  written from.
-/
import WD.Proofs.EmitterHandover
import WD.Generated.Handover
namespace WD.Handover
open WD.Hand

/-- for every interleaving of the starting thread (one `start()`, or a second one after it: `again`) and the stopping
    thread, one step per access of a shared attribute: when both have finished, the buffer that was created has been
    closed, the emitter does not refer to it any more, and no second buffer ever replaced a first one (D19, D20) -/
theorem handover (again : Bool) (sched : List Bool) (h1 : (run (init again) sched).sp = .done)
    (h2 : (run (init again) sched).tp = .done) :
    ((run (init again) sched).created = true → (run (init again) sched).closed = true) ∧
      (run (init again) sched).field = false ∧ (run (init again) sched).lost = false :=
  WD.Hand.handover again sched h1 h2

/-- the source has the shape the model was written from (regenerated from the AST on every run) -/
theorem shape_agrees_with_source :
    WD.Generated.Handover.threadStart = modelThreadStart ∧ WD.Generated.Handover.threadStop = modelThreadStop ∧
    WD.Generated.Handover.onThreadStart = modelOnThreadStart ∧ WD.Generated.Handover.onThreadStop = modelOnThreadStop := by
  decide

/-- non-vacuity: the stopper runs first and finds nothing, the starter creates the buffer, sees the flag and closes it -/
example : let s := run (init false) [false, false, true, true, true, true, true, true, true, true]
    s.sp = .done ∧ s.tp = .done ∧ s.created = true ∧ s.closed = true := by decide

end WD.Handover
