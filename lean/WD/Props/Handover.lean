/-
  C12 (also C06) — an emitter's start() overtaken by stop(): the hand-over of the InotifyBuffer between
  `InotifyEmitter.on_thread_start` and `on_thread_stop` (repaired defect D19), and the tie of its model to the source:
  the statement shapes of the four methods, regenerated from the source's AST on every run, are the ones the model was
  written from.
-/
import WD.Proofs.EmitterHandover
import WD.Generated.Handover
namespace WD.Handover
open WD.Hand

/-- for every interleaving of the starting and the stopping thread, one step per access of a shared attribute: when both
    have finished, the buffer that was created has been closed and the emitter does not refer to it any more -/
theorem handover (sched : List Bool) (h1 : (run {} sched).sp = .done) (h2 : (run {} sched).tp = .done) :
    ((run {} sched).created = true → (run {} sched).closed = true) ∧ (run {} sched).field = false :=
  WD.Hand.handover sched h1 h2

/-- the source has the shape the model was written from (regenerated from the AST on every run) -/
theorem shape_agrees_with_source :
    WD.Generated.Handover.threadStart = modelThreadStart ∧ WD.Generated.Handover.threadStop = modelThreadStop ∧
    WD.Generated.Handover.onThreadStart = modelOnThreadStart ∧ WD.Generated.Handover.onThreadStop = modelOnThreadStop := by
  decide

/-- non-vacuity: the stopper runs first and finds nothing, the starter creates the buffer, sees the flag and closes it -/
example : let s := run {} [false, false, true, true, true, true, true, true]
    s.sp = .done ∧ s.tp = .done ∧ s.created = true ∧ s.closed = true := by decide

end WD.Handover
