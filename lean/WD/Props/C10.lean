/-
  C10 — Polling reports exactly the diff of successive snapshots and survives races.
  For every virtual file system (any shape/size, a fault possible at every stat/listdir position).
-/
import WD.Proofs.Polling
namespace WD.C10
open WD WD.Poll

/-- races: entries that vanish / turn into files / become unreadable during the walk never make
    the walk raise -/
theorem walk_tolerant (recursive : Bool) (root : String) (l : Except Err (List VNode))
    (h : tolerantTop l = true) : (walk recursive root l).2 = none :=
  ProofsPoll.walk_tolerant recursive root l h

/-- hence the snapshot constructor succeeds whenever the root itself can be stat'ed -/
theorem snapshot_never_raises (recursive : Bool) (path : String) (st : Stat) (l : Except Err (List VNode))
    (h : tolerantTop l = true) : ∃ s, takeSnapshot recursive (.mk path (.ok st) l) = .ok s :=
  ProofsPoll.snapshot_never_raises recursive path st l h

/-- a snapshot of a fault-free tree contains exactly the reachable entries (each once), with the
    stat data the stat function returned -/
theorem walk_complete (root : String) (nodes : List VNode) (h : faultFree nodes = true) :
    (walk true root (.ok nodes)).1.Perm (allEntries root nodes) ∧ (walk true root (.ok nodes)).2 = none :=
  ProofsPoll.walk_complete root nodes h

/-- non-recursive: the root's direct children only -/
theorem nonrecursive_children (root : String) (nodes : List VNode) :
    walk false root (.ok nodes) = (ownEntries root nodes, none) :=
  ProofsPoll.nonrecursive_children root nodes

/-- an entry whose stat fails is absent; one whose stat succeeds is present with that stat -/
theorem own_entries_iff (root : String) (nodes : List VNode) (p : Path) (st : Stat) :
    (p, st) ∈ ownEntries root nodes ↔ ∃ n l, VNode.mk n (.ok st) l ∈ nodes ∧ p = join root n :=
  ProofsPoll.own_entries_iff root nodes p st

/-- the baseline is the tree at start() -/
theorem baseline (recursive : Bool) (root : VNode) (em : Emitter) (h : Emitter.start recursive root = some em) :
    takeSnapshot recursive root = .ok em.snapshot ∧ em.stopped = false ∧ em.recursive = recursive :=
  ProofsPoll.baseline recursive root em h

/-- each poll delivers the events of the diff between the previous and the new snapshot — one per
    entry of the eight lists, of the right class and paths, deletions before creations per kind — and
    the new snapshot becomes the baseline -/
theorem poll_events (em : Emitter) (root : VNode) (new : Snap) (hs : em.stopped = false)
    (hn : takeSnapshot em.recursive root = .ok new) :
    (em.poll root).2 = diffEvents ((diff false em.snapshot new).lists em.snapshot new) ∧
    (em.poll root).1.snapshot = new ∧ (em.poll root).1.stopped = false ∧
    totalEvents (em.poll root).2 =
      (let l := (diff false em.snapshot new).lists em.snapshot new
       l.filesDeleted.length + l.filesModified.length + l.filesCreated.length + l.filesMoved.length +
       l.dirsDeleted.length + l.dirsModified.length + l.dirsCreated.length + l.dirsMoved.length) :=
  ProofsPoll.poll_events em root new hs hn

/-- nothing changed, nothing delivered -/
theorem quiet (em : Emitter) (root : VNode) (hs : em.stopped = false) (hwf : em.snapshot.WF)
    (hn : takeSnapshot em.recursive root = .ok em.snapshot) : totalEvents (em.poll root).2 = 0 :=
  ProofsPoll.quiet em root hs hwf hn

/-- root gone: exactly one DirDeletedEvent for the root, the emitter stops, and delivers nothing more -/
theorem root_gone (em : Emitter) (root : VNode) (e : Err) (hs : em.stopped = false)
    (hn : takeSnapshot em.recursive root = .error e) :
    (em.poll root).2 = [[⟨.DirDeletedEvent, em.rootPath, "", false⟩]] ∧ (em.poll root).1.stopped = true ∧
    ∀ root', ((em.poll root).1.poll root').2 = [] ∧ ((em.poll root).1.poll root').1 = (em.poll root).1 :=
  ProofsPoll.root_gone em root e hs hn

end WD.C10
