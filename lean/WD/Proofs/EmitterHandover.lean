/- the hand-over between an emitter's start() and a stop() that overtakes it: whatever the interleaving, once both have
   finished a created buffer has been closed -/
import WD.Model.EmitterHandover
namespace WD.Hand

/-- everything reachable (computed by closing the initial state under `step`) -/
def grow (l : List St) : List St :=
  (l ++ l.flatMap (fun s => [step s true, step s false])).eraseDups

def reach : List St := (List.range 12).foldl (fun l _ => grow l) [({} : St)]

theorem reach_init : ({} : St) ∈ reach := by decide +kernel

theorem reach_closed : ∀ s ∈ reach, ∀ b : Bool, step s b ∈ reach := by decide +kernel

theorem reach_good : ∀ s ∈ reach, s.sp = .done → s.tp = .done → (s.created = true → s.closed = true) ∧ s.field = false := by
  decide +kernel

theorem run_reach (sched : List Bool) : ∀ s ∈ reach, run s sched ∈ reach := by
  induction sched with
  | nil => intro s h; exact h
  | cons b rest ih => intro s h; exact ih _ (reach_closed s h b)

/-- **hand-over**: for every interleaving of the starter and the stopper, when both have finished the buffer that was
    created has been closed and the emitter no longer refers to it -/
theorem handover (sched : List Bool) (h1 : (run {} sched).sp = .done) (h2 : (run {} sched).tp = .done) :
    ((run {} sched).created = true → (run {} sched).closed = true) ∧ (run {} sched).field = false :=
  reach_good _ (run_reach sched _ reach_init) h1 h2

/-- the defect that was repaired (D19): before, the stopper first, then the starter, left the buffer open -/
example : let s := [false, false, true, true].foldl stepOld ({} : St)
    s.sp = .done ∧ s.tp = .done ∧ s.created = true ∧ s.closed = false := by decide

end WD.Hand
