/- the hand-over between an emitter's start() and a stop() that overtakes it: whatever the interleaving, once both have
   finished a created buffer has been closed -/
import WD.Model.EmitterHandover
namespace WD.Hand

/-- everything reachable (computed by closing the initial state under `step`) -/
def grow (l : List St) : List St :=
  (l ++ l.flatMap (fun s => [step s true, step s false])).eraseDups

def reach : List St := (List.range 24).foldl (fun l _ => grow l) [init false, init true]

theorem reach_init : ∀ b : Bool, init b ∈ reach := by decide +kernel

theorem reach_closed : ∀ s ∈ reach, ∀ b : Bool, step s b ∈ reach := by decide +kernel

theorem reach_good : ∀ s ∈ reach, s.sp = .done → s.tp = .done →
    (s.created = true → s.closed = true) ∧ s.field = false ∧ s.lost = false := by
  decide +kernel

theorem run_reach (sched : List Bool) : ∀ s ∈ reach, run s sched ∈ reach := by
  induction sched with
  | nil => intro s h; exact h
  | cons b rest ih => intro s h; exact ih _ (reach_closed s h b)

/-- **hand-over**: for every interleaving of the starter (which calls `start()` once or twice) and the stopper, when
    both have finished the buffer that was created has been closed, the emitter no longer refers to it, and no
    reference to a buffer was ever overwritten by a second one -/
theorem handover (again : Bool) (sched : List Bool) (h1 : (run (init again) sched).sp = .done)
    (h2 : (run (init again) sched).tp = .done) :
    ((run (init again) sched).created = true → (run (init again) sched).closed = true) ∧
      (run (init again) sched).field = false ∧ (run (init again) sched).lost = false :=
  reach_good _ (run_reach sched _ (reach_init again)) h1 h2

/-- premises satisfiable: a double start() overtaken by the stopper in the middle -/
example : let s := run (init true) [true, true, true, true, true, false, false, false, false, true, true]
    s.sp = .done ∧ s.tp = .done ∧ s.created = true ∧ s.closed = true := by decide

/-- the defect that was repaired (D20): without the look at `ident`, a second start() overwrites the reference to
    the buffer the running thread reads, and stop() then closes the wrong one -/
def d20_final : St := List.foldl stepNoGuard (init true) (List.replicate 10 true ++ List.replicate 4 false)
example : d20_final.sp = .done ∧ d20_final.tp = .done ∧ d20_final.lost = true := by decide

/-- the defect that was repaired (D19): before, the stopper first, then the starter, left the buffer open -/
example : let s := [false, false, true, true, true].foldl stepOld ({} : St)
    s.sp = .done ∧ s.tp = .done ∧ s.created = true ∧ s.closed = false := by decide

end WD.Hand
