/- the statements behind WD.Props.C18 (auto-restart part), from the invariant of WD.Proofs.Restart.Step -/
import WD.Proofs.Restart.Step
namespace WD.ProofsRst
open WD.Rst

variable (cfg : Cfg) (lifetimes : List (Option Nat)) (scripts : List (List Op)) (as : List Action)

theorem reach_inv : Inv (run (init cfg lifetimes scripts) as) := run_inv (init_inv cfg lifetimes scripts) as

theorem one_child (p q : Nat) (hp : (run (init cfg lifetimes scripts) as).aliveP p = true)
    (hq : (run (init cfg lifetimes scripts) as).aliveP q = true) : p = q := by
  have h := (reach_inv cfg lifetimes scripts as).glob.dead
  by_cases e1 : (run (init cfg lifetimes scripts) as).process = some p
  · by_cases e2 : (run (init cfg lifetimes scripts) as).process = some q
    · rw [e1] at e2; cases e2; rfl
    · rw [h q e2] at hq; cases hq
  · rw [h p e1] at hp; cases hp

theorem no_child_after_stop (tid t : Nat) (h : Obs.stopRet tid t ∈ (run (init cfg lifetimes scripts) as).hist)
    (pid : Nat) : (run (init cfg lifetimes scripts) as).aliveP pid = false := by
  have inv := reach_inv cfg lifetimes scripts as
  have := (inv.glob.ret ⟨_, h, rfl⟩).2
  exact inv.glob.dead pid (by rw [this]; simp)

theorem no_spawn_after_stop (p q : List Obs) (tid t pid t' : Nat)
    (h : (run (init cfg lifetimes scripts) as).hist = p ++ Obs.stopRet tid t :: q) : Obs.spawn pid t' ∉ q := by
  intro hm
  have := (reach_inv cfg lifetimes scripts as).glob.nsas p q _ h rfl _ hm
  simp [isSpawn] at this

theorem lock_exclusive (i j : Nat) (ti tj : Thread)
    (hi : (run (init cfg lifetimes scripts) as).threads[i]? = some ti) (hhi : holds ti.pc = true)
    (hj : (run (init cfg lifetimes scripts) as).threads[j]? = some tj) (hhj : holds tj.pc = true) : i = j := by
  have inv := reach_inv cfg lifetimes scripts as
  have a := (inv.pcs i ti.pc (pcOf_eq _ _ _ hi)).1 hhi
  have b := (inv.pcs j tj.pc (pcOf_eq _ _ _ hj)).1 hhj
  rw [a] at b; cases b; rfl

theorem sleeping_has_process (i : Nat) (ti : Thread)
    (hi : (run (init cfg lifetimes scripts) as).threads[i]? = some ti) (hs : isSleep ti.pc = true) :
    (run (init cfg lifetimes scripts) as).process ≠ none :=
  ((reach_inv cfg lifetimes scripts as).pcs i ti.pc (pcOf_eq _ _ _ hi)).2.1 hs

end WD.ProofsRst
