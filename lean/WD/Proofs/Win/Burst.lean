/- several FILE operations per ReadDirectoryChangesW read: the emitter delivers what it delivers when each operation is
   read on its own -/
import WD.Proofs.Win.Run
set_option linter.unusedSimpArgs false
namespace WD.Win
open WD WD.Pipe

/-- which names are directories does not change under a file operation -/
theorem isDir_fileOp {fs : FS} (hwf : fs.WF) {op : Op} (hv : winValid fs op = true) (hk : winFileKind fs op = true) (x : P) :
    (fsAfter fs op).isDir x = fs.isDir x := by
  have hvv := winValid_valid hv
  cases op with
  | create p =>
    obtain ⟨hp, hne, hpar⟩ := validOp_create hvv
    have h1 : fsAfter fs (.create p) = fs.add p false := rfl
    rw [h1]
    by_cases hx : x = p
    · subst hx
      rw [isDir_add_self false hne]
      cases h : fs.find? x with
      | none => simp [FS.isDir, h]
      | some e => simp [FS.exists, h] at hne
    · simp [FS.isDir, FS.find?_add, Ne.symm hx, hx]
  | write p => rfl
  | chmod p =>
    have h1 : fsAfter fs (.chmod p) = fs := by simp only [fsAfter, kernelOp]; split <;> rfl
    rw [h1]
  | unlink p =>
    have hv' : fs.isFile p = true := by simpa [validOp] using hvv
    obtain ⟨f, hf, hfile⟩ := FS.isFile_iff.mp hv'
    have hfp : f.path = p := (FS.find?_some hf).2
    have h1 : fsAfter fs (.unlink p) = fs.del p := by
      simp only [fsAfter, kernelOp, hf, removeEntry, hfile, FS.del, hfp]
    rw [h1]
    by_cases hx : x = p
    · subst hx; simp [FS.isDir, FS.find?_del, hf, hfile]
    · rw [FS.isDir_del hx]
  | rename p q =>
    obtain ⟨e, ok⟩ := renameOK_of_valid hvv
    have hfile : e.isDir = false := by
      simp only [winFileKind] at hk
      obtain ⟨f, hf, hff⟩ := FS.isFile_iff.mp hk
      rw [ok.he] at hf; cases hf; exact hff
    rw [fsAfter_rename ok]
    have hwfR := ok.wf hwf
    have hem := FS.find?_some ok.he
    -- a directory entry is untouched by the renaming of a file
    have fixed : ∀ d ∈ fs.ents, d.isDir = true → rwEnt p q d = d ∧ d.path ≠ q := by
      intro d hd hdd
      have h1 : d.path ≠ p := by
        intro h; have := hwf.path_inj hd hem.1 (h.trans hem.2.symm); subst this; rw [hfile] at hdd; cases hdd
      have h2 : isUnder p d.path = false := by
        cases hu : isUnder p d.path with
        | false => rfl
        | true =>
          exfalso
          have hpd := hwf.ancestor_dir _ d hd rfl p (ne_nil_of_two_le ok.hp2) hu
          obtain ⟨f, hf, hfd⟩ := FS.isDir_iff.mp hpd
          rw [ok.he] at hf; cases hf; rw [hfile] at hfd; cases hfd
      refine ⟨rwEnt_fixed h1 h2, ?_⟩
      intro hq
      have hold := ok.hold d (by rw [← hq]; exact FS.find?_of_mem hwf.paths hd)
      rw [hdd, hfile] at hold; cases hold.1
    apply Bool.eq_iff_iff.mpr
    constructor
    · intro h
      obtain ⟨y, hy, hyd⟩ := FS.isDir_iff.mp h
      have hym := FS.find?_some hy
      obtain ⟨d, hd, hdq, rfl⟩ := FS.mem_renamed.mp hym.1
      have hdd : d.isDir = true := by simpa [rwEnt] using hyd
      obtain ⟨hfix, _⟩ := fixed d hd hdd
      rw [hfix] at hym
      exact FS.isDir_iff.mpr ⟨d, by rw [← hym.2]; exact FS.find?_of_mem hwf.paths hd, hdd⟩
    · intro h
      obtain ⟨d, hd, hdd⟩ := FS.isDir_iff.mp h
      have hdm := FS.find?_some hd
      obtain ⟨hfix, hnq⟩ := fixed d hdm.1 hdd
      have hmem : d ∈ (fs.renamed p q).ents := FS.mem_renamed.mpr ⟨d, hdm.1, hnq, hfix.symm⟩
      exact FS.isDir_iff.mpr ⟨d, by rw [← hdm.2]; exact FS.find?_of_mem hwfR.paths hmem, hdd⟩
  | _ => simp [winFileKind] at hk

theorem emitRec_congr (fs fs' : FS) (rec : Bool) (st : EmSt) (r : WRec) (h1 : fs.isDir r.path = fs'.isDir r.path)
    (h2 : r.act = .added ∨ r.act = .renamedNew → fs.isDir r.path = false) :
    emitRec fs rec st r = emitRec fs' rec st r := by
  obtain ⟨a, p⟩ := r
  cases a <;> simp only [emitRec]
  · have := h2 (Or.inl rfl); simp only at this h1; rw [← h1, this]; simp
  · simp only at h1; rw [h1]
  · have := h2 (Or.inr rfl); simp only at this h1; rw [← h1, this]; simp

theorem emitBatch_congr (fs fs' : FS) (rec : Bool) (recs : List WRec) :
    ∀ (st : EmSt), (∀ r ∈ recs, fs.isDir r.path = fs'.isDir r.path ∧
      (r.act = .added ∨ r.act = .renamedNew → fs.isDir r.path = false)) →
    emitBatch fs rec st recs = emitBatch fs' rec st recs := by
  induction recs with
  | nil => intro st _; rfl
  | cons r rest ih =>
    intro st h
    have hr := h r (List.mem_cons_self ..)
    rw [emitBatch_cons, emitBatch_cons, emitRec_congr fs fs' rec st r hr.1 hr.2,
      ih _ (fun x hx => h x (List.mem_cons_of_mem _ hx))]

/-- the records of a file operation name no directory as added / renamed-to -/
theorem winRecs_file {fs : FS} (hwf : fs.WF) (rec : Bool) {op : Op} (hv : winValid fs op = true)
    (hk : winFileKind fs op = true) :
    ∀ r ∈ winRecs fs rec op, r.act = .added ∨ r.act = .renamedNew → (fsAfter fs op).isDir r.path = false := by
  have hvv := winValid_valid hv
  intro r hr hact
  cases op with
  | create p =>
    obtain ⟨hp, hne, hpar⟩ := validOp_create hvv
    simp only [winRecs] at hr
    split at hr
    · simp at hr; subst hr
      exact isDir_add_self false hne
    · simp at hr
  | write p =>
    simp only [winRecs] at hr
    split at hr
    · simp at hr; subst hr; rcases hact with h | h <;> cases h
    · simp at hr
  | chmod p =>
    simp only [winRecs] at hr
    split at hr
    · simp at hr; subst hr; rcases hact with h | h <;> cases h
    · simp at hr
  | unlink p =>
    simp only [winRecs] at hr
    split at hr
    · simp at hr; subst hr; rcases hact with h | h <;> cases h
    · simp at hr
  | rename p q =>
    obtain ⟨e, ok⟩ := renameOK_of_valid hvv
    have hfile : e.isDir = false := by
      simp only [winFileKind] at hk
      obtain ⟨f, hf, hff⟩ := FS.isFile_iff.mp hk
      rw [ok.he] at hf; cases hf; exact hff
    have hdq : (fsAfter fs (.rename p q)).isDir q = false := by
      rw [fsAfter_rename ok, isDir_renamed_dst ok hwf, hfile]
    simp only [winRecs] at hr
    split at hr
    · simp at hr
      rcases hr with rfl | rfl
      · rcases hact with h | h <;> cases h
      · exact hdq
    · split at hr
      · simp at hr; subst hr; rcases hact with h | h <;> cases h
      · split at hr
        · simp at hr; subst hr; exact hdq
        · simp at hr
  | _ => simp [winFileKind] at hk

theorem fileOp_not_rootRemoval {fs : FS} {op : Op} (hk : winFileKind fs op = true) : op ≠ .rmdir ["W"] := by
  intro h; subst h; simp [winFileKind] at hk

/-- along a burst of file operations no name changes between "directory" and "not a directory" -/
theorem isDir_burst (rec : Bool) (ops : List Op) : ∀ (fs : FS), fs.WF → winAllFile fs ops = true →
    ∀ x, (winRecsAll fs rec ops).1.isDir x = fs.isDir x := by
  induction ops with
  | nil => intro fs _ _ x; rfl
  | cons op rest ih =>
    intro fs hwf h x
    simp only [winAllFile, Bool.and_eq_true] at h
    obtain ⟨⟨hv, hk⟩, hrest⟩ := h
    simp only [winRecsAll]
    rw [ih (fsAfter fs op) (wf_after hwf op (winValid_valid hv) (fileOp_not_rootRemoval hk)) hrest x,
      isDir_fileOp hwf hv hk x]

theorem winRecsAll_fs (rec : Bool) (ops : List Op) (s : WSys) : (winRecsAll s.fs rec ops).1 = (s.run ops).1.fs := by
  induction ops generalizing s with
  | nil => rfl
  | cons op rest ih =>
    simp only [winRecsAll, WSys.run]
    have := ih (s.op op).1
    rw [WSys.op_fs] at this
    exact this

/-- **several operations per read, file operations**: a burst of file operations (creations, writes, attribute changes,
    removals, renames and moves of files) whose records reach `queue_events` in ONE read after the last of them leaves the
    emitter in the same state and delivers the same events, in the same order, as one read per operation -/
theorem burst_files (ops : List Op) : ∀ (s : WSys), s.fs.WF → s.st.stopped = false → winAllFile s.fs ops = true →
    s.burst ops = ((s.run ops).1, (s.run ops).2.flatten) := by
  induction ops with
  | nil =>
    intro s _ hs _
    simp [WSys.burst, winRecsAll, hs, WSys.run, emitBatch_nil]
  | cons op rest ih =>
    intro s hwf hs h
    have hall := h
    simp only [winAllFile, Bool.and_eq_true] at h
    obtain ⟨⟨hv, hk⟩, hrest⟩ := h
    have hne := fileOp_not_rootRemoval hk
    have hwf1 : (fsAfter s.fs op).WF := wf_after hwf op (winValid_valid hv) hne
    obtain ⟨_, hstop⟩ := WSys.op_contract s op hwf hs hv
    have hs1 : (s.op op).1.st.stopped = false := by
      rw [hstop]
      cases hc : (winContract s.fs s.recursive op).2
      · rfl
      · exact absurd ((winContract_stop_iff s.fs s.recursive op).mp hc) hne
    -- the drained step, spelled out
    have hop : s.op op = ({ s with fs := fsAfter s.fs op, st := (emitBatch (fsAfter s.fs op) s.recursive s.st (winRecs s.fs s.recursive op)).1 },
        (emitBatch (fsAfter s.fs op) s.recursive s.st (winRecs s.fs s.recursive op)).2) := by
      simp [WSys.op, hs, emitBatches_flatten, cutInto_flatten]
    have ih1 := ih (s.op op).1 (by rw [WSys.op_fs]; exact hwf1) hs1 (by rw [WSys.op_fs]; exact hrest)
    -- the first operation's records mean the same against the final file system
    have hcongr : emitBatch (winRecsAll s.fs s.recursive (op :: rest)).1 s.recursive s.st (winRecs s.fs s.recursive op) =
        emitBatch (fsAfter s.fs op) s.recursive s.st (winRecs s.fs s.recursive op) := by
      symm
      apply emitBatch_congr
      intro r hr
      refine ⟨?_, winRecs_file hwf s.recursive hv hk r hr⟩
      simp only [winRecsAll]
      rw [isDir_burst s.recursive rest (fsAfter s.fs op) hwf1 hrest]
    simp only [WSys.burst, hs, Bool.false_eq_true, if_false] at ih1 ⊢
    simp only [winRecsAll] at hcongr ⊢
    rw [emitBatch_append, hcongr]
    simp only [WSys.run]
    have hs1' := hs1
    rw [hop] at ih1 hs1' ⊢
    simp only at ih1 hs1' ⊢
    simp only [hs1', Bool.false_eq_true, if_false, Prod.mk.injEq] at ih1
    rw [Prod.mk.injEq]
    exact ⟨ih1.1, by simp [ih1.2]⟩

end WD.Win
