/- replaying the Windows contract: the events that change the replayed tree are those of the inotify
   contract (up to the kind of a deletion, which the replay does not look at) -/
import WD.Proofs.Win.Step
set_option linter.unusedSimpArgs false
namespace WD.Win
open WD WD.Pipe

/-- what the replay looks at in an event -/
inductive Key
  | cr (p : P) (d : Bool) | del (p : P) | mv (p q : P) (d : Bool)
  deriving DecidableEq, Repr

def key (e : PEv) : Option Key :=
  match e.cls.eventType with
  | "created" => some (.cr e.src e.cls.isDirectory)
  | "deleted" => some (.del e.src)
  | "moved" => some (.mv e.src e.dest e.cls.isDirectory)
  | _ => none

def applyKey (t : Tree) : Key → Tree
  | .cr p d => setEntry t p d
  | .del p => eraseSub t p
  | .mv p q d =>
    let t1 := if p = [] then t else eraseSub t p
    if q = [] then t1 else setEntry t1 q d

def replayK (t : Tree) (ks : List Key) : Tree := ks.foldl applyKey t

theorem applyEv_key (t : Tree) (e : PEv) : applyEv t e = match key e with | some k => applyKey t k | none => t := by
  obtain ⟨c, p, q, s⟩ := e
  by_cases h1 : c.eventType = "created"
  · rw [applyEv_created t c h1]; simp [key, h1, applyKey]
  · by_cases h2 : c.eventType = "deleted"
    · rw [applyEv_deleted t c h2]; simp [key, h2, applyKey]
    · by_cases h3 : c.eventType = "moved"
      · rw [applyEv_moved t c h3]; simp [key, h3, applyKey]
      · rw [applyEv_other t c ⟨h1, h2, h3⟩]
        simp only [key]

theorem replay_eq_replayK (t : Tree) (evs : List PEv) : replay t evs = replayK t (evs.filterMap key) := by
  induction evs generalizing t with
  | nil => rfl
  | cons e rest ih =>
    rw [replay_cons, ih, applyEv_key]
    cases h : key e with
    | none => simp [List.filterMap_cons, h]
    | some k => simp [List.filterMap_cons, h, replayK]

theorem replay_congr (t : Tree) {a b : List PEv} (h : a.filterMap key = b.filterMap key) : replay t a = replay t b := by
  rw [replay_eq_replayK, replay_eq_replayK, h]

@[simp] theorem key_mk_fcreated (p q : P) (s : Bool) : key (mkEv .FileCreatedEvent p q s) = some (.cr p false) := by simp [key, mkEv, EvClass.eventType, EvClass.isDirectory]
@[simp] theorem key_mk_dcreated (p q : P) (s : Bool) : key (mkEv .DirCreatedEvent p q s) = some (.cr p true) := by simp [key, mkEv, EvClass.eventType, EvClass.isDirectory]
@[simp] theorem key_mk_fdeleted (p q : P) (s : Bool) : key (mkEv .FileDeletedEvent p q s) = some (.del p) := by simp [key, mkEv, EvClass.eventType]
@[simp] theorem key_mk_ddeleted (p q : P) (s : Bool) : key (mkEv .DirDeletedEvent p q s) = some (.del p) := by simp [key, mkEv, EvClass.eventType]
@[simp] theorem key_mk_fmoved (p q : P) (s : Bool) : key (mkEv .FileMovedEvent p q s) = some (.mv p q false) := by simp [key, mkEv, EvClass.eventType, EvClass.isDirectory]
@[simp] theorem key_mk_dmoved (p q : P) (s : Bool) : key (mkEv .DirMovedEvent p q s) = some (.mv p q true) := by simp [key, mkEv, EvClass.eventType, EvClass.isDirectory]
@[simp] theorem key_mk_fmod (p q : P) (s : Bool) : key (mkEv .FileModifiedEvent p q s) = none := by simp [key, mkEv, EvClass.eventType]
@[simp] theorem key_mk_dmod (p q : P) (s : Bool) : key (mkEv .DirModifiedEvent p q s) = none := by simp [key, mkEv, EvClass.eventType]
@[simp] theorem key_mk_opened (p q : P) (s : Bool) : key (mkEv .FileOpenedEvent p q s) = none := by simp [key, mkEv, EvClass.eventType]
@[simp] theorem key_mk_closed (p q : P) (s : Bool) : key (mkEv .FileClosedEvent p q s) = none := by simp [key, mkEv, EvClass.eventType]
@[simp] theorem key_dirMod (p : P) : key (dirMod p) = none := by simp [dirMod]

theorem keys_mod (c d : Bool) (p : P) :
    (if c = true then [mkEv (if d = true then EvClass.DirModifiedEvent else .FileModifiedEvent) p] else []).filterMap key = [] := by
  cases c <;> cases d <;> simp [List.filterMap_cons]
theorem keys_dmod (c : Bool) (p : P) : (if c = true then [mkEv EvClass.DirModifiedEvent p] else []).filterMap key = [] := by
  cases c <;> simp [List.filterMap_cons]

theorem keys_evDeleted (d : Bool) (p : P) : (evDeleted d p).filterMap key = [.del p] := by
  cases d <;> simp [evDeleted, List.filterMap_cons]

/-- removal lists: both contracts delete the same paths -/
theorem keys_removals {fs : FS} (hwf : fs.WF) (r : Bool) (ps : List P)
    (h : ∀ q ∈ ps, 2 ≤ q.length ∧ ∃ e, fs.find? q = some e) :
    (ps.flatMap (fun p => if vis r p then [mkEv .FileDeletedEvent p] else [])).filterMap key =
      (contractRemovals fs r (ps.filterMap fs.find?)).filterMap key := by
  induction ps with
  | nil => rfl
  | cons q rest ih =>
    obtain ⟨hq2, e, he⟩ := h q (List.mem_cons_self ..)
    have hem := FS.find?_some he
    have hpar : fs.isDir (parentOf q) = true := by
      rcases hwf.parent hem.1 with h1 | h1 | h1
      · rw [hem.2] at h1; subst h1; simp at hq2
      · rw [hem.2] at h1; subst h1; simp at hq2
      · rw [hem.2] at h1; exact h1.2
    have ih' := ih (fun x hx => h x (List.mem_cons_of_mem _ hx))
    simp only [List.flatMap_cons, List.filterMap_append, List.filterMap_cons, he, contractRemovals, hem.2] at ih' ⊢
    rw [ih', ← vis_watched r hq2 hpar]
    cases vis r q
    · simp
    · simp [keys_evDeleted]

theorem entry_parent {fs : FS} (hwf : fs.WF) {p : P} {e : Ent} (he : fs.find? p = some e) (hp2 : 2 ≤ p.length) :
    fs.isDir (parentOf p) = true := by
  have hem := FS.find?_some he
  rcases hwf.parent hem.1 with h1 | h1 | h1
  · rw [hem.2] at h1; subst h1; simp at hp2
  · rw [hem.2] at h1; subst h1; simp at hp2
  · rw [hem.2] at h1; exact h1.2

theorem file_len {fs : FS} (hwf : fs.WF) {p : P} {e : Ent} (he : fs.find? p = some e) (hd : e.isDir = false) :
    2 ≤ p.length ∧ fs.isDir (parentOf p) = true := by
  have hem := FS.find?_some he
  have hno : ∀ t : P, fs.isDir t = true → p ≠ t := by
    intro t ht hpt
    obtain ⟨x, hx, hxd⟩ := FS.isDir_iff.mp ht
    rw [← hpt, he] at hx
    cases hx; rw [hd] at hxd; cases hxd
  rcases hwf.parent hem.1 with h1 | h1 | h1
  · exact absurd (hem.2.symm.trans h1) (hno _ hwf.rootW)
  · exact absurd (hem.2.symm.trans h1) (hno _ hwf.rootO)
  · rw [hem.2] at h1; exact h1

theorem validRmtree_paths {fs : FS} {p : P} {order : List P} (h : validRmtree fs p order = true) :
    (∀ q ∈ order ++ [p], 2 ≤ q.length ∧ ∃ e, fs.find? q = some e) := by
  simp only [validRmtree, Bool.and_eq_true, decide_eq_true_eq, List.all_eq_true] at h
  obtain ⟨⟨⟨⟨⟨hp2, hd⟩, hall⟩, _⟩, _⟩, _⟩ := h
  intro q hq
  rcases List.mem_append.mp hq with hq | hq
  · have := hall q hq
    refine ⟨?_, FS.exists_iff.mp this.2⟩
    have := isUnder_length this.1; omega
  · simp at hq; subst hq
    obtain ⟨e, he, _⟩ := FS.isDir_iff.mp hd
    exact ⟨hp2, e, he⟩

theorem filterMap_find_snoc {fs : FS} {p : P} (order : List P) :
    (order ++ [p]).filterMap fs.find? = order.filterMap fs.find? ++ (fs.find? p).toList := by
  cases h : fs.find? p <;> simp [List.filterMap_append, h]

/-- the Windows contract and the inotify contract change the replayed tree in the same way -/
theorem keys_eq {fs : FS} (hwf : fs.WF) (r : Bool) (op : Op) (hv : winValid fs op = true) (hroot : op ≠ .rmdir ["W"]) :
    (winContract fs r op).1.filterMap key = (contract fs r false op).1.filterMap key := by
  simp only [winValid, Bool.and_eq_true] at hv
  obtain ⟨hv, hx⟩ := hv
  cases op with
  | create p =>
    obtain ⟨hp, hne, hpar⟩ := validOp_create hv
    simp only [winContract, contract, ← vis_watched r hp hpar]
    cases vis r p <;> simp [List.filterMap_cons]
  | mkdir p =>
    obtain ⟨hp, hne, hpar⟩ := validOp_mkdir hv
    simp only [winContract, contract, ← vis_watched r hp hpar]
    cases vis r p <;> simp [List.filterMap_cons]
  | write p =>
    simp only [validOp] at hv
    obtain ⟨e, he, hd⟩ := FS.isFile_iff.mp hv
    obtain ⟨hp2, hpar⟩ := file_len hwf he hd
    simp only [winContract, contract, ← vis_watched r hp2 hpar]
    cases h : vis r p <;> simp [List.filterMap_cons]
  | chmod p =>
    simp only [winContract, contract]
    cases hf : fs.find? p with
    | none => simp [keys_mod]
    | some e =>
      simp [keys_mod, keys_dmod, List.filterMap_append]
      intro a _ _ ha; rw [ha]; simp
  | unlink p =>
    simp only [validOp] at hv
    obtain ⟨e, he, hd⟩ := FS.isFile_iff.mp hv
    obtain ⟨hp2, hpar⟩ := file_len hwf he hd
    have hex : fs.exists p = true := FS.exists_iff.mpr ⟨e, he⟩
    simp only [winContract, contract, ← vis_watched r hp2 hpar, hex, Bool.and_true]
    cases vis r p <;> simp [keys_evDeleted]
  | rmdir p =>
    have hv' := hv
    simp only [validOp, Bool.and_eq_true, Bool.or_eq_true, decide_eq_true_eq, beq_iff_eq] at hv'
    have hp2 : 2 ≤ p.length := by
      rcases hv'.1.1 with h | h
      · exact h
      · exact absurd (by rw [h]) hroot
    obtain ⟨e, he, hd⟩ := FS.isDir_iff.mp hv'.1.2
    have hpar := entry_parent hwf he hp2
    have hex : fs.exists p = true := FS.exists_iff.mpr ⟨e, he⟩
    have hb : (p == ["W"]) = false := by
      cases h : (p == ["W"]) with
      | false => rfl
      | true => exact absurd (by rw [beq_iff_eq.mp h]) hroot
    simp only [winContract, contract, ← vis_watched r hp2 hpar, hex, Bool.and_true, hb, Bool.false_eq_true, if_false]
    cases vis r p <;> simp [keys_evDeleted]
  | rmtree p =>
    simp only [validOp] at hv
    simp only [winContract, contract]
    rw [← filterMap_find_snoc]
    exact keys_removals hwf r _ (validRmtree_paths hv)
  | rmtreeOrd p order =>
    simp only [validOp] at hv
    simp only [winContract, contract]
    rw [← filterMap_find_snoc]
    exact keys_removals hwf r _ (validRmtree_paths hv)
  | rename p q =>
    obtain ⟨e, ok⟩ := renameOK_of_valid hv
    have hq : fs.find? q = none := by
      cases h : fs.find? q with
      | none => rfl
      | some x => simp [FS.exists, h] at hx
    have hd : fs.isDir p = e.isDir := by simp [FS.isDir, ok.he]
    have hpp := entry_parent hwf ok.he ok.hp2
    simp only [winContract, contract, ok.he, fsAfter_rename ok, hd, renameTail, hq,
      ← vis_watched r ok.hp2 hpp, ← vis_watched r ok.hq2 ok.hqpar]
    cases vis r p <;> cases vis r q <;> cases e.isDir <;> cases r <;>
      simp [movedCls, createdCls, keys_evDeleted, List.filterMap_append, List.filterMap_cons]

end WD.Win
