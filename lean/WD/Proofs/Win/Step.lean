/- one drained operation through the Windows layer yields the Windows contract -/
import WD.Proofs.Win.Emit
set_option linter.unusedSimpArgs false
namespace WD.Win
open WD WD.Pipe

theorem vis_watched {fs : FS} (r : Bool) {p : P} (hp : 2 ≤ p.length) (hpar : fs.isDir (parentOf p) = true) :
    vis r p = watchedDir fs r (parentOf p) := by
  have hne := ne_nil_of_two_le hp
  cases r with
  | true =>
    simp only [vis, if_true, watchedDir, hpar, Bool.true_and]
    cases h : isUnder ["W"] p with
    | true =>
      rcases isUnder_parent h with h1 | h1
      · simp [h1]
      · simp [h1]
    | false =>
      cases h2 : (parentOf p == ["W"] || isUnder ["W"] (parentOf p)) with
      | false => rfl
      | true =>
        simp only [Bool.or_eq_true, beq_iff_eq] at h2
        rw [isUnder_of_parent hne h2] at h
        cases h
  | false =>
    simp only [vis, Bool.false_eq_true, if_false, watchedDir, hpar, Bool.true_and, Bool.false_and, Bool.or_false]
    cases h2 : (parentOf p == ["W"]) with
    | true =>
      have h3 : parentOf p = ["W"] := by simpa using h2
      have hl := parentOf_length p
      rw [h3] at hl
      have : p.length = 2 := by simp at hl; omega
      have hu := isUnder_of_parent hne (Or.inl h3)
      simp [this, hu]
    | false =>
      cases h3 : (p.length == 2 && isUnder ["W"] p) with
      | false => rfl
      | true =>
        simp only [Bool.and_eq_true, beq_iff_eq] at h3
        rcases isUnder_parent h3.2 with h4 | h4
        · simp [h4] at h2
        · have := isUnder_length h4
          rw [parentOf_length] at this
          simp at this; omega

/-- removal records give file-deleted events, whatever the file system looks like by now -/
theorem emitBatch_removed (fs : FS) (r : Bool) (st : EmSt) (ps : List P) (f : P → Bool) :
    emitBatch fs r st (ps.flatMap (fun p => if f p then [WRec.mk .removed p] else [])) =
      (st, ps.flatMap (fun p => if f p then [mkEv .FileDeletedEvent p] else [])) := by
  induction ps with
  | nil => rfl
  | cons p rest ih =>
    simp only [List.flatMap_cons, emitBatch_append]
    cases hf : f p
    · simp [emitBatch_nil, ih]
    · simp [emitBatch_cons, emitBatch_nil, emitRec, ih]

theorem isDir_add_self {fs : FS} {p : P} (d : Bool) (hne : fs.exists p = false) : (fs.add p d).isDir p = d := by
  have hnone : fs.find? p = none := by
    cases h : fs.find? p with
    | none => rfl
    | some e => simp [FS.exists, h] at hne
  simp [FS.isDir, FS.find?_add, hnone]

theorem isDir_renamed_dst {fs : FS} {p q : P} {e : Ent} (ok : RenameOK fs p q e) (hwf : fs.WF) :
    (fs.renamed p q).isDir q = e.isDir := by
  have hem := FS.find?_some ok.he
  have hpq : e.path ≠ q := by rw [hem.2]; exact ok.hne
  have hmem : rwEnt p q e ∈ (fs.renamed p q).ents := FS.mem_renamed.mpr ⟨e, hem.1, hpq, rfl⟩
  have hf := FS.find?_of_mem (ok.wf hwf).paths hmem
  have hpath : (rwEnt p q e).path = q := by simp [rwEnt, hem.2, rwPath_at]
  rw [hpath] at hf
  simp [FS.isDir, hf, rwEnt]

/-- the state after a read: only a root removal stops the emitter -/
theorem emitRec_stopped (fs : FS) (r : Bool) (st : EmSt) (x : WRec) :
    (emitRec fs r st x).1.stopped = (st.stopped || x.act == .removedSelf) := by
  cases x with | mk a p => cases a <;> simp [emitRec] <;> split <;> simp

theorem emitBatch_stopped (fs : FS) (r : Bool) (st : EmSt) (recs : List WRec) :
    (emitBatch fs r st recs).1.stopped = (st.stopped || recs.any (fun x => x.act == .removedSelf)) := by
  induction recs generalizing st with
  | nil => simp [emitBatch_nil]
  | cons x rest ih => simp [emitBatch_cons, ih, emitRec_stopped, Bool.or_assoc]

/-- C20 (Windows, one operation): the events delivered for the records of one valid operation, read after
    the operation, are the Windows contract's; the emitter stops exactly when the contract says so -/
theorem win_step {fs : FS} (hwf : fs.WF) (r : Bool) (st : EmSt) (op : Op) (hv : winValid fs op = true) :
    (emitBatch (fsAfter fs op) r st (winRecs fs r op)).2 = (winContract fs r op).1 ∧
    (emitBatch (fsAfter fs op) r st (winRecs fs r op)).1.stopped = (st.stopped || (winContract fs r op).2) := by
  simp only [winValid, Bool.and_eq_true] at hv
  obtain ⟨hv, hx⟩ := hv
  cases op with
  | create p =>
    obtain ⟨hp, hne, hpar⟩ := validOp_create hv
    have h1 : fsAfter fs (.create p) = fs.add p false := rfl
    cases h : vis r p <;>
      simp [winRecs, winContract, h, emitBatch_nil, emitBatch_cons, emitRec, h1, isDir_add_self false hne, createdCls]
  | mkdir p =>
    obtain ⟨hp, hne, hpar⟩ := validOp_mkdir hv
    have h1 : fsAfter fs (.mkdir p) = fs.add p true := rfl
    have h2 : subCreated (fs.add p true) p = [] := by
      simp only [subCreated, List.map_eq_nil_iff, FS.descendants, List.filter_eq_nil_iff]
      intro e he
      rcases FS.mem_add.mp he with he | he
      · rw [FS.WF.no_descendants_of_missing hwf (ne_nil_of_two_le hp) hne e he]; simp
      · subst he; simp [isUnder_irrefl]
    cases h : vis r p <;>
      simp [winRecs, winContract, h, emitBatch_nil, emitBatch_cons, emitRec, h1, isDir_add_self true hne, createdCls, h2]
  | write p =>
    have h1 : fsAfter fs (.write p) = fs := rfl
    have hf : fs.isDir p = false := by
      simp only [validOp] at hv
      obtain ⟨e, he, hd⟩ := FS.isFile_iff.mp hv
      simp [FS.isDir, he, hd]
    cases h : vis r p <;> simp [winRecs, winContract, h, emitBatch_nil, emitBatch_cons, emitRec, h1, hf]
  | chmod p =>
    have h1 : fsAfter fs (.chmod p) = fs := by
      simp only [fsAfter, kernelOp]; split <;> rfl
    cases h : vis r p <;> simp [winRecs, winContract, h, emitBatch_nil, emitBatch_cons, emitRec, h1]
  | unlink p =>
    cases h : vis r p <;> simp [winRecs, winContract, h, emitBatch_nil, emitBatch_cons, emitRec]
  | rmdir p =>
    by_cases hw : p = ["W"]
    · subst hw; simp [winRecs, winContract, emitBatch_nil, emitBatch_cons, emitRec]
    · have hb : (p == ["W"]) = false := by simp [hw]
      cases h : vis r p <;> simp [winRecs, winContract, h, hb, emitBatch_nil, emitBatch_cons, emitRec]
  | rmtree p =>
    simp only [winRecs, winContract]
    rw [emitBatch_removed]
    simp [emitBatch_stopped]
  | rmtreeOrd p order =>
    simp only [winRecs, winContract]
    rw [emitBatch_removed]
    simp [emitBatch_stopped]
  | rename p q =>
    obtain ⟨e, ok⟩ := renameOK_of_valid hv
    have hq : fs.exists q = false := by simpa using hx
    have hd : fs.isDir p = e.isDir := by simp [FS.isDir, ok.he]
    have hdq := isDir_renamed_dst ok hwf
    simp only [winRecs, winContract, fsAfter_rename ok, hd]
    cases hvp : vis r p <;> cases hvq : vis r q <;> cases hde : e.isDir <;> cases r <;>
      simp [emitBatch_nil, emitBatch_cons, emitRec, hdq, hde, movedCls, createdCls, subMovedW, ne_nil_of_two_le ok.hp2]

end WD.Win
