/- the Windows translation layer: reads compose, MODIFIED noise adds nothing structural, one drained
   operation yields the Windows contract -/
import WD.Model.WinEmit
import WD.Proofs.Pipeline.ReplayFlat
set_option linter.unusedSimpArgs false
namespace WD.Win
open WD WD.Pipe

/- ---------------- reads compose: a buffer cut anywhere changes nothing ---------------- -/

theorem emitBatch_nil (fs : FS) (r : Bool) (st : EmSt) : emitBatch fs r st [] = (st, []) := rfl

theorem emitBatch_fold (fs : FS) (r : Bool) (recs : List WRec) (acc : EmSt × List PEv) :
    recs.foldl (fun (acc : EmSt × List PEv) x => ((emitRec fs r acc.1 x).1, acc.2 ++ (emitRec fs r acc.1 x).2)) acc =
      ((emitBatch fs r acc.1 recs).1, acc.2 ++ (emitBatch fs r acc.1 recs).2) := by
  induction recs generalizing acc with
  | nil => simp [emitBatch]
  | cons x rest ih =>
    simp only [List.foldl_cons, emitBatch]
    rw [ih, ih (((emitRec fs r acc.1 x).1, [] ++ (emitRec fs r acc.1 x).2))]
    simp [emitBatch, List.append_assoc]

theorem emitBatch_cons (fs : FS) (r : Bool) (st : EmSt) (x : WRec) (rest : List WRec) :
    emitBatch fs r st (x :: rest) =
      ((emitBatch fs r (emitRec fs r st x).1 rest).1, (emitRec fs r st x).2 ++ (emitBatch fs r (emitRec fs r st x).1 rest).2) := by
  have := emitBatch_fold fs r rest ((emitRec fs r st x).1, [] ++ (emitRec fs r st x).2)
  simp only [emitBatch, List.foldl_cons] at this ⊢
  simpa using this

theorem emitBatch_append (fs : FS) (r : Bool) (st : EmSt) (a b : List WRec) :
    emitBatch fs r st (a ++ b) =
      ((emitBatch fs r (emitBatch fs r st a).1 b).1, (emitBatch fs r st a).2 ++ (emitBatch fs r (emitBatch fs r st a).1 b).2) := by
  induction a generalizing st with
  | nil => simp [emitBatch_nil]
  | cons x rest ih =>
    simp only [List.cons_append, emitBatch_cons, ih, List.append_assoc]

theorem emitBatches_nil (fs : FS) (r : Bool) (st : EmSt) : emitBatches fs r st [] = (st, []) := rfl

theorem emitBatches_fold (fs : FS) (r : Bool) (bs : List (List WRec)) (acc : EmSt × List PEv) :
    bs.foldl (fun (acc : EmSt × List PEv) b => ((emitBatch fs r acc.1 b).1, acc.2 ++ (emitBatch fs r acc.1 b).2)) acc =
      ((emitBatch fs r acc.1 bs.flatten).1, acc.2 ++ (emitBatch fs r acc.1 bs.flatten).2) := by
  induction bs generalizing acc with
  | nil => simp [emitBatch_nil]
  | cons b rest ih =>
    simp only [List.foldl_cons, List.flatten_cons]
    rw [ih, emitBatch_append]
    simp [List.append_assoc]

/-- reading the records in several pieces gives what reading them at once gives (the pending old name
    of a rename survives a read) -/
theorem emitBatches_flatten (fs : FS) (r : Bool) (st : EmSt) (bs : List (List WRec)) :
    emitBatches fs r st bs = emitBatch fs r st bs.flatten := by
  have := emitBatches_fold fs r bs (st, [])
  simp only [emitBatches] at this ⊢
  simpa using this

theorem cutInto_flatten (cut : List Nat) (recs : List WRec) : (cutInto cut recs).flatten = recs := by
  induction cut generalizing recs with
  | nil => simp [cutInto]
  | cons n ns ih =>
    simp only [cutInto]
    split
    · simp
    · simp [ih]

/-- C20 (batch cuts, Windows): however the records of an operation are cut into reads, the delivered
    events and the emitter's state are those of a single read -/
theorem cut_irrelevant (s : WSys) (op : Op) (cut : List Nat) : s.op op cut = s.op op [] := by
  simp only [WSys.op, emitBatches_flatten, cutInto_flatten]

end WD.Win
