/- whole histories through the Windows layer: contract refinement, replay, MODIFIED noise -/
import WD.Proofs.Win.Replay
set_option linter.unusedSimpArgs false
namespace WD.Win
open WD WD.Pipe

theorem winValid_valid {fs : FS} {op : Op} (h : winValid fs op = true) : validOp fs op = true := by
  simp only [winValid, Bool.and_eq_true] at h; exact h.1

theorem winContract_stop_iff (fs : FS) (r : Bool) (op : Op) : (winContract fs r op).2 = true ↔ op = .rmdir ["W"] := by
  cases op with
  | rmdir p =>
    simp only [winContract]
    by_cases h : p = ["W"]
    · simp [h]
    · have hb : (p == ["W"]) = false := by simp [h]
      simp [hb, h]
  | rename p q => simp only [winContract]; split <;> (try split) <;> (try split) <;> simp
  | _ => simp [winContract]

theorem WSys.op_fs (s : WSys) (op : Op) (cut : List Nat) : (s.op op cut).1.fs = fsAfter s.fs op := by
  simp only [WSys.op]; split <;> rfl
theorem WSys.op_rec (s : WSys) (op : Op) (cut : List Nat) : (s.op op cut).1.recursive = s.recursive := by
  simp only [WSys.op]; split <;> rfl

theorem WSys.run_stopped (s : WSys) (ops : List Op) (h : s.st.stopped = true) : (s.run ops).2 = ops.map (fun _ => []) := by
  induction ops generalizing s with
  | nil => rfl
  | cons op rest ih =>
    have h1 : s.op op = ({ s with fs := fsAfter s.fs op }, []) := by simp [WSys.op, h]
    simp only [WSys.run, h1, List.map_cons]
    rw [ih { s with fs := fsAfter s.fs op } h]

/-- one operation of a history -/
theorem WSys.op_contract (s : WSys) (op : Op) (hwf : s.fs.WF) (hs : s.st.stopped = false) (hv : winValid s.fs op = true) :
    (s.op op).2 = (winContract s.fs s.recursive op).1 ∧
    (s.op op).1.st.stopped = (winContract s.fs s.recursive op).2 := by
  have := win_step hwf s.recursive s.st op hv
  simp only [WSys.op, hs, Bool.false_eq_true, if_false, emitBatches_flatten, cutInto_flatten, Bool.false_or] at this ⊢
  exact this

/-- C20 (Windows): for every history the file system accepts, every operation drained, the delivered
    stream is the Windows contract's, operation by operation -/
theorem run_contract (s : WSys) (ops : List Op) (hwf : s.fs.WF) (hs : s.st.stopped = false)
    (hv : winFsValid s.fs ops = true) : (s.run ops).2 = winContractRun s.fs s.recursive ops := by
  induction ops generalizing s with
  | nil => rfl
  | cons op rest ih =>
    simp only [winFsValid, Bool.and_eq_true] at hv
    obtain ⟨h1, h2⟩ := WSys.op_contract s op hwf hs hv.1
    simp only [WSys.run, winContractRun, h1]
    congr 1
    cases hstop : (winContract s.fs s.recursive op).2 with
    | true =>
      simp only [if_true]
      exact WSys.run_stopped _ _ (h2.trans hstop)
    | false =>
      simp only [Bool.false_eq_true, if_false]
      have hne : op ≠ .rmdir ["W"] := fun h => by
        have := (winContract_stop_iff s.fs s.recursive op).mpr h
        rw [hstop] at this; cases this
      have := ih (s.op op).1 (by rw [WSys.op_fs]; exact wf_after hwf op (winValid_valid hv.1) hne)
        (h2.trans hstop) (by rw [WSys.op_fs]; exact hv.2)
      rw [WSys.op_fs, WSys.op_rec] at this
      exact this

/-- the same with every operation's records cut into reads at arbitrary places -/
theorem runCuts_eq_run (s : WSys) (ops : List (Op × List Nat)) : s.runCuts ops = s.run (ops.map Prod.fst) := by
  induction ops generalizing s with
  | nil => rfl
  | cons x rest ih =>
    obtain ⟨op, cut⟩ := x
    simp only [WSys.runCuts, WSys.run, List.map_cons, cut_irrelevant s op cut, ih]

/- ---------------- replay ---------------- -/

theorem win_replay_contract {fs : FS} (hwf : fs.WF) (op : Op) (hv : winValid fs op = true) (hroot : op ≠ .rmdir ["W"]) :
    sameTree (replay (treeW fs) (winContract fs true op).1) (treeW (fsAfter fs op)) := by
  rw [replay_congr _ (keys_eq hwf true op hv hroot)]
  exact replay_contract hwf false op (winValid_valid hv)

theorem win_replayFlat_contract {fs : FS} (hwf : fs.WF) (op : Op) (hv : winValid fs op = true) (hroot : op ≠ .rmdir ["W"]) :
    sameTree (replay (treeW1 fs) (winContract fs false op).1) (treeW1 (fsAfter fs op)) := by
  rw [replay_congr _ (keys_eq hwf false op hv hroot)]
  exact replayFlat_contract hwf false op (winValid_valid hv) hroot

theorem win_replay_run {fs : FS} (hwf : fs.WF) (ops : List Op) (hv : winFsValid fs ops = true) (hroot : Op.rmdir ["W"] ∉ ops) :
    sameTree (replay (treeW fs) (winContractRun fs true ops).flatten) (treeW (fsRun fs ops)) := by
  induction ops generalizing fs with
  | nil => exact sameTree_refl _
  | cons op rest ih =>
    simp only [winFsValid, Bool.and_eq_true] at hv
    have hne : op ≠ .rmdir ["W"] := fun h => hroot (h ▸ List.mem_cons_self ..)
    have hst : (winContract fs true op).2 = false := by
      cases h : (winContract fs true op).2 with
      | false => rfl
      | true => exact absurd ((winContract_stop_iff _ _ _).mp h) hne
    simp only [winContractRun, hst, Bool.false_eq_true, if_false, List.flatten_cons, replay_append, fsRun]
    have h1 := win_replay_contract hwf op hv.1 hne
    have h2 := ih (wf_after hwf op (winValid_valid hv.1) hne) hv.2 (fun h => hroot (List.mem_cons_of_mem _ h))
    exact sameTree_trans (sameTree_replay h1 _) h2

theorem win_replayFlat_run {fs : FS} (hwf : fs.WF) (ops : List Op) (hv : winFsValid fs ops = true) (hroot : Op.rmdir ["W"] ∉ ops) :
    sameTree (replay (treeW1 fs) (winContractRun fs false ops).flatten) (treeW1 (fsRun fs ops)) := by
  induction ops generalizing fs with
  | nil => exact sameTree_refl _
  | cons op rest ih =>
    simp only [winFsValid, Bool.and_eq_true] at hv
    have hne : op ≠ .rmdir ["W"] := fun h => hroot (h ▸ List.mem_cons_self ..)
    have hst : (winContract fs false op).2 = false := by
      cases h : (winContract fs false op).2 with
      | false => rfl
      | true => exact absurd ((winContract_stop_iff _ _ _).mp h) hne
    simp only [winContractRun, hst, Bool.false_eq_true, if_false, List.flatten_cons, replay_append, fsRun]
    have h1 := win_replayFlat_contract hwf op hv.1 hne
    have h2 := ih (wf_after hwf op (winValid_valid hv.1) hne) hv.2 (fun h => hroot (List.mem_cons_of_mem _ h))
    exact sameTree_trans (sameTree_replay h1 _) h2

/- ---------------- MODIFIED noise ---------------- -/

def strip (recs : List WRec) : List WRec := recs.filter (fun r => r.act != .modified)

theorem emitBatch_strip (fs : FS) (r : Bool) (st : EmSt) (recs : List WRec) :
    (emitBatch fs r st recs).1 = (emitBatch fs r st (strip recs)).1 ∧
    (emitBatch fs r st recs).2.filterMap key = (emitBatch fs r st (strip recs)).2.filterMap key := by
  induction recs generalizing st with
  | nil => exact ⟨rfl, rfl⟩
  | cons x rest ih =>
    by_cases hx : x.act = .modified
    · have h1 : strip (x :: rest) = strip rest := by simp [strip, hx]
      have h2 : (emitRec fs r st x).1 = st := by obtain ⟨a, p⟩ := x; simp at hx; subst hx; rfl
      have h3 : (emitRec fs r st x).2.filterMap key = [] := by
        obtain ⟨a, p⟩ := x; simp at hx; subst hx
        simp only [emitRec]
        cases fs.isDir p <;> simp [List.filterMap_cons]
      rw [h1, emitBatch_cons, h2]
      exact ⟨(ih st).1, by simp [List.filterMap_append, h3, (ih st).2]⟩
    · have h1 : strip (x :: rest) = x :: strip rest := by simp [strip, hx]
      rw [h1, emitBatch_cons, emitBatch_cons]
      exact ⟨(ih _).1, by simp [List.filterMap_append, (ih _).2]⟩

/-- C20 (Windows, noise): extra MODIFIED records anywhere in the stream leave the emitter's state and every
    created / deleted / moved event as they are -/
theorem noise_irrelevant (fs : FS) (r : Bool) (st : EmSt) {recs recs' : List WRec} (h : Noisy recs recs') :
    (emitBatch fs r st recs').1 = (emitBatch fs r st recs).1 ∧
    ∀ t, replay t (emitBatch fs r st recs').2 = replay t (emitBatch fs r st recs).2 := by
  have h1 := emitBatch_strip fs r st recs
  have h2 := emitBatch_strip fs r st recs'
  have hs : strip recs' = strip recs := h
  rw [hs] at h2
  exact ⟨h2.1.trans h1.1.symm, fun t => replay_congr t (h2.2.trans h1.2.symm)⟩

end WD.Win
