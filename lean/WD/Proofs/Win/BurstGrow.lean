/- several operations per read, Windows layer: a burst of mkdirs and file creations at any depth handed to `queue_events`
   in ONE read.  The OS reports every new entry, and for a new directory the emitter also walks what lies inside it by
   then - entries may be announced twice; replaying the stream still gives the tree. -/
import WD.Proofs.Win.Burst
import WD.Proofs.Pipeline.BurstGrow
set_option linter.unusedSimpArgs false
namespace WD.Win
open WD WD.Pipe

/-- the tree the watch is accountable for: everything below the root, or its direct children -/
def treeOf (recursive : Bool) (fs : FS) : Tree := if recursive then treeW fs else treeW1 fs

theorem mem_treeOf {recursive : Bool} {fs : FS} {y : P × Bool} :
    y ∈ treeOf recursive fs ↔ ∃ e ∈ fs.ents, e.path = y.1 ∧ e.isDir = y.2 ∧ vis recursive y.1 = true := by
  unfold treeOf vis
  cases recursive with
  | true => simp only [if_true]; exact mem_treeW
  | false =>
    simp only [Bool.false_eq_true, if_false, treeW1, List.mem_filter, mem_treeW, decide_eq_true_eq, Bool.and_eq_true, beq_iff_eq]
    constructor
    · rintro ⟨⟨e, he, h1, h2, h3⟩, hl⟩; exact ⟨e, he, h1, h2, hl, h3⟩
    · rintro ⟨e, he, h1, h2, hl, h3⟩; exact ⟨⟨e, he, h1, h2, h3⟩, hl⟩

/-- replaying created events whose (path, kind) all belong to one path-functional target set that also contains the
    starting tree: the result is the starting tree plus what was announced, however often -/
theorem replay_created_dups (T : Tree) (hT : ∀ x ∈ T, ∀ y ∈ T, x.1 = y.1 → x = y) :
    ∀ (evs : List PEv) (t : Tree), (∀ y ∈ t, y ∈ T) →
    (∀ e ∈ evs, e.cls.eventType = "created" ∧ (e.src, e.cls.isDirectory) ∈ T) →
    ∀ y, y ∈ replay t evs ↔ y ∈ t ∨ y ∈ createdOf evs := by
  intro evs
  induction evs with
  | nil => intro t _ _ y; simp [replay, createdOf]
  | cons e rest ih =>
    intro t ht hev y
    obtain ⟨hc, hin⟩ := hev e (List.mem_cons_self ..)
    have happ : applyEv t e = setEntry t e.src e.cls.isDirectory := by
      obtain ⟨c, p, q, s⟩ := e; exact applyEv_created t c hc p q s
    have ht' : ∀ y ∈ setEntry t e.src e.cls.isDirectory, y ∈ T := by
      intro y hy
      rcases mem_setEntry.mp hy with ⟨h, _⟩ | rfl
      · exact ht y h
      · exact hin
    rw [replay_cons, happ, ih _ ht' (fun x hx => hev x (List.mem_cons_of_mem _ hx)) y]
    have hco : createdOf (e :: rest) = (e.src, e.cls.isDirectory) :: createdOf rest := by simp [createdOf, hc]
    rw [hco, mem_setEntry]
    constructor
    · rintro ((⟨h, _⟩ | h) | h)
      · exact Or.inl h
      · exact Or.inr (h ▸ List.mem_cons_self ..)
      · exact Or.inr (List.mem_cons_of_mem _ h)
    · rintro (h | h)
      · by_cases hp : y.1 = e.src
        · exact Or.inl (Or.inr (hT y (ht y h) _ hin hp))
        · exact Or.inl (Or.inl ⟨h, hp⟩)
      · rcases List.mem_cons.mp h with h | h
        · exact Or.inl (Or.inr h)
        · exact Or.inr h

/-- the records of a growth burst: one ADDED per new visible entry -/
theorem winRecsAll_grow (rec : Bool) : ∀ (ops : List Op) (fs : FS), fs.WF → allGrow fs ops = true →
    (winRecsAll fs rec ops).1 = fsRun fs ops ∧
    (∀ r ∈ (winRecsAll fs rec ops).2, r.act = .added ∧ vis rec r.path = true ∧
      ∃ e ∈ (fsRun fs ops).ents, e.path = r.path ∧ e ∉ fs.ents) ∧
    (∀ e ∈ (fsRun fs ops).ents, e ∉ fs.ents → vis rec e.path = true → (⟨.added, e.path⟩ : WRec) ∈ (winRecsAll fs rec ops).2) := by
  intro ops
  induction ops with
  | nil =>
    intro fs _ _
    exact ⟨rfl, by simp [winRecsAll], fun e he hn => absurd he hn⟩
  | cons op rest ih =>
    intro fs hwf hv
    have hall := hv
    simp only [allGrow, Bool.and_eq_true] at hv
    obtain ⟨⟨hvalid, hkind⟩, hrest⟩ := hv
    obtain ⟨p, b, hop, hp, hne, hpar, hfs⟩ := grow_op hvalid hkind
    have hwf1 : (fsAfter fs op).WF := by rw [hfs]; exact hwf.add hp hne hpar b
    obtain ⟨i1, i2, i3⟩ := ih (fsAfter fs op) hwf1 hrest
    obtain ⟨_, g2, _, _⟩ := grow_facts rest (fsAfter fs op) hwf1 hrest
    have hrec : winRecs fs rec op = if vis rec p then [⟨.added, p⟩] else [] := by
      rcases hop with ⟨rfl, _⟩ | ⟨rfl, _⟩ <;> simp [winRecs]
    have hEnew : (⟨p, b, fs.nextIno⟩ : Ent) ∉ fs.ents := fun h => exists_false_iff.mp hne _ h rfl
    have hEF : (⟨p, b, fs.nextIno⟩ : Ent) ∈ (fsRun (fsAfter fs op) rest).ents := g2 _ (by rw [hfs]; exact FS.mem_add.mpr (Or.inr rfl))
    simp only [winRecsAll, fsRun]
    refine ⟨i1, ?_, ?_⟩
    · intro r hr
      rcases List.mem_append.mp hr with h | h
      · rw [hrec] at h
        split at h
        · rename_i hvis
          simp only [List.mem_singleton] at h; subst h
          exact ⟨rfl, hvis, _, hEF, rfl, hEnew⟩
        · cases h
      · obtain ⟨a, b', e, he, hep, hen⟩ := i2 r h
        refine ⟨a, b', e, he, hep, fun hh => hen ?_⟩
        rw [hfs]; exact FS.mem_add.mpr (Or.inl hh)
    · intro e he hn hvis
      by_cases h1 : e ∈ (fsAfter fs op).ents
      · rw [hfs] at h1
        rcases FS.mem_add.mp h1 with h | h
        · exact absurd h hn
        · subst h
          refine List.mem_append.mpr (Or.inl ?_)
          rw [hrec]; simp only at hvis; simp [hvis]
      · exact List.mem_append.mpr (Or.inr (i3 e he h1 hvis))

/-- a read that consists of ADDED records only: the state is untouched, every event is a created event for an entry that
    exists (with its kind) and that the watch is accountable for -/
theorem emitBatch_added (F : FS) (hwf : F.WF) (rec : Bool) (st : EmSt) : ∀ (recs : List WRec),
    (∀ r ∈ recs, r.act = .added ∧ vis rec r.path = true ∧ ∃ e ∈ F.ents, e.path = r.path) →
    (emitBatch F rec st recs).1 = st ∧
    (∀ ev ∈ (emitBatch F rec st recs).2, ev.cls.eventType = "created" ∧ (ev.src, ev.cls.isDirectory) ∈ treeOf rec F) ∧
    (∀ r ∈ recs, ∀ e ∈ F.ents, e.path = r.path → (e.path, e.isDir) ∈ createdOf (emitBatch F rec st recs).2) := by
  intro recs
  induction recs with
  | nil => intro _; simp [emitBatch_nil]
  | cons r rest ih =>
    intro h
    obtain ⟨ha, hvis, e, he, hep⟩ := h r (List.mem_cons_self ..)
    obtain ⟨i1, i2, i3⟩ := ih (fun x hx => h x (List.mem_cons_of_mem _ hx))
    have hfind : F.find? r.path = some e := hep ▸ hwf.find_mem he
    have hisd : F.isDir r.path = e.isDir := by simp [FS.isDir, hfind]
    have hrec : emitRec F rec st r = (st, [mkEv (createdCls e.isDir) r.path] ++
        (if e.isDir && rec then subCreated F r.path else [])) := by
      obtain ⟨act, path⟩ := r
      simp only at ha; subst ha
      simp only [emitRec, hisd]
    rw [emitBatch_cons, hrec]
    simp only
    have hhead : ∀ ev ∈ [mkEv (createdCls e.isDir) r.path] ++ (if e.isDir && rec then subCreated F r.path else []),
        ev.cls.eventType = "created" ∧ (ev.src, ev.cls.isDirectory) ∈ treeOf rec F := by
      intro ev hev
      rcases List.mem_append.mp hev with h1 | h1
      · simp only [List.mem_singleton] at h1; subst h1
        refine ⟨by cases e.isDir <;> simp [createdCls, mkEv, EvClass.eventType], ?_⟩
        rw [mem_treeOf]
        exact ⟨e, he, by simp [mkEv, hep], by cases e.isDir <;> simp [createdCls, mkEv, EvClass.isDirectory], by simpa [mkEv] using hvis⟩
      · split at h1
        · rename_i hcond
          simp only [Bool.and_eq_true] at hcond
          obtain ⟨x, hx, rfl⟩ := List.mem_map.mp h1
          unfold FS.descendants at hx
          obtain ⟨hxm, hxu⟩ := List.mem_filter.mp hx
          refine ⟨by cases x.isDir <;> simp [mkEv, EvClass.eventType], ?_⟩
          rw [mem_treeOf]
          refine ⟨x, hxm, by simp [mkEv], by cases x.isDir <;> simp [mkEv, EvClass.isDirectory], ?_⟩
          have hr : rec = true := hcond.2
          subst hr
          simp only [vis, if_true, mkEv] at hvis ⊢
          exact isUnder_trans hvis hxu
        · cases h1
    refine ⟨i1, ?_, ?_⟩
    · intro ev hev
      rcases List.mem_append.mp hev with h1 | h1
      · exact hhead ev h1
      · exact i2 ev h1
    · intro r' hr' e' he' hep'
      have hcoa : ∀ a b : List PEv, createdOf (a ++ b) = createdOf a ++ createdOf b := by
        intro a b; simp [createdOf, List.filterMap_append]
      rw [hcoa]
      rcases List.mem_cons.mp hr' with rfl | hr'
      · have : e' = e := hwf.path_inj he' he (hep'.trans hep.symm)
        subst this
        refine List.mem_append.mpr (Or.inl ?_)
        rw [hcoa]
        refine List.mem_append.mpr (Or.inl ?_)
        cases hd : e'.isDir <;> simp [createdOf, mkEv, createdCls, EvClass.eventType, EvClass.isDirectory, hep, hd]
      · exact List.mem_append.mpr (Or.inr (i3 r' hr' e' he' hep'))

/-- **several operations per read, growth**: a burst of mkdirs and file creations at any depth handed to `queue_events`
    in ONE read after its last operation (recursive or not): the emitter's state is untouched, and replaying the delivered
    events on the tree before the burst gives the tree after it - although an entry created inside a directory of the
    same burst is announced twice (by its own record and by the walk of the new directory) -/
theorem burst_grow (s : WSys) (ops : List Op) (hwf : s.fs.WF) (hs : s.st.stopped = false) (hv : allGrow s.fs ops = true) :
    (s.burst ops).1 = { s with fs := fsRun s.fs ops } ∧
    sameTree (replay (treeOf s.recursive s.fs) (s.burst ops).2) (treeOf s.recursive (fsRun s.fs ops)) := by
  obtain ⟨r1, r2, r3⟩ := winRecsAll_grow s.recursive ops s.fs hwf hv
  obtain ⟨g1, g2, _, _⟩ := grow_facts ops s.fs hwf hv
  have hrecs : ∀ r ∈ (winRecsAll s.fs s.recursive ops).2, r.act = .added ∧ vis s.recursive r.path = true ∧
      ∃ e ∈ (fsRun s.fs ops).ents, e.path = r.path := by
    intro r hr
    obtain ⟨a, b, e, he, hep, _⟩ := r2 r hr
    exact ⟨a, b, e, he, hep⟩
  obtain ⟨e1, e2, e3⟩ := emitBatch_added (fsRun s.fs ops) g1 s.recursive s.st _ hrecs
  have hb : s.burst ops = ({ s with fs := fsRun s.fs ops, st := (emitBatch (fsRun s.fs ops) s.recursive s.st (winRecsAll s.fs s.recursive ops).2).1 },
      (emitBatch (fsRun s.fs ops) s.recursive s.st (winRecsAll s.fs s.recursive ops).2).2) := by
    simp only [WSys.burst, hs, Bool.false_eq_true, if_false, r1]
  rw [hb, e1]
  refine ⟨rfl, ?_⟩
  have hT : ∀ x ∈ treeOf s.recursive (fsRun s.fs ops), ∀ y ∈ treeOf s.recursive (fsRun s.fs ops), x.1 = y.1 → x = y := by
    intro x hx y hy hxy
    obtain ⟨a, ha, ha1, ha2, _⟩ := mem_treeOf.mp hx
    obtain ⟨b, hb', hb1, hb2, _⟩ := mem_treeOf.mp hy
    have : a = b := g1.path_inj ha hb' (by rw [ha1, hb1, hxy])
    subst this
    exact Prod.ext hxy (by rw [← ha2, ← hb2])
  have hsub : ∀ y ∈ treeOf s.recursive s.fs, y ∈ treeOf s.recursive (fsRun s.fs ops) := by
    intro y hy
    obtain ⟨a, ha, ha1, ha2, ha3⟩ := mem_treeOf.mp hy
    exact mem_treeOf.mpr ⟨a, g2 a ha, ha1, ha2, ha3⟩
  intro y
  simp only
  rw [replay_created_dups _ hT _ _ hsub e2 y]
  constructor
  · rintro (h | h)
    · exact hsub y h
    · -- announced: a created event of the read
      have : ∃ ev ∈ (emitBatch (fsRun s.fs ops) s.recursive s.st (winRecsAll s.fs s.recursive ops).2).2,
          ev.cls.eventType = "created" ∧ y = (ev.src, ev.cls.isDirectory) := by
        simp only [createdOf, List.mem_filterMap] at h
        obtain ⟨ev, hev, hy⟩ := h
        split at hy
        · rename_i hc; exact ⟨ev, hev, hc, (Option.some.inj hy).symm⟩
        · cases hy
      obtain ⟨ev, hev, _, rfl⟩ := this
      exact (e2 ev hev).2
  · intro hy
    obtain ⟨a, ha, ha1, ha2, ha3⟩ := mem_treeOf.mp hy
    by_cases h0 : a ∈ s.fs.ents
    · exact Or.inl (mem_treeOf.mpr ⟨a, h0, ha1, ha2, ha3⟩)
    · right
      have hrec := r3 a ha h0 (ha1 ▸ ha3)
      have := e3 _ hrec a ha rfl
      have hya : y = (a.path, a.isDir) := Prod.ext ha1.symm ha2.symm
      rw [hya]; exact this

end WD.Win
