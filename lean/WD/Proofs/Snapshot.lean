/- helper lemmas for C09 (snapshot diff) -/
import WD.Model.Snapshot
import WD.Spec.SnapshotSpec
namespace WD
open WD.Spec

theorem Snap.mem_paths_iff (s : Snap) (p : Path) : p ∈ s.paths ↔ ∃ st, s.stat? p = some st := by
  unfold Snap.paths Snap.stat?
  rw [← alookup_isSome_iff, Option.isSome_iff_exists]

theorem Snap.contains_paths (s : Snap) (p : Path) : s.paths.contains p = true ↔ ∃ st, s.stat? p = some st := by
  rw [List.contains_iff_mem, Snap.mem_paths_iff]

theorem Snap.WF.stat_mem {s : Snap} (h : s.WF) {p : Path} {st : Stat} :
    s.stat? p = some st ↔ (p, st) ∈ s.stats :=
  alookup_some_iff h.statsNodup

theorem Snap.WF.pathOf_of_stat {s : Snap} (h : s.WF) {p : Path} {st : Stat}
    (hs : s.stat? p = some st) : s.pathOf st.id = some p := by
  have h1 : alookup st.id s.byId = some p := (h.inv st.id p).mpr ⟨st, hs, rfl⟩
  have h2 : p ≠ "" := h.nonempty p ((s.mem_paths_iff p).mpr ⟨st, hs⟩)
  simp [Snap.pathOf, h1, h2]

theorem Snap.WF.stat_of_pathOf {s : Snap} (h : s.WF) {p : Path} {i : FileId}
    (hp : s.pathOf i = some p) : ∃ st, s.stat? p = some st ∧ st.id = i := by
  unfold Snap.pathOf at hp
  split at hp
  · rename_i q hq
    split at hp
    · simp at hp
    · simp at hp; subst hp; exact (h.inv i q).mp hq
  · simp at hp

theorem Snap.WF.pathOf_none_iff {s : Snap} (h : s.WF) (i : FileId) :
    s.pathOf i = none ↔ ∀ p st, s.stat? p = some st → st.id ≠ i := by
  constructor
  · intro hn p st hs hid
    have := h.pathOf_of_stat hs
    rw [hid, hn] at this; simp at this
  · intro hall
    cases hp : s.pathOf i with
    | none => rfl
    | some p =>
      obtain ⟨st, hs, hid⟩ := h.stat_of_pathOf hp
      exact absurd hid (hall p st hs)

/-- injectivity: one identity, one path -/
theorem Snap.WF.inj {s : Snap} (h : s.WF) {p q : Path} {a b : Stat}
    (ha : s.stat? p = some a) (hb : s.stat? q = some b) (hid : a.id = b.id) : p = q := by
  have h1 := h.pathOf_of_stat ha
  have h2 := h.pathOf_of_stat hb
  rw [hid, h2] at h1; simp at h1; exact h1.symm

theorem hasId_iff (s : Snap) (i : FileId) :
    hasId s i = true ↔ ∃ p st, (p, st) ∈ s.stats ∧ st.id = i := by
  simp [hasId, List.any_eq_true]

theorem Snap.WF.hasId_iff {s : Snap} (h : s.WF) (i : FileId) :
    hasId s i = true ↔ ∃ p, s.pathOf i = some p := by
  rw [WD.hasId_iff]
  constructor
  · rintro ⟨p, st, hm, hid⟩
    exact ⟨p, hid ▸ h.pathOf_of_stat (h.stat_mem.mpr hm)⟩
  · rintro ⟨p, hp⟩
    obtain ⟨st, hs, hid⟩ := h.stat_of_pathOf hp
    exact ⟨p, st, h.stat_mem.mp hs, hid⟩

theorem Snap.WF.hasId_false_iff {s : Snap} (h : s.WF) (i : FileId) :
    hasId s i = false ↔ s.pathOf i = none := by
  have := h.hasId_iff i
  cases hh : hasId s i <;> cases hp : s.pathOf i <;> simp_all

theorem getInode_false (s : Snap) (p : Path) : getInode false s p = s.inode? p := by
  simp [getInode, Snap.inode?]

theorem Snap.inode?_eq_some {s : Snap} {p : Path} {i : FileId} :
    s.inode? p = some i ↔ ∃ st, s.stat? p = some st ∧ st.id = i := by
  simp [Snap.inode?]


theorem ainsert_fresh {α β : Type} [DecidableEq α] (k : α) (v : β) (l : List (α × β)) (h : k ∉ akeys l) :
    ainsert k v l = l ++ [(k, v)] := by
  induction l with
  | nil => rfl
  | cons hd t ih =>
    obtain ⟨k', v'⟩ := hd
    simp only [akeys, List.map_cons, List.mem_cons, not_or] at h
    have hk : ¬ k' = k := fun e => h.1 e.symm
    simp only [ainsert, hk, if_false, List.cons_append]
    rw [ih h.2]

theorem foldl_ainsert_fresh {α β γ : Type} [DecidableEq α] (f : γ → α × β) (es : List γ) (acc : List (α × β))
    (hnd : (es.map (fun e => (f e).1)).Nodup) (hdis : ∀ e ∈ es, (f e).1 ∉ akeys acc) :
    es.foldl (fun a e => ainsert (f e).1 (f e).2 a) acc = acc ++ es.map f := by
  induction es generalizing acc with
  | nil => simp
  | cons e t ih =>
    simp only [List.map_cons, List.nodup_cons] at hnd
    simp only [List.foldl_cons]
    rw [ainsert_fresh _ _ _ (hdis e (List.mem_cons_self ..))]
    rw [ih _ hnd.2]
    · simp
    · intro e' he'
      simp only [akeys, List.map_append, List.map_cons, List.map_nil, List.mem_append, List.mem_singleton, not_or]
      refine ⟨hdis e' (List.mem_cons_of_mem _ he'), ?_⟩
      intro heq
      exact hnd.1 (List.mem_map.mpr ⟨e', he', heq⟩)

theorem build_fold_fields (es : List (Path × Stat)) (a : List (Path × Stat)) (b : List (FileId × Path)) :
    es.foldl (fun s e => (⟨ainsert e.1 e.2 s.stats, ainsert e.2.id e.1 s.byId⟩ : Snap)) ⟨a, b⟩ =
      ⟨es.foldl (fun a e => ainsert e.1 e.2 a) a, es.foldl (fun b e => ainsert e.2.id e.1 b) b⟩ := by
  induction es generalizing a b with
  | nil => rfl
  | cons e t ih => simp only [List.foldl_cons]; rw [ih]

theorem build_eq_of_wf (es : List (Path × Stat)) (h : entriesWF es = true) :
    Snap.build es = ⟨es, es.map (fun e => (e.2.id, e.1))⟩ := by
  simp only [entriesWF, Bool.and_eq_true, decide_eq_true_eq] at h
  obtain ⟨⟨h1, h2⟩, _⟩ := h
  unfold Snap.build Snap.empty
  rw [build_fold_fields]
  have e1 := foldl_ainsert_fresh (fun e : Path × Stat => e) es [] (by simpa using h1) (by simp [akeys])
  have e2 := foldl_ainsert_fresh (fun e : Path × Stat => (e.2.id, e.1)) es [] (by simpa using h2) (by simp [akeys])
  simp only [List.nil_append, List.map_id'] at e1 e2
  rw [e1, e2]

end WD
