/- the ordering invariant is preserved by every completed step -/
import WD.Proofs.Observer.OInv
set_option linter.unusedSimpArgs false
set_option linter.unusedVariables false
namespace WD.ProofsObs
open WD WD.Obs

theorem OX.setThreadSame {s : State} {ti : Nat} {t : Thread} (hO : OX s (some ti)) (ht : s.threads[ti]? = some t)
    (t' : Thread) (e1 : t'.iter = t.iter) (e2 : t'.pc = t.pc) (e3 : t'.kind = t.kind) :
    OX (s.setThread ti t') (some ti) := by
  apply hO.setThreadMine
  · have := hO.kd ti t ht
    unfold KD at this ⊢; rw [e1, e2, e3]; exact this
  · have := hO.oi ti t ht
    unfold OI at this ⊢; rw [e1]; exact this

/-- the dispatcher thread's precondition for its loop head -/
def OD (s : State) (ti : Nat) : Prop :=
  oneD s → (OX s (some ti) ∧ ∀ t, s.thread? ti = some t → t.kind = .dispatcher)

theorem OD.map {s s' : State} {ti : Nat} (hC : OD s ti) (hk : KP s s')
    (f : oneD s → OX s (some ti) → (∀ t, s.thread? ti = some t → t.kind = .dispatcher) →
      (OX s' (some ti) ∧ ∀ t, s'.thread? ti = some t → t.kind = .dispatcher)) : OD s' ti :=
  fun hd => f (oneD_of_KP hk hd) (hC (oneD_of_KP hk hd)).1 (hC (oneD_of_KP hk hd)).2

theorem opass_d (ti : Nat) : ∀ fuel,
    (∀ s s', dLoopX fuel s ti = some s' → OD s ti → OC s' none) ∧
    (∀ s s', dGetX fuel s ti = some s' → OD s ti → OC s' none) := by
  intro fuel
  induction fuel with
  | zero =>
    refine ⟨?_, ?_⟩
    · intro s s' h; rw [dLoopX.eq_1] at h; cases h
    · intro s s' h; rw [dGetX.eq_1] at h; cases h
  | succ n ih =>
    refine ⟨?_, ?_⟩
    · intro s s' h hD
      unfold dLoopX at h
      try simp only [] at h
      split at h
      · cases h
        intro hd
        have hk : KP s (s.updThread ti (fun t => { t with pc := .done })) := KP.updThread _ _ _ (fun t => rfl)
        exact (hD (oneD_of_KP hk hd)).1.closeUpd _ (fun t => rfl) (fun t => Or.inl rfl) (fun t => rfl)
      · exact ih.2 _ _ h hD
    · intro s s' h hD
      unfold dGetX at h
      try simp only [] at h
      split at h
      · cases h
        intro hd
        have hk : KP s (s.updThread ti (fun t => { t with pc := .dWait, notified := false })) := KP.updThread _ _ _ (fun t => rfl)
        obtain ⟨hO, hkd⟩ := hD (oneD_of_KP hk hd)
        exact hO.closeWait hkd _ (fun t => rfl) (fun t => rfl) (fun t => rfl)
      · rename_i item rest hq
        split at h
        · refine ih.1 _ _ h (hD.map (KP.of_eq rfl) (fun _ hO hkd => ⟨hO.pop hq _, hkd⟩))
        · cases h
          rename_i u w v
          intro hd
          have hk : KP s (({ s with queue := rest, last := (match s.last with | some l => if (QItem.ev u w v).same l then none else some l | none => none) } : State).updThread ti (fun t => { t with pc := .dLock u w v })) :=
            KP.trans (KP.of_eq (s' := { s with queue := rest, last := _ }) rfl) (KP.updThread _ _ _ (fun t => rfl))
          obtain ⟨hO, hkd⟩ := hD (oneD_of_KP hk hd)
          exact hO.popEv hkd hq _ _ (fun t => rfl) (fun t => rfl) (fun t => rfl)

structure AllO (fuel : Nat) : Prop where
  fin : ∀ s ti res s', finishOpX fuel s ti res = some s' → OC s (some ti) → OC s' none
  nxt : ∀ s ti s', nextOpX fuel s ti = some s' → OC s (some ti) → OC s' none
  sta : ∀ s ti op s', startOpX fuel s ti op = some s' → OC s (some ti) → OC s' none
  ent : ∀ s ti op s', enterLockedX fuel s ti op = some s' → OC s (some ti) → OC s' none
  lck : ∀ s ti op s', lockedX fuel s ti op = some s' → OC s (some ti) → OC s' none
  sfin : ∀ s ti h w e s', schedFinishX fuel s ti h w e = some s' → OC s (some ti) → OC s' none
  ufin : ∀ s ti w s', unschedFinishX fuel s ti w = some s' → OC s (some ti) → OC s' none
  uab : ∀ s ti b s', uallBodyX fuel s ti b = some s' → OC s (some ti) → OC s' none
  uajn : ∀ s ti es b s', uallJoinNextX fuel s ti es b = some s' → OC s (some ti) → OC s' none
  stem : ∀ s ti es s', startEmittersX fuel s ti es = some s' → OC s (some ti) → OC s' none
  cit : ∀ s ti s', continueIterX fuel s ti = some s' → OC s (some ti) → OC s' none

/-- finishing a step by setting a pc other than `dWait`/`dLock` -/
theorem OC.closeUpd {s : State} {ti : Nat} (hC : OC s (some ti)) (f : Thread → Thread)
    (h1 : ∀ t, dpc (f t).pc = false) (h2 : ∀ t, (f t).iter = t.iter ∨ (f t).iter = none)
    (h3 : ∀ t, (f t).kind = t.kind) : OC (s.updThread ti f) none :=
  hC.map (KP.updThread _ _ _ h3) (fun _ hO => hO.closeUpd f h1 h2 h3)

theorem OC.frame {s s' : State} {x : Option Nat} (hC : OC s x) (hh : s'.hist = s.hist) (ht : s'.threads = s.threads)
    (hq : s'.queue = s.queue) (hn : s'.nextUid = s.nextUid) (hH : ∀ w, s'.handlersOf w = s.handlersOf w) :
    OC s' x :=
  hC.map (KP.of_eq ht) (fun _ hO => hO.frame hh ht hq hn hH)

theorem OC.hist_step {s s' : State} {x : Option Nat} {o : Obs} (hC : OC s x) (hh : s'.hist = s.hist ++ [o])
    (ht : s'.threads = s.threads) (hq : s'.queue = s.queue) (hn : s'.nextUid = s.nextUid)
    (hH : HSorted s.handlers → HSorted s'.handlers) (ho : notCall o = true) : OC s' x :=
  hC.map (KP.of_eq ht) (fun _ hO => hO.hist_step hh ht hq hn (hH hO.hsorted) ho)

theorem OC.release {s : State} {x : Option Nat} (hC : OC s x) : OC s.release x :=
  hC.map (KP.of_eq (by simp)) (fun _ hO => hO.release)

theorem OC.updEm {s : State} {x : Option Nat} (hC : OC s x) (e : Eid) (f : EmObj → EmObj) : OC (s.updEm e f) x :=
  hC.map (KP.of_eq (by simp)) (fun _ hO => hO.updEm e f)

theorem OC.foldUpdEm {s : State} {x : Option Nat} (hC : OC s x) (l : List Eid) (f : EmObj → EmObj) :
    OC (l.foldl (fun acc e => acc.updEm e f) s) x := by
  induction l generalizing s with
  | nil => exact hC
  | cons e l ih => exact ih (hC.updEm e f)

theorem OC.spawn {s : State} {x : Option Nat} (hC : OC s x) (b : String) (k : Kind) : OC (s.spawn b k).1 x :=
  hC.map (KP.spawn s b k) (fun _ hO => hO.spawn b k)

theorem OC.log {s : State} {x : Option Nat} (hC : OC s x) (o : Obs) (ho : notCall o = true) : OC (s.log o) x :=
  hC.map (KP.of_eq rfl) (fun _ hO => hO.log o ho)

theorem OC.setThreadSame {s : State} {ti : Nat} {t : Thread} (hC : OC s (some ti)) (ht : s.threads[ti]? = some t)
    (t' : Thread) (e1 : t'.iter = t.iter) (e2 : t'.pc = t.pc) (e3 : t'.kind = t.kind) :
    OC (s.setThread ti t') (some ti) :=
  hC.map (KP.setThread ht t' e3) (fun _ hO => hO.setThreadSame ht t' e1 e2 e3)

theorem OC.closeThread {s : State} {ti : Nat} {t : Thread} (hC : OC s (some ti)) (ht : s.threads[ti]? = some t)
    (t' : Thread) (h1 : dpc t'.pc = false) (h2 : t'.iter = t.iter ∨ t'.iter = none) (h3 : t'.kind = t.kind) :
    OC (s.setThread ti t') none :=
  hC.map (KP.setThread ht t' h3) (fun _ hO => hO.closeThread ht t' h1 h2 h3)

theorem OC.putItem {s : State} {x : Option Nat} (hC : OC s x) (mk : Nat → QItem) (onEnq : Nat → Obs) (onDrop : Obs)
    (h1 : notCall onDrop = true) (h2 : notCall (onEnq s.nextUid) = true)
    (hmk : mk s.nextUid = .stop ∨ ∃ w v, mk s.nextUid = .ev s.nextUid w v) :
    OC (s.putItem mk onEnq onDrop) x :=
  hC.map (KP.putItem s mk onEnq onDrop) (fun _ hO => hO.putItem mk onEnq onDrop h1 h2 hmk)

theorem allO : ∀ fuel, AllO fuel := by
  intro fuel
  induction fuel with
  | zero =>
    constructor <;> intros <;> simp_all [finishOpX.eq_1, nextOpX.eq_1, startOpX.eq_1, enterLockedX.eq_1, lockedX.eq_1,
      schedFinishX.eq_1, unschedFinishX.eq_1, uallBodyX.eq_1, uallJoinNextX.eq_1, startEmittersX.eq_1, continueIterX.eq_1]
  | succ n ih =>
    constructor
    · -- finishOp
      intro s ti res s' h hC
      unfold finishOpX at h
      try simp only [] at h
      split at h
      · cases h
      · rename_i t ht
        refine ih.nxt _ _ _ h ?_
        cases hc : t.cur with
        | none => exact (hC.log (.ret t.label t.idx res) rfl).setThreadSame ht _ rfl rfl rfl
        | some op => exact ((hC.log (.did op res) rfl).log (.ret t.label t.idx res) rfl).setThreadSame ht _ rfl rfl rfl
    · -- nextOp
      intro s ti s' h hC
      unfold nextOpX at h
      try simp only [] at h
      split at h
      · cases h
      · rename_i t ht
        split at h
        · exact ih.sta _ _ _ _ h (hC.setThreadSame ht _ rfl rfl rfl)
        · split at h
          · exact ih.cit _ _ _ h hC
          · cases h
            exact hC.closeThread ht _ rfl (Or.inl rfl) rfl
    · -- startOp
      intro s ti op s' h hC
      unfold startOpX at h
      try simp only [] at h
      split at h
      · split at h
        · exact ih.fin _ _ _ _ h hC
        · exact ih.stem _ _ _ _ h hC
      · split at h
        · exact ih.fin _ _ _ _ h hC
        · split at h
          · exact ih.fin _ _ _ _ h hC
          · cases h
            exact hC.closeUpd _ (fun t => rfl) (fun t => Or.inl rfl) (fun t => rfl)
      · exact ih.ent _ _ _ _ h (hC.frame rfl rfl rfl rfl (fun _ => rfl))
      · split at h
        · cases h
          rename_i t ht
          have hC1 : OC (if s.lockOwner = some ti then ({ s with lockOwner := none, lockCount := 0 } : State) else s) (some ti) := by
            split
            · exact hC.frame rfl rfl rfl rfl (fun _ => rfl)
            · exact hC
          have ht1 : (if s.lockOwner = some ti then ({ s with lockOwner := none, lockCount := 0 } : State) else s).threads[ti]? = some t := by
            split <;> exact ht
          generalize (if s.lockOwner = some ti then ({ s with lockOwner := none, lockCount := 0 } : State) else s) = s1 at hC1 ht1
          exact (hC1.log (.died t.name) rfl).closeThread ht1 _ rfl (Or.inr rfl) rfl
        · cases h
      · exact ih.ent _ _ _ _ h hC
    · -- enterLocked
      intro s ti op s' h hC
      unfold enterLockedX at h
      try simp only [] at h
      split at h
      · exact ih.lck _ _ _ _ h (hC.frame rfl rfl rfl rfl (fun _ => rfl))
      · cases h
        exact hC.closeUpd _ (fun t => rfl) (fun t => Or.inl rfl) (fun t => rfl)
    · -- locked
      intro s ti op s' h hC
      unfold lockedX at h
      try simp only [] at h
      split at h
      · rename_i h0 w fault
        split at h
        · refine ih.fin _ _ _ _ h ?_
          apply OC.release
          exact hC.hist_step (o := .reg h0 w) rfl rfl rfl rfl (fun hs => hs.reg h0 w) rfl
        · split at h
          · exact ih.fin _ _ _ _ h hC.release
          · have hC1 : OC ({ s with emObjs := s.emObjs ++ [({ wid := w, script := (alookup w s.emitScripts).getD [] } : EmObj)] } : State) (some ti) :=
              hC.frame rfl rfl rfl rfl (fun _ => rfl)
            split at h
            · split at h
              · exact ih.fin _ _ _ _ h hC1.release
              · cases h
                exact OC.closeUpd (OC.updEm (hC1.spawn _ _) _ _) _ (fun t => rfl) (fun t => Or.inl rfl) (fun t => rfl)
            · exact ih.sfin _ _ _ _ _ _ h hC1
      · rename_i w
        split at h
        · exact ih.fin _ _ _ _ h hC.release
        · split at h
          · exact ih.fin _ _ _ _ h hC.release
          · rename_i e he hnone
            have hC2 : OC ((({ s with handlers := aerase w s.handlers, regEm := s.regEm.filter (· != e) } : State).log (.unregW w)).updEm e (fun o => { o with stopped := true })) (some ti) :=
              OC.updEm (hC.hist_step (o := .unregW w) (s' := (({ s with handlers := aerase w s.handlers, regEm := s.regEm.filter (· != e) } : State).log (.unregW w))) rfl rfl rfl rfl (fun hs => hs.unregW w) rfl) _ _
            split at h
            · cases h
              exact hC2.closeUpd _ (fun t => rfl) (fun t => Or.inl rfl) (fun t => rfl)
            · exact ih.ufin _ _ _ _ h hC2
      · rename_i h0 w
        refine ih.fin _ _ _ _ h ?_
        apply OC.release
        exact hC.hist_step (o := .reg h0 w) rfl rfl rfl rfl (fun hs => hs.reg h0 w) rfl
      · rename_i h0 w
        split at h
        · refine ih.fin _ _ _ _ h ?_
          apply OC.release
          exact hC.hist_step (o := .unreg h0 w) rfl rfl rfl rfl (fun hs => hs.unreg h0 w) rfl
        · refine ih.fin _ _ _ _ h ?_
          apply OC.release
          exact hC.frame rfl rfl rfl rfl (fun w' => by simp only [handlersOf_eq]; exact hOf_self _ _ _)
      · exact ih.uab _ _ _ _ h hC
      · exact ih.uab _ _ _ _ h hC
      · cases h
    · -- schedFinish
      intro s ti h0 w e s' h hC
      unfold schedFinishX at h
      try simp only [] at h
      refine ih.fin _ _ _ _ h ?_
      apply OC.release
      exact hC.hist_step (o := .reg h0 w) rfl rfl rfl rfl (fun hs => hs.reg h0 w) rfl
    · -- unschedFinish
      intro s ti w s' h hC
      unfold unschedFinishX at h
      try simp only [] at h
      split at h
      · refine ih.fin _ _ _ _ h ?_
        apply OC.release
        exact hC.frame rfl rfl rfl rfl (fun _ => rfl)
      · exact ih.fin _ _ _ _ h hC.release
    · -- uallBody
      intro s ti b s' h hC
      unfold uallBodyX at h
      try simp only [] at h
      refine ih.uajn _ _ _ _ _ h ?_
      apply OC.foldUpdEm
      exact hC.hist_step (o := .unregAll) rfl rfl rfl rfl (fun _ => HSorted.nil) rfl
    · -- uallJoinNext
      intro s ti es b s' h hC
      unfold uallJoinNextX at h
      try simp only [] at h
      split at h
      · split at h
        · cases h
          exact hC.closeUpd _ (fun t => rfl) (fun t => Or.inl rfl) (fun t => rfl)
        · exact ih.uajn _ _ _ _ _ h hC
      · have hC1 : OC ({ s with regEm := [], watches := [] } : State).release (some ti) :=
          OC.release (hC.frame rfl rfl rfl rfl (fun _ => rfl))
        split at h
        · refine ih.fin _ _ _ _ h ?_
          exact hC1.putItem _ _ _ rfl rfl (Or.inl rfl)
        · exact ih.fin _ _ _ _ h hC1
    · -- startEmitters
      intro s ti es s' h hC
      unfold startEmittersX at h
      try simp only [] at h
      split at h
      · split at h
        · cases h
          exact OC.closeUpd (OC.updEm (hC.spawn _ _) _ _) _ (fun t => rfl) (fun t => Or.inl rfl) (fun t => rfl)
        · cases h
      · cases h
        refine OC.closeUpd (s := { (s.spawn "D" .dispatcher).1 with dIdx := some (s.spawn "D" .dispatcher).2 }) ?_ _ (fun t => rfl) (fun t => Or.inl rfl) (fun t => rfl)
        exact (hC.spawn "D" .dispatcher).frame rfl rfl rfl rfl (fun _ => rfl)
    · -- continueIter
      intro s ti s' h hC
      unfold continueIterX at h
      try simp only [] at h
      split at h
      · cases h
      · rename_i t ht
        split at h
        · cases h
        · rename_i u w v hit
          refine (opass_d ti n).1 _ _ h ?_
          have hk : KP s ((s.log (.dispatchEnd u)).setThread ti { t with iter := none }).release :=
            KP.trans (KP.setThread (s := s.log (.dispatchEnd u)) ht { t with iter := none } rfl) (KP.of_eq (s := (s.log (.dispatchEnd u)).setThread ti { t with iter := none }) (release_threads _))
          intro hd
          have hd0 := oneD_of_KP hk hd
          have hO := hC hd0
          have hkt : t.kind = .dispatcher := hO.kd ti t ht (Or.inl (by rw [hit]; rfl))
          refine ⟨?_, ?_⟩
          · apply OX.release
            apply OX.setThreadMine (hO.log _ rfl)
            · intro _; exact hkt
            · intro u' w' v' r e; cases e
          · intro t2 ht2
            rw [release_thread?, setThread_thread?_self _ (by simpa using ht)] at ht2
            cases ht2; exact hkt
        · rename_i u w v h0 rest hit
          have hC0 : OC (if (alookup w s.handlers).isNone then ({ s with handlers := ainsert w [] s.handlers } : State) else s) (some ti) := by
            split
            · rename_i hn
              exact hC.frame rfl rfl rfl rfl (fun w' => by simp only [handlersOf_eq]; exact hOf_touch _ _ _ hn)
            · exact hC
          have ht0 : (if (alookup w s.handlers).isNone then ({ s with handlers := ainsert w [] s.handlers } : State) else s).threads[ti]? = some t := by
            split <;> exact ht
          generalize (if (alookup w s.handlers).isNone then ({ s with handlers := ainsert w [] s.handlers } : State) else s) = s0 at h hC0 ht0
          split at h
          · refine ih.nxt _ _ _ h ?_
            have hC0' : OC ({ s0 with invoc := ainsert h0 ((alookup h0 s0.invoc).getD 0 + 1) s0.invoc } : State) (some ti) :=
              hC0.frame rfl rfl rfl rfl (fun _ => rfl)
            refine hC0'.map (KP.trans (KP.of_eq (s' := State.log _ (.call h0 w v u)) rfl) (KP.setThread (s := State.log _ (.call h0 w v u)) ht0 _ rfl)) ?_
            intro hd hO
            exact hO.call hd ht0 hit _ rfl rfl
          · refine ih.cit _ _ _ h ?_
            refine hC0.map (KP.trans (KP.of_eq (s' := s0.log (.skip h0 u)) rfl) (KP.setThread (s := s0.log (.skip h0 u)) ht0 _ rfl)) ?_
            intro hd hO
            have hO1 := hO.log (.skip h0 u) rfl
            apply hO1.setThreadMine
            · intro _; exact hO.kd ti t ht0 (Or.inl (by rw [hit]; rfl))
            · intro u' w' v' r e
              cases e
              obtain ⟨a1, a2, a3, a4, a5⟩ := hO1.oi ti t ht0 u w v (h0 :: rest) hit
              exact ⟨(List.pairwise_cons.mp a1).2, fun h' hm => a2 h' (List.mem_cons_of_mem _ hm), a3, a4, a5⟩

end WD.ProofsObs
