/- the lock invariant along runs whose steps all complete -/
import WD.Proofs.Observer.LPass
set_option linter.unusedSimpArgs false
set_option linter.unusedVariables false
namespace WD.ProofsObs
open WD WD.Obs

theorem updThread_of_some {s : State} {ti : Nat} {t : Thread} (f : Thread → Thread) (ht : s.thread? ti = some t) :
    s.updThread ti f = s.setThread ti (f t) := by
  have ht' : s.threads[ti]? = some t := ht
  rw [updThread_eq, ht']

theorem LX.closeSame {s : State} {ti d : Nat} {t : Thread} (hL : LX s ti d) (ht : s.thread? ti = some t)
    (hd : depth t = d) (hc : CurOK s.hist t.pc t.cur) : LQ s := by
  have ht' : s.threads[ti]? = some t := ht
  constructor
  · exact hL.good
  · intro j tj hj
    by_cases e : j = ti
    · subst e
      rw [ht'] at hj; cases hj
      refine ⟨fun h => ?_, hc⟩
      rw [hd] at h ⊢
      exact hL.mine.2 h
    · exact hL.others j tj e hj
  · intro j hjo
    by_cases e : j = ti
    · subst e
      refine ⟨t, ht', ?_⟩
      rw [hd]
      cases d with
      | zero => exact absurd hjo (hL.mine.1 rfl)
      | succ n => exact Nat.succ_pos n
    · exact hL.own j e hjo

theorem LQ.take {s : State} (hQ : LQ s) (ti : Nat) (hn : s.lockOwner = none) :
    LX { s with lockOwner := some ti, lockCount := 1 } ti 1 := by
  have idle : ∀ (j : Nat) (t : Thread), s.threads[j]? = some t → depth t = 0 := by
    intro j t hj
    cases hd : depth t with
    | zero => rfl
    | succ n =>
      have := ((hQ.thr j t hj).lock (by omega)).1
      rw [hn] at this; cases this
  constructor
  · exact hQ.good
  · intro j t hj hjt
    have hz := idle j t hjt
    exact ⟨fun h => by omega, (hQ.thr j t hjt).cur⟩
  · exact ⟨fun h => by omega, fun _ => ⟨rfl, rfl⟩⟩
  · intro j hj hjo
    cases hjo; exact absurd rfl hj

theorem LQ.idepth_zero_of_free {s : State} (hQ : LQ s) {ti : Nat} {t : Thread} (ht : s.thread? ti = some t)
    (hn : s.lockOwner = none) : idepth t = 0 := by
  cases hd : idepth t with
  | zero => rfl
  | succ n =>
    have := ((hQ.thr ti t ht).lock (by unfold depth; omega)).1
    rw [hn] at this; cases this

theorem LQ.eLoop {s : State} (hQ : LQ s) {ti : Nat} {t : Thread} (ht : s.thread? ti = some t)
    (hp : holdsPc t.pc = false) (e : Eid) : LQ (eLoop s ti e) := by
  have hL := hQ.open ht
  rw [depth_of_not_holds hp] at hL
  unfold WD.Obs.eLoop
  split
  · exact hQ
  · split
    · exact hL.closeUpd ht _ (by simp [depth, holdsPc, idepth]) (by simp [CurOK])
    · split
      · exact hL.closeUpd ht _ (by simp [depth, holdsPc, idepth]) (by simp [CurOK])
      · exact hL.closeUpd ht _ (by simp [depth, holdsPc, idepth]) (by simp [CurOK])

theorem LQ.stepX {s s' : State} {ti : Nat} (hQ : LQ s) (h : stepX s ti = some s') : LQ s' := by
  have A := allL FUEL
  have D := lpass_d ti FUEL
  unfold WD.ProofsObs.stepX at h
  generalize FUEL = F at A D h
  split at h
  · cases h
  · rename_i hen
    split at h
    · cases h
    · rename_i t ht
      have hT := hQ.thr ti t ht
      have hO := hQ.open ht
      split at h
      · -- begin
        rename_i hpc
        have hp : holdsPc t.pc = false := by rw [hpc]; rfl
        rw [depth_of_not_holds hp] at hO
        split at h
        · exact A.nxt _ _ _ _ h ht hO
        · exact D.1 _ _ _ h ht hO
        · cases h; exact hQ.eLoop ht hp _
      · -- acq
        rename_i op hpc
        have hn : s.lockOwner = none := by
          simp [enabled, ht, hpc] at hen
          cases ho : s.lockOwner <;> simp_all
        have hc : t.cur = some op := by have := hT.cur; rw [hpc] at this; exact this
        have hi := hQ.idepth_zero_of_free ht hn
        refine A.lck _ _ _ _ _ h ht hc ?_
        rw [hi]; exact hQ.take ti hn
      · -- schedStarted
        rename_i h0 w e hpc
        have hp : holdsPc t.pc = true := by rw [hpc]; rfl
        rw [depth_of_holds hp] at hO
        have hc := hT.cur; rw [hpc] at hc
        exact A.sfin _ _ _ _ _ _ _ h ht hc hO
      · -- unschedJoin
        rename_i w e hpc
        have hp : holdsPc t.pc = true := by rw [hpc]; rfl
        rw [depth_of_holds hp] at hO
        have hc := hT.cur; rw [hpc] at hc
        exact A.ufin _ _ _ _ _ h ht hc.1 hc.2 hO
      · -- uallJoin (e :: rest)
        rename_i e rest b hpc
        have hp : holdsPc t.pc = true := by rw [hpc]; rfl
        rw [depth_of_holds hp] at hO
        have hc := hT.cur; rw [hpc] at hc
        exact A.uajn _ _ _ _ _ _ h ht hc.1 hc.2 hO
      · -- uallJoin []
        rename_i b hpc
        have hp : holdsPc t.pc = true := by rw [hpc]; rfl
        rw [depth_of_holds hp] at hO
        have hc := hT.cur; rw [hpc] at hc
        exact A.uajn _ _ _ _ _ _ h ht hc.1 hc.2 hO
      · -- startEm
        rename_i es hpc
        have hp : holdsPc t.pc = false := by rw [hpc]; rfl
        rw [depth_of_not_holds hp] at hO
        have hc := hT.cur; rw [hpc] at hc
        exact A.stem _ _ _ _ _ h ht hc hO
      · -- startD
        rename_i hpc
        have hp : holdsPc t.pc = false := by rw [hpc]; rfl
        rw [depth_of_not_holds hp] at hO
        have hc := hT.cur; rw [hpc] at hc
        refine A.fin _ _ _ _ _ h ht hO ?_
        intro _ op' hc' h' w' hr
        have hc2 : t.cur = some Op.start := hc
        rw [hc2] at hc'; cases hc'; simp [removes] at hr
      · -- joinD
        rename_i hpc
        have hp : holdsPc t.pc = false := by rw [hpc]; rfl
        rw [depth_of_not_holds hp] at hO
        have hc := hT.cur; rw [hpc] at hc
        refine A.fin _ _ _ _ _ h ht hO ?_
        intro _ op' hc' h' w' hr
        have hc2 : t.cur = some Op.join := hc
        rw [hc2] at hc'; cases hc'; simp [removes] at hr
      · -- dWait
        rename_i hpc
        have hp : holdsPc t.pc = false := by rw [hpc]; rfl
        rw [depth_of_not_holds hp] at hO
        have ht2 := updThread_thread? (s := s) ti (fun t => { t with notified := false }) ht
        simp only [if_true] at ht2
        exact D.2 _ _ _ h ht2 (hO.updThread_same ti _ (fun t => ⟨rfl, rfl, rfl⟩))
      · -- dLock
        rename_i u w v hpc
        have hn : s.lockOwner = none := by
          simp [enabled, ht, hpc] at hen
          cases ho : s.lockOwner <;> simp_all
        try simp only [] at h
        have hL2 : LX (if (alookup w s.handlers).isNone then ({ s with lockOwner := some ti, lockCount := 1, handlers := ainsert w [] s.handlers } : State) else { s with lockOwner := some ti, lockCount := 1 }) ti 1 := by
          split
          · exact (hQ.take ti hn).frame rfl rfl rfl rfl
          · exact hQ.take ti hn
        have ht2 : (if (alookup w s.handlers).isNone then ({ s with lockOwner := some ti, lockCount := 1, handlers := ainsert w [] s.handlers } : State) else { s with lockOwner := some ti, lockCount := 1 }).thread? ti = some t := by
          split <;> exact ht
        generalize (if (alookup w s.handlers).isNone then ({ s with lockOwner := some ti, lockCount := 1, handlers := ainsert w [] s.handlers } : State) else { s with lockOwner := some ti, lockCount := 1 }) = s2 at h hL2 ht2
        have ht3 : (s2.log (.dispatch u w (s2.handlersOf w))).thread? ti = some t := by rw [log_thread?]; exact ht2
        rw [updThread_of_some _ ht3] at h
        refine A.cit _ _ _ _ h (setThread_thread?_self _ ht3) ?_
        exact (hL2.log (.dispatch u w (s2.handlersOf w)) trivial (Or.inl rfl)).setThreadMine _
      · -- eEmit
        rename_i hpc
        have hp : holdsPc t.pc = false := by rw [hpc]; rfl
        split at h
        · split at h
          · split at h
            · cases h
              rename_i _ e _ _ o _ _ v rest _
              have ht1 : (s.updEm e (fun o => { o with script := rest })).thread? ti = some t := by rw [updEm_thread?]; exact ht
              obtain ⟨t', ht', e1, e2, e3, e4⟩ := putItem_thread? (fun u => QItem.ev u o.wid v) (fun u => Obs.enq o.wid v u) (Obs.drop o.wid v) ht1
              rw [depth_of_not_holds hp] at hO
              have hL1 := (hO.updEm e (fun o => { o with script := rest })).putItem (fun u => QItem.ev u o.wid v) (fun u => Obs.enq o.wid v u) (Obs.drop o.wid v) rfl rfl trivial trivial
              have hQ1 : LQ ((s.updEm e (fun o => { o with script := rest })).putItem (fun u => QItem.ev u o.wid v) (fun u => Obs.enq o.wid v u) (Obs.drop o.wid v)) := by
                refine hL1.closeSame ht' ?_ ?_
                · rw [depth_of_not_holds (by rw [e1]; exact hp)]; simp [idepth, e2]
                · rw [e1, e3]
                  exact hT.cur.of_not_holds hp
              exact hQ1.eLoop ht' (by rw [e1]; exact hp) _
            · cases h; exact hQ.eLoop ht hp _
          · cases h
        · cases h
      · -- eWait
        rename_i hpc
        have hp : holdsPc t.pc = false := by rw [hpc]; rfl
        split at h
        · cases h; exact hQ.eLoop ht hp _
        · cases h
      · cases h

theorem LQ.init (clients : List (List Op)) (cbs : List (Hid × List (List Op))) (emit : List (Wid × List Nat)) :
    LQ (init clients cbs emit) := by
  constructor
  · exact Good.nil _
  · intro j t hj
    simp only [WD.Obs.init, List.getElem?_map] at hj
    cases hz : (clients.zipIdx)[j]? with
    | none => simp [hz] at hj
    | some x =>
      simp [hz] at hj
      subst hj
      refine ⟨fun h => ?_, ?_⟩
      · simp [depth, idepth, holdsPc] at h
      · simp [CurOK]
  · intro j hj; simp [WD.Obs.init] at hj

/-- a generic induction along schedules whose steps all complete -/
theorem run_induction {P : State → Prop} (hstep : ∀ s s' ti, P s → stepX s ti = some s' → P s') :
    ∀ (sched : List Nat) (s : State), P s → runOk s sched = true → P (run s sched) := by
  intro sched
  induction sched with
  | nil => intro s h _; exact h
  | cons ti sched ih =>
    intro s hP hok
    simp only [WD.Obs.run, List.foldl_cons]
    unfold runOk at hok
    cases hs : WD.Obs.step s ti with
    | none =>
      simp only [hs] at hok
      exact ih s hP hok
    | some s1 =>
      simp only [hs, Bool.and_eq_true] at hok
      obtain ⟨h1, h2⟩ := hok
      cases hx : stepX s ti with
      | none => simp [hx] at h1
      | some s2 =>
        have := stepX_eq hx
        rw [hs] at this; cases this
        exact ih s1 (hstep s s1 ti hP hx) h2

theorem lq_reach (clients : List (List Op)) (cbs : List (Hid × List (List Op))) (emit : List (Wid × List Nat))
    (sched : List Nat) (hok : runOk (init clients cbs emit) sched = true) : LQ (run (init clients cbs emit) sched) :=
  run_induction (fun s s' ti hP h => LQ.stepX hP h) sched _ (LQ.init clients cbs emit) hok

end WD.ProofsObs
