/-
  An instrumented copy of the mutual block of WD.Model.Observer: identical code (all calls in the
  model are tail calls), but it returns `none` when the `fuel` runs out or when one of the model's
  "impossible" branches (missing thread, missing emitter object, an API call that never takes the
  lock reaching `locked`, a dispatcher without an iteration in `continueIter`) is taken, i.e.
  whenever the model would silently stop in the middle of a step and leave the thread's `pc` stale.
  `runOk` says that this never happens along a schedule.
-/
import WD.Proofs.Observer.Inv1
namespace WD.ProofsObs
open WD WD.Obs

mutual
def finishOpX (fuel : Nat) (s : State) (ti : Nat) (res : String) : Option State :=
  match fuel with
  | 0 => none
  | fuel + 1 =>
    match s.thread? ti with
    | none => none
    | some t =>
      let s0 := match t.cur with | some op => s.log (.did op res) | none => s
      let s1 := (s0.log (.ret t.label t.idx res)).setThread ti { t with idx := t.idx + 1, cur := none }
      nextOpX fuel s1 ti

def nextOpX (fuel : Nat) (s : State) (ti : Nat) : Option State :=
  match fuel with
  | 0 => none
  | fuel + 1 =>
    match s.thread? ti with
    | none => none
    | some t =>
      match t.ops with
      | op :: rest => startOpX fuel (s.setThread ti { t with ops := rest, cur := some op }) ti op
      | [] =>
        match t.kind with
        | .dispatcher => continueIterX fuel s ti
        | _ => some (s.setThread ti { t with pc := .done })

def startOpX (fuel : Nat) (s : State) (ti : Nat) (op : Op) : Option State :=
  match fuel with
  | 0 => none
  | fuel + 1 =>
    match op with
    | .start => if s.dIdx.isSome then finishOpX fuel s ti "raised:RuntimeError" else startEmittersX fuel s ti s.regEm
    | .join =>
      match s.dIdx with
      | none => finishOpX fuel s ti "raised:RuntimeError"
      | some d => if d = ti then finishOpX fuel s ti "raised:RuntimeError"
                  else some (s.updThread ti (fun t => { t with pc := .joinD }))
    | .stop =>
      let s1 := { s with stoppedD := true }
      enterLockedX fuel s1 ti .stop
    | .raiseExc =>
      match s.thread? ti with
      | some t =>
        let s1 := if s.lockOwner = some ti then { s with lockOwner := none, lockCount := 0 } else s
        some ((s1.log (.died t.name)).setThread ti { t with pc := .done, ops := [], iter := none })
      | none => none
    | op => enterLockedX fuel s ti op

def enterLockedX (fuel : Nat) (s : State) (ti : Nat) (op : Op) : Option State :=
  match fuel with
  | 0 => none
  | fuel + 1 =>
    if s.lockOwner = some ti then lockedX fuel { s with lockCount := s.lockCount + 1 } ti op
    else some (s.updThread ti (fun t => { t with pc := .acq op }))

def lockedX (fuel : Nat) (s : State) (ti : Nat) (op : Op) : Option State :=
  match fuel with
  | 0 => none
  | fuel + 1 =>
    match op with
    | .schedule h w fault =>
      match s.emitterOf w with
      | some _ =>
        let s1 := ({ s with handlers := ainsert w (insertSorted h (s.handlersOf w)) s.handlers,
                            watches := insertSorted w s.watches } : State).log (.reg h w)
        finishOpX fuel s1.release ti "ok"
      | none =>
        if fault = 1 then finishOpX fuel s.release ti "raised:ctor"
        else
          let e := s.emObjs.length
          let script := (alookup w s.emitScripts).getD []
          let s1 : State := { s with emObjs := s.emObjs ++ [({ wid := w, script := script } : EmObj)] }
          if s1.observerAlive && !s1.stoppedD then
            if fault = 2 then finishOpX fuel s1.release ti "raised:start"
            else
              let (s2, ei) := s1.spawn ("E" ++ toString w) (.emitter e)
              let s3 := s2.updEm e (fun o => { o with started := true, tidx := some ei })
              some (s3.updThread ti (fun t => { t with pc := .schedStarted h w e }))
          else schedFinishX fuel s1 ti h w e
    | .unschedule w =>
      match s.emitterOf w with
      | none => finishOpX fuel s.release ti "raised:KeyError"
      | some e =>
        if (alookup w s.handlers).isNone then finishOpX fuel s.release ti "raised:KeyError"
        else
          let s1 := ({ s with handlers := aerase w s.handlers, regEm := s.regEm.filter (· != e) } : State).log (.unregW w)
          let s2 := s1.updEm e (fun o => { o with stopped := true })
          match (s2.em? e).bind (·.tidx) with
          | some _ => some (s2.updThread ti (fun t => { t with pc := .unschedJoin w e }))
          | none => unschedFinishX fuel s2 ti w
    | .addHandler h w =>
      finishOpX fuel (({ s with handlers := ainsert w (insertSorted h (s.handlersOf w)) s.handlers } : State).log (.reg h w)).release ti "ok"
    | .removeHandler h w =>
      if (s.handlersOf w).contains h then
        finishOpX fuel (({ s with handlers := ainsert w ((s.handlersOf w).filter (· != h)) s.handlers } : State).log (.unreg h w)).release ti "ok"
      else finishOpX fuel ({ s with handlers := ainsert w (s.handlersOf w) s.handlers } : State).release ti "raised:KeyError"
    | .unscheduleAll => uallBodyX fuel s ti false
    | .stop => uallBodyX fuel s ti true
    | _ => none

def schedFinishX (fuel : Nat) (s : State) (ti : Nat) (h : Hid) (w : Wid) (e : Eid) : Option State :=
  match fuel with
  | 0 => none
  | fuel + 1 =>
    let reg := (s.regEm ++ [e])
    let sorted := reg.mergeSort (fun a b =>
      ((s.em? a).map (·.wid)).getD 0 ≤ ((s.em? b).map (·.wid)).getD 0)
    let s1 := ({ s with regEm := sorted,
                        handlers := ainsert w (insertSorted h (s.handlersOf w)) s.handlers,
                        watches := insertSorted w s.watches } : State).log (.reg h w)
    finishOpX fuel s1.release ti "ok"

def unschedFinishX (fuel : Nat) (s : State) (ti : Nat) (w : Wid) : Option State :=
  match fuel with
  | 0 => none
  | fuel + 1 =>
    if s.watches.contains w then finishOpX fuel ({ s with watches := s.watches.filter (· != w) } : State).release ti "ok"
    else finishOpX fuel s.release ti "raised:KeyError"

def uallBodyX (fuel : Nat) (s : State) (ti : Nat) (forStop : Bool) : Option State :=
  match fuel with
  | 0 => none
  | fuel + 1 =>
    let s1 := ({ s with handlers := [] } : State).log .unregAll
    let s2 := s1.regEm.foldl (fun acc e => acc.updEm e (fun o => { o with stopped := true })) s1
    uallJoinNextX fuel s2 ti s2.regEm forStop

def uallJoinNextX (fuel : Nat) (s : State) (ti : Nat) (es : List Eid) (forStop : Bool) : Option State :=
  match fuel with
  | 0 => none
  | fuel + 1 =>
    match es with
    | e :: rest =>
      if ((s.em? e).bind (·.tidx)).isSome then some (s.updThread ti (fun t => { t with pc := .uallJoin (e :: rest) forStop }))
      else uallJoinNextX fuel s ti rest forStop
    | [] =>
      let s1 := ({ s with regEm := [], watches := [] } : State).release
      if forStop then
        finishOpX fuel (s1.putItem (fun _ => .stop) (fun _ => .enqStop) .dropStop) ti "ok"
      else finishOpX fuel s1 ti "ok"

def startEmittersX (fuel : Nat) (s : State) (ti : Nat) (es : List Eid) : Option State :=
  match fuel with
  | 0 => none
  | fuel + 1 =>
    match es with
    | e :: rest =>
      match s.em? e with
      | some o =>
        let (s1, ei) := s.spawn ("E" ++ toString o.wid) (.emitter e)
        let s2 := s1.updEm e (fun o => { o with started := true, tidx := some ei })
        some (s2.updThread ti (fun t => { t with pc := .startEm rest }))
      | none => none
    | [] =>
      let (s1, d) := s.spawn "D" .dispatcher
      let s2 := { s1 with dIdx := some d }
      some (s2.updThread ti (fun t => { t with pc := .startD }))

def dLoopX (fuel : Nat) (s : State) (ti : Nat) : Option State :=
  match fuel with
  | 0 => none
  | fuel + 1 =>
    if s.stoppedD then some (s.updThread ti (fun t => { t with pc := .done }))
    else dGetX fuel s ti

def dGetX (fuel : Nat) (s : State) (ti : Nat) : Option State :=
  match fuel with
  | 0 => none
  | fuel + 1 =>
      match s.queue with
      | [] => some (s.updThread ti (fun t => { t with pc := .dWait, notified := false }))
      | item :: rest =>
        let last' := match s.last with
          | some l => if item.same l then none else some l
          | none => none
        let s1 := { s with queue := rest, last := last' }
        match item with
        | .stop => dLoopX fuel s1 ti
        | .ev u w v => some (s1.updThread ti (fun t => { t with pc := .dLock u w v }))

def continueIterX (fuel : Nat) (s : State) (ti : Nat) : Option State :=
  match fuel with
  | 0 => none
  | fuel + 1 =>
    match s.thread? ti with
    | none => none
    | some t =>
      match t.iter with
      | none => none
      | some (u, _w, _v, []) =>
        let s1 := ((s.log (.dispatchEnd u)).setThread ti { t with iter := none }).release
        dLoopX fuel s1 ti
      | some (u, w, v, h :: rest) =>
        let s0 := if (alookup w s.handlers).isNone then { s with handlers := ainsert w [] s.handlers } else s
        if (s0.handlersOf w).contains h then
          let k := (alookup h s0.invoc).getD 0
          let script := (((alookup h s0.callbacks).getD []))[k]?.getD []
          let s1 := (({ s0 with invoc := ainsert h (k + 1) s0.invoc } : State).log (.call h w v u))
          let s2 := s1.setThread ti { t with iter := some (u, w, v, rest), ops := script, idx := 0,
                                             label := "cb" ++ toString h ++ "." ++ toString k }
          nextOpX fuel s2 ti
        else continueIterX fuel ((s0.log (.skip h u)).setThread ti { t with iter := some (u, w, v, rest) }) ti
end

/-- `step`, with the instrumented functions (`none`: not enabled, or the step does not complete) -/
def stepX (s : State) (ti : Nat) : Option State :=
  if !enabled s ti then none else
  match s.thread? ti with
  | none => none
  | some t =>
    match t.pc with
    | .begin =>
      match t.kind with
      | .client => nextOpX FUEL s ti
      | .dispatcher => dLoopX FUEL s ti
      | .emitter e => some (eLoop s ti e)
    | .acq op => lockedX FUEL { s with lockOwner := some ti, lockCount := 1 } ti op
    | .schedStarted h w e => schedFinishX FUEL s ti h w e
    | .unschedJoin w _ => unschedFinishX FUEL s ti w
    | .uallJoin (_ :: rest) forStop => uallJoinNextX FUEL s ti rest forStop
    | .uallJoin [] forStop => uallJoinNextX FUEL s ti [] forStop
    | .startEm es => startEmittersX FUEL s ti es
    | .startD => finishOpX FUEL s ti "ok"
    | .joinD => finishOpX FUEL s ti "ok"
    | .dWait => dGetX FUEL (s.updThread ti (fun t => { t with notified := false })) ti
    | .dLock u w v =>
      let s1 := { s with lockOwner := some ti, lockCount := 1 }
      let s2 := if (alookup w s1.handlers).isNone then { s1 with handlers := ainsert w [] s1.handlers } else s1
      let s3 := (s2.log (.dispatch u w (s2.handlersOf w))).updThread ti (fun t => { t with iter := some (u, w, v, s2.handlersOf w) })
      continueIterX FUEL s3 ti
    | .eEmit =>
      match t.kind with
      | .emitter e =>
        match s.em? e with
        | some o =>
          match o.script with
          | v :: rest =>
            let s1 := s.updEm e (fun o => { o with script := rest })
            let s2 := s1.putItem (fun u => .ev u o.wid v) (fun u => .enq o.wid v u) (.drop o.wid v)
            some (eLoop s2 ti e)
          | [] => some (eLoop s ti e)
        | none => none
      | _ => none
    | .eWait =>
      match t.kind with
      | .emitter e => some (eLoop s ti e)
      | _ => none
    | .done => none

/-- along `sched`, every step that is taken completes (no fuel exhaustion, no impossible branch) -/
def runOk (s : State) : List Nat → Bool
  | [] => true
  | ti :: rest =>
    match step s ti with
    | none => runOk s rest
    | some s' => (stepX s ti).isSome && runOk s' rest

end WD.ProofsObs
