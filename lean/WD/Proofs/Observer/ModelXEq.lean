/- the instrumented functions agree with the model's whenever they return a state -/
import WD.Proofs.Observer.ModelX
set_option linter.unusedVariables false
namespace WD.ProofsObs
open WD WD.Obs

set_option hygiene false in
macro "eqx" : tactic => `(tactic| (
  try simp only [] at h ⊢
  repeat' (split at h <;> try simp only [*, ↓reduceIte, Bool.false_eq_true, Bool.true_eq_false] at h ⊢)
  ))

theorem eqX_d (ti : Nat) : ∀ fuel,
    (∀ s s', dLoopX fuel s ti = some s' → dLoop fuel s ti = s') ∧
    (∀ s s', dGetX fuel s ti = some s' → dGet fuel s ti = s') := by
  intro fuel
  induction fuel with
  | zero =>
    refine ⟨?_, ?_⟩
    · intro s s' h; rw [dLoopX.eq_1] at h; cases h
    · intro s s' h; rw [dGetX.eq_1] at h; cases h
  | succ n ih =>
    refine ⟨fun s s' h => ?_, fun s s' h => ?_⟩
    · unfold dLoopX at h; unfold dLoop
      eqx
      all_goals first | (cases h; done) | (cases h; rfl) | exact ih.2 _ _ h
    · unfold dGetX at h; unfold dGet
      eqx
      all_goals first | (cases h; done) | (cases h; rfl) | exact ih.1 _ _ h

structure AllEq (fuel : Nat) : Prop where
  fin : ∀ s ti res s', finishOpX fuel s ti res = some s' → finishOp fuel s ti res = s'
  nxt : ∀ s ti s', nextOpX fuel s ti = some s' → nextOp fuel s ti = s'
  sta : ∀ s ti op s', startOpX fuel s ti op = some s' → startOp fuel s ti op = s'
  ent : ∀ s ti op s', enterLockedX fuel s ti op = some s' → enterLocked fuel s ti op = s'
  lck : ∀ s ti op s', lockedX fuel s ti op = some s' → locked fuel s ti op = s'
  sfin : ∀ s ti h w e s', schedFinishX fuel s ti h w e = some s' → schedFinish fuel s ti h w e = s'
  ufin : ∀ s ti w s', unschedFinishX fuel s ti w = some s' → unschedFinish fuel s ti w = s'
  uab : ∀ s ti b s', uallBodyX fuel s ti b = some s' → uallBody fuel s ti b = s'
  uajn : ∀ s ti es b s', uallJoinNextX fuel s ti es b = some s' → uallJoinNext fuel s ti es b = s'
  stem : ∀ s ti es s', startEmittersX fuel s ti es = some s' → startEmitters fuel s ti es = s'
  cit : ∀ s ti s', continueIterX fuel s ti = some s' → continueIter fuel s ti = s'

set_option hygiene false in
macro "eqx_close" : tactic => `(tactic| (
  all_goals first | exact ih.fin _ _ _ _ h | exact ih.nxt _ _ _ h | exact ih.sta _ _ _ _ h | exact ih.ent _ _ _ _ h | exact ih.lck _ _ _ _ h | exact ih.sfin _ _ _ _ _ _ h | exact ih.ufin _ _ _ _ h | exact ih.uab _ _ _ _ h | exact ih.uajn _ _ _ _ _ h | exact ih.stem _ _ _ _ h | exact ih.cit _ _ _ h | exact (eqX_d _ _).1 _ _ h | (cases h; done) | (cases h; rfl) | (cases h; simp [*]; done)))

theorem allEq : ∀ fuel, AllEq fuel := by
  intro fuel
  induction fuel with
  | zero =>
    constructor <;> intros <;> rename_i h <;> first
      | (rw [finishOpX.eq_1] at h; cases h) | (rw [nextOpX.eq_1] at h; cases h) | (rw [startOpX.eq_1] at h; cases h)
      | (rw [enterLockedX.eq_1] at h; cases h) | (rw [lockedX.eq_1] at h; cases h) | (rw [schedFinishX.eq_1] at h; cases h)
      | (rw [unschedFinishX.eq_1] at h; cases h) | (rw [uallBodyX.eq_1] at h; cases h) | (rw [uallJoinNextX.eq_1] at h; cases h)
      | (rw [startEmittersX.eq_1] at h; cases h) | (rw [continueIterX.eq_1] at h; cases h)
  | succ n ih =>
    constructor
    · intro s ti res s' h
      unfold finishOpX at h; unfold finishOp
      eqx; eqx_close
    · intro s ti s' h
      unfold nextOpX at h; unfold nextOp
      eqx; eqx_close
    · intro s ti op s' h
      unfold startOpX at h; unfold startOp
      eqx; eqx_close
    · intro s ti op s' h
      unfold enterLockedX at h; unfold enterLocked
      eqx; eqx_close
    · intro s ti op s' h
      unfold lockedX at h; unfold locked
      eqx; eqx_close
    · intro s ti h0 w e s' h
      unfold schedFinishX at h; unfold schedFinish
      eqx; eqx_close
    · intro s ti w s' h
      unfold unschedFinishX at h; unfold unschedFinish
      eqx; eqx_close
    · intro s ti b s' h
      unfold uallBodyX at h; unfold uallBody
      eqx; eqx_close
    · intro s ti es b s' h
      unfold uallJoinNextX at h; unfold uallJoinNext
      eqx; eqx_close
    · intro s ti es s' h
      unfold startEmittersX at h; unfold startEmitters
      eqx; eqx_close
    · intro s ti s' h
      unfold continueIterX at h; unfold continueIter
      eqx; eqx_close

theorem stepX_eq {s s' : State} {ti : Nat} (h : stepX s ti = some s') : step s ti = some s' := by
  have A := allEq FUEL
  unfold stepX at h; unfold step
  generalize FUEL = F at A h ⊢
  eqx
  all_goals first | (rw [A.fin _ _ _ _ h]) | (rw [A.nxt _ _ _ h]) | (rw [A.lck _ _ _ _ h]) | (rw [A.sfin _ _ _ _ _ _ h]) | (rw [A.ufin _ _ _ _ h]) | (rw [A.uajn _ _ _ _ _ h]) | (rw [A.stem _ _ _ _ h]) | (rw [A.cit _ _ _ h]) | (rw [(eqX_d _ _).1 _ _ h]) | (rw [(eqX_d _ _).2 _ _ h]) | (cases h; done) | (cases h; rfl)

end WD.ProofsObs
