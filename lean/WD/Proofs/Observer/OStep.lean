/- the ordering invariant along runs whose steps all complete -/
import WD.Proofs.Observer.OPass
set_option linter.unusedSimpArgs false
set_option linter.unusedVariables false
namespace WD.ProofsObs
open WD WD.Obs

theorem OC.weaken {s : State} (hC : OC s none) (ti : Nat) : OC s (some ti) :=
  hC.map (KP.refl s) (fun _ hO => hO.weaken ti)

theorem OC.eLoop {s : State} (hC : OC s none) (ti : Nat) (e : Eid) : OC (eLoop s ti e) none := by
  unfold WD.Obs.eLoop
  split
  · exact hC
  · split
    · exact (hC.weaken ti).closeUpd _ (fun t => rfl) (fun t => Or.inl rfl) (fun t => rfl)
    · split
      · exact (hC.weaken ti).closeUpd _ (fun t => rfl) (fun t => Or.inl rfl) (fun t => rfl)
      · exact (hC.weaken ti).closeUpd _ (fun t => rfl) (fun t => Or.inl rfl) (fun t => rfl)

theorem OC.stepX {s s' : State} {ti : Nat} (hC : OC s none) (h : stepX s ti = some s') : OC s' none := by
  have A := allO FUEL
  have D := opass_d ti FUEL
  have hW := hC.weaken ti
  unfold WD.ProofsObs.stepX at h
  generalize FUEL = F at A D h
  split at h
  · cases h
  · split at h
    · cases h
    · rename_i t ht
      split at h
      · split at h
        · exact A.nxt _ _ _ h hW
        · rename_i hk
          refine D.1 _ _ h ?_
          intro hd
          refine ⟨hW hd, ?_⟩
          intro t2 ht2; rw [ht] at ht2; cases ht2; exact hk
        · cases h; exact hC.eLoop _ _
      · exact A.lck _ _ _ _ h (hW.frame rfl rfl rfl rfl (fun _ => rfl))
      · exact A.sfin _ _ _ _ _ _ h hW
      · exact A.ufin _ _ _ _ h hW
      · exact A.uajn _ _ _ _ _ h hW
      · exact A.uajn _ _ _ _ _ h hW
      · exact A.stem _ _ _ _ h hW
      · exact A.fin _ _ _ _ h hW
      · exact A.fin _ _ _ _ h hW
      · rename_i hpc
        refine D.2 _ _ h ?_
        have hk : KP s (s.updThread ti (fun t => { t with notified := false })) := KP.updThread _ _ _ (fun t => rfl)
        intro hd
        have hO := hW (oneD_of_KP hk hd)
        refine ⟨hO.updThread_same ti _ (fun t => ⟨rfl, rfl, rfl⟩), ?_⟩
        intro t2 ht2
        rw [updThread_thread? _ _ ht] at ht2
        simp only [if_true] at ht2
        cases ht2
        exact hO.kd ti t ht (Or.inr (by rw [hpc]; rfl))
      · rename_i u w v hpc
        try simp only [] at h
        have hC2 : OC (if (alookup w s.handlers).isNone then ({ s with lockOwner := some ti, lockCount := 1, handlers := ainsert w [] s.handlers } : State) else { s with lockOwner := some ti, lockCount := 1 }) none := by
          split
          · rename_i hn
            exact hC.frame rfl rfl rfl rfl (fun w' => by simp only [handlersOf_eq]; exact hOf_touch _ _ _ hn)
          · exact hC.frame rfl rfl rfl rfl (fun _ => rfl)
        have ht2 : (if (alookup w s.handlers).isNone then ({ s with lockOwner := some ti, lockCount := 1, handlers := ainsert w [] s.handlers } : State) else { s with lockOwner := some ti, lockCount := 1 }).thread? ti = some t := by
          split <;> exact ht
        generalize (if (alookup w s.handlers).isNone then ({ s with lockOwner := some ti, lockCount := 1, handlers := ainsert w [] s.handlers } : State) else { s with lockOwner := some ti, lockCount := 1 }) = s2 at h hC2 ht2
        have ht3 : (s2.log (.dispatch u w (s2.handlersOf w))).thread? ti = some t := by rw [log_thread?]; exact ht2
        rw [updThread_of_some _ ht3] at h
        refine A.cit _ _ _ h ?_
        refine hC2.map (KP.trans (KP.of_eq (s' := s2.log (.dispatch u w (s2.handlersOf w))) rfl) (KP.setThread (s := s2.log (.dispatch u w (s2.handlersOf w))) ht2 _ rfl)) ?_
        intro _ hO
        exact hO.dispatch ht2 hpc _ rfl rfl
      · split at h
        · split at h
          · split at h
            · cases h
              apply OC.eLoop
              apply (hC.updEm _ _).putItem _ _ _ rfl rfl
              exact Or.inr ⟨_, _, rfl⟩
            · cases h; exact hC.eLoop _ _
          · cases h
        · cases h
      · split at h
        · cases h; exact hC.eLoop _ _
        · cases h
      · cases h

theorem OX.init (clients : List (List Op)) (cbs : List (Hid × List (List Op))) (emit : List (Wid × List Nat)) :
    OX (init clients cbs emit) none := by
  have key : ∀ (j : Nat) (t : Thread), (WD.Obs.init clients cbs emit).threads[j]? = some t → t.pc = .begin ∧ t.iter = none := by
    intro j t hj
    simp only [WD.Obs.init, List.getElem?_map] at hj
    cases hz : (clients.zipIdx)[j]? with
    | none => simp [hz] at hj
    | some x => simp [hz] at hj; subst hj; exact ⟨rfl, rfl⟩
  constructor
  · exact Good.nil _
  · intro j t hj hh
    rw [(key j t hj).1, (key j t hj).2] at hh; simp [dpc] at hh
  · intro j t hj u w v r e
    rw [(key j t hj).2] at e; cases e
  · intro j t _ hj u w v e
    rw [(key j t hj).1] at e; cases e
  · intro h w v u hm; simp [WD.Obs.init] at hm
  · intro w; simp [WD.Obs.init, State.handlersOf]
  · simp [WD.Obs.init, quids]
  · intro u hu; simp [WD.Obs.init, quids] at hu

theorem oc_reach (clients : List (List Op)) (cbs : List (Hid × List (List Op))) (emit : List (Wid × List Nat))
    (sched : List Nat) (hok : runOk (init clients cbs emit) sched = true) :
    OC (run (init clients cbs emit) sched) none :=
  run_induction (fun s s' ti hP h => OC.stepX hP h) sched _ (fun _ => OX.init clients cbs emit) hok

theorem goodO_call_pairwise {hist : List Obs} (hg : Good GoodAtO hist) (h : Hid) :
    (callUids h hist).Pairwise (· < ·) := by
  induction hist using snoc_induction with
  | nil => simp [callUids]
  | snoc l a ih =>
    have hl : Good GoodAtO l := fun p o q e => hg p o (q ++ [a]) (by rw [e]; simp)
    rw [callUids_append, List.pairwise_append]
    refine ⟨ih hl, ?_, ?_⟩
    · cases a <;> simp [callUids]
      rename_i h' w v u
      by_cases e : h' = h <;> simp [e]
    · intro x hx y hy
      have ha := hg l a [] rfl
      cases a <;> simp [callUids] at hy
      rename_i h' w v u
      by_cases e : h' = h
      · subst e; simp at hy; subst hy
        exact ha x hx
      · simp [e] at hy

theorem two_le_filter {α : Type} (p : α → Bool) : ∀ (l : List α) (i j : Nat) (a b : α), i < j →
    l[i]? = some a → l[j]? = some b → p a = true → p b = true → 2 ≤ (l.filter p).length := by
  intro l
  induction l with
  | nil => intro i j a b _ h; simp at h
  | cons x xs ih =>
    intro i j a b hij ha hb pa pb
    cases j with
    | zero => omega
    | succ j =>
      simp only [List.getElem?_cons_succ] at hb
      cases i with
      | zero =>
        simp only [List.getElem?_cons_zero, Option.some.injEq] at ha
        subst ha
        have hm : b ∈ xs.filter p := List.mem_filter.mpr ⟨List.mem_of_getElem? hb, pb⟩
        have := List.length_pos_of_mem hm
        simp only [List.filter_cons, pa, if_true, List.length_cons]
        omega
      | succ i =>
        simp only [List.getElem?_cons_succ] at ha
        have := ih i j a b (by omega) ha hb pa pb
        simp only [List.filter_cons]
        split <;> simp <;> omega

/-- an executable sufficient condition for `oneD` -/
theorem oneD_of_count {s : State} (h : (s.threads.filter (fun t => t.kind == .dispatcher)).length ≤ 1) : oneD s := by
  intro i j hi hj
  simp only [kinds, List.getElem?_map] at hi hj
  cases ha : s.threads[i]? with
  | none => simp [ha] at hi
  | some a =>
    cases hb : s.threads[j]? with
    | none => simp [hb] at hj
    | some b =>
      simp [ha] at hi; simp [hb] at hj
      rcases Nat.lt_trichotomy i j with hlt | heq | hgt
      · have := two_le_filter (fun t => t.kind == .dispatcher) s.threads i j a b hlt ha hb (by simp [hi]) (by simp [hj])
        omega
      · exact heq
      · have := two_le_filter (fun t => t.kind == .dispatcher) s.threads j i b a hgt hb ha (by simp [hj]) (by simp [hi])
        omega

end WD.ProofsObs
