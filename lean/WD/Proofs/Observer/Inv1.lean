/- the unconditional invariant: holds in every state of every run (even after fuel exhaustion) -/
import WD.Proofs.Observer.Basic
set_option linter.unusedSimpArgs false
set_option linter.unusedVariables false
namespace WD.ProofsObs
open WD WD.Obs

/-! ### projections of the elementary state updates -/

@[simp] theorem log_hist (s : State) (o : Obs) : (s.log o).hist = s.hist ++ [o] := rfl
@[simp] theorem log_threads (s : State) (o : Obs) : (s.log o).threads = s.threads := rfl
@[simp] theorem log_handlers (s : State) (o : Obs) : (s.log o).handlers = s.handlers := rfl
@[simp] theorem log_queue (s : State) (o : Obs) : (s.log o).queue = s.queue := rfl
@[simp] theorem log_nextUid (s : State) (o : Obs) : (s.log o).nextUid = s.nextUid := rfl
@[simp] theorem log_lockOwner (s : State) (o : Obs) : (s.log o).lockOwner = s.lockOwner := rfl
@[simp] theorem log_lockCount (s : State) (o : Obs) : (s.log o).lockCount = s.lockCount := rfl
@[simp] theorem log_thread? (s : State) (o : Obs) (j : Nat) : (s.log o).thread? j = s.thread? j := rfl
@[simp] theorem log_handlersOf (s : State) (o : Obs) (w : Wid) : (s.log o).handlersOf w = s.handlersOf w := rfl

@[simp] theorem setThread_hist (s : State) (j : Nat) (t : Thread) : (s.setThread j t).hist = s.hist := rfl
@[simp] theorem setThread_threads (s : State) (j : Nat) (t : Thread) : (s.setThread j t).threads = s.threads.set j t := rfl
@[simp] theorem setThread_handlers (s : State) (j : Nat) (t : Thread) : (s.setThread j t).handlers = s.handlers := rfl
@[simp] theorem setThread_queue (s : State) (j : Nat) (t : Thread) : (s.setThread j t).queue = s.queue := rfl
@[simp] theorem setThread_nextUid (s : State) (j : Nat) (t : Thread) : (s.setThread j t).nextUid = s.nextUid := rfl
@[simp] theorem setThread_lockOwner (s : State) (j : Nat) (t : Thread) : (s.setThread j t).lockOwner = s.lockOwner := rfl
@[simp] theorem setThread_lockCount (s : State) (j : Nat) (t : Thread) : (s.setThread j t).lockCount = s.lockCount := rfl
@[simp] theorem setThread_handlersOf (s : State) (j : Nat) (t : Thread) (w : Wid) :
    (s.setThread j t).handlersOf w = s.handlersOf w := rfl

theorem updThread_eq (s : State) (j : Nat) (f : Thread → Thread) :
    s.updThread j f = match s.threads[j]? with | some t => s.setThread j (f t) | none => s := rfl

@[simp] theorem updThread_hist (s : State) (j : Nat) (f : Thread → Thread) : (s.updThread j f).hist = s.hist := by
  rw [updThread_eq]; split <;> rfl
@[simp] theorem updThread_handlers (s : State) (j : Nat) (f : Thread → Thread) : (s.updThread j f).handlers = s.handlers := by
  rw [updThread_eq]; split <;> rfl
@[simp] theorem updThread_queue (s : State) (j : Nat) (f : Thread → Thread) : (s.updThread j f).queue = s.queue := by
  rw [updThread_eq]; split <;> rfl
@[simp] theorem updThread_nextUid (s : State) (j : Nat) (f : Thread → Thread) : (s.updThread j f).nextUid = s.nextUid := by
  rw [updThread_eq]; split <;> rfl
@[simp] theorem updThread_lockOwner (s : State) (j : Nat) (f : Thread → Thread) : (s.updThread j f).lockOwner = s.lockOwner := by
  rw [updThread_eq]; split <;> rfl
@[simp] theorem updThread_lockCount (s : State) (j : Nat) (f : Thread → Thread) : (s.updThread j f).lockCount = s.lockCount := by
  rw [updThread_eq]; split <;> rfl
@[simp] theorem updThread_handlersOf (s : State) (j : Nat) (f : Thread → Thread) (w : Wid) :
    (s.updThread j f).handlersOf w = s.handlersOf w := by
  rw [updThread_eq]; split <;> rfl

theorem updEm_eq (s : State) (e : Eid) (f : EmObj → EmObj) :
    s.updEm e f = match s.emObjs[e]? with | some o => { s with emObjs := s.emObjs.set e (f o) } | none => s := rfl

@[simp] theorem updEm_hist (s : State) (e : Eid) (f : EmObj → EmObj) : (s.updEm e f).hist = s.hist := by
  rw [updEm_eq]; split <;> rfl
@[simp] theorem updEm_threads (s : State) (e : Eid) (f : EmObj → EmObj) : (s.updEm e f).threads = s.threads := by
  rw [updEm_eq]; split <;> rfl
@[simp] theorem updEm_handlers (s : State) (e : Eid) (f : EmObj → EmObj) : (s.updEm e f).handlers = s.handlers := by
  rw [updEm_eq]; split <;> rfl
@[simp] theorem updEm_queue (s : State) (e : Eid) (f : EmObj → EmObj) : (s.updEm e f).queue = s.queue := by
  rw [updEm_eq]; split <;> rfl
@[simp] theorem updEm_nextUid (s : State) (e : Eid) (f : EmObj → EmObj) : (s.updEm e f).nextUid = s.nextUid := by
  rw [updEm_eq]; split <;> rfl
@[simp] theorem updEm_lockOwner (s : State) (e : Eid) (f : EmObj → EmObj) : (s.updEm e f).lockOwner = s.lockOwner := by
  rw [updEm_eq]; split <;> rfl
@[simp] theorem updEm_lockCount (s : State) (e : Eid) (f : EmObj → EmObj) : (s.updEm e f).lockCount = s.lockCount := by
  rw [updEm_eq]; split <;> rfl
@[simp] theorem updEm_thread? (s : State) (e : Eid) (f : EmObj → EmObj) (j : Nat) : (s.updEm e f).thread? j = s.thread? j := by
  rw [updEm_eq]; split <;> rfl
@[simp] theorem updEm_handlersOf (s : State) (e : Eid) (f : EmObj → EmObj) (w : Wid) :
    (s.updEm e f).handlersOf w = s.handlersOf w := by
  rw [updEm_eq]; split <;> rfl

@[simp] theorem release_hist (s : State) : s.release.hist = s.hist := by unfold State.release; split <;> rfl
@[simp] theorem release_threads (s : State) : s.release.threads = s.threads := by unfold State.release; split <;> rfl
@[simp] theorem release_handlers (s : State) : s.release.handlers = s.handlers := by unfold State.release; split <;> rfl
@[simp] theorem release_queue (s : State) : s.release.queue = s.queue := by unfold State.release; split <;> rfl
@[simp] theorem release_nextUid (s : State) : s.release.nextUid = s.nextUid := by unfold State.release; split <;> rfl
@[simp] theorem release_thread? (s : State) (j : Nat) : s.release.thread? j = s.thread? j := by
  unfold State.release; split <;> rfl
@[simp] theorem release_handlersOf (s : State) (w : Wid) : s.release.handlersOf w = s.handlersOf w := by
  unfold State.release; split <;> rfl

@[simp] theorem spawn_hist (s : State) (b : String) (k : Kind) : (s.spawn b k).1.hist = s.hist := rfl
@[simp] theorem spawn_handlers (s : State) (b : String) (k : Kind) : (s.spawn b k).1.handlers = s.handlers := rfl
@[simp] theorem spawn_queue (s : State) (b : String) (k : Kind) : (s.spawn b k).1.queue = s.queue := rfl
@[simp] theorem spawn_nextUid (s : State) (b : String) (k : Kind) : (s.spawn b k).1.nextUid = s.nextUid := rfl
@[simp] theorem spawn_lockOwner (s : State) (b : String) (k : Kind) : (s.spawn b k).1.lockOwner = s.lockOwner := rfl
@[simp] theorem spawn_lockCount (s : State) (b : String) (k : Kind) : (s.spawn b k).1.lockCount = s.lockCount := rfl
@[simp] theorem spawn_handlersOf (s : State) (b : String) (k : Kind) (w : Wid) :
    (s.spawn b k).1.handlersOf w = s.handlersOf w := rfl
theorem spawn_threads (s : State) (b : String) (k : Kind) :
    ∃ nm, (s.spawn b k).1.threads = s.threads ++ [{ name := nm, kind := k, pc := .begin }] := ⟨_, rfl⟩
@[simp] theorem spawn_snd (s : State) (b : String) (k : Kind) : (s.spawn b k).2 = s.threads.length := rfl

/-! ### `putItem` case analysis -/

def notif (t : Thread) : Thread := if t.pc == .dWait then { t with notified := true } else t

def putBase (s : State) (item : QItem) (o : Obs) : State :=
  ({ s with queue := s.queue ++ [item], last := some item, nextUid := s.nextUid + 1 } : State).log o

theorem putItem_cases (s : State) (mk : Nat → QItem) (onEnq : Nat → Obs) (onDrop : Obs) :
    s.putItem mk onEnq onDrop = s.log onDrop ∨
    s.putItem mk onEnq onDrop = putBase s (mk s.nextUid) (onEnq s.nextUid) ∨
    ∃ d, s.putItem mk onEnq onDrop = (putBase s (mk s.nextUid) (onEnq s.nextUid)).updThread d notif := by
  unfold State.putItem
  try simp only []
  split
  · split
    · exact Or.inl rfl
    · split
      · exact Or.inr (Or.inr ⟨_, rfl⟩)
      · exact Or.inr (Or.inl rfl)
  · split
    · exact Or.inr (Or.inr ⟨_, rfl⟩)
    · exact Or.inr (Or.inl rfl)

/-! ### the invariant -/

def quids (q : List QItem) : List Nat := q.filterMap (fun i => match i with | .ev u _ _ => some u | .stop => none)

theorem mem_quids {q : List QItem} {u : Nat} : u ∈ quids q ↔ ∃ w v, QItem.ev u w v ∈ q := by
  simp only [quids, List.mem_filterMap]
  constructor
  · rintro ⟨i, hi, h⟩
    cases i <;> simp at h
    subst h; exact ⟨_, _, hi⟩
  · rintro ⟨w, v, h⟩; exact ⟨_, h, rfl⟩

def GoodAt1 (p : List Obs) : Obs → Prop
  | .call h w v u => registered p h w = true ∧ Obs.enq w v u ∈ p
  | .skip h u => ∃ w hs, Obs.dispatch u w hs ∈ p ∧ registered p h w = false
  | .dispatch _ w hs => ∀ h, h ∈ hs ↔ registered p h w = true
  | .enq _ _ u => ∀ u' ∈ enqUids p, u' < u
  | _ => True

/-- per-thread facts that are monotone in the history -/
def TOK1 (hist : List Obs) (t : Thread) : Prop :=
  (∀ u w v, t.pc = .dLock u w v → Obs.enq w v u ∈ hist) ∧
  (∀ u w v rest, t.iter = some (u, w, v, rest) → Obs.enq w v u ∈ hist ∧ ∃ hs, Obs.dispatch u w hs ∈ hist)

theorem TOK1.mono {hist : List Obs} {t : Thread} (h : TOK1 hist t) (l : List Obs) : TOK1 (hist ++ l) t := by
  refine ⟨fun u w v e => List.mem_append_left _ (h.1 u w v e), fun u w v rest e => ?_⟩
  obtain ⟨h1, hs, h2⟩ := h.2 u w v rest e
  exact ⟨List.mem_append_left _ h1, hs, List.mem_append_left _ h2⟩

theorem TOK1.of_eq {hist : List Obs} {t t' : Thread} (h : TOK1 hist t) (hpc : t'.pc = t.pc) (hit : t'.iter = t.iter) :
    TOK1 hist t' := by
  unfold TOK1; rw [hpc, hit]; exact h

theorem TOK1.of_pc {hist : List Obs} {t t' : Thread} (h : TOK1 hist t) (hpc : ∀ u w v, t'.pc ≠ .dLock u w v)
    (hit : t'.iter = t.iter ∨ t'.iter = none) : TOK1 hist t' := by
  refine ⟨fun u w v e => absurd e (hpc u w v), fun u w v rest e => ?_⟩
  rcases hit with hit | hit
  · rw [hit] at e; exact h.2 u w v rest e
  · rw [hit] at e; cases e

theorem TOK1.iter_none {hist : List Obs} {t t' : Thread} (h : TOK1 hist t) (hpc : t'.pc = t.pc)
    (hit : t'.iter = none) : TOK1 hist t' := by
  refine ⟨fun u w v e => h.1 u w v (hpc ▸ e), fun u w v rest e => ?_⟩
  rw [hit] at e; cases e

theorem TOK1.iter_some {hist : List Obs} {t t' : Thread} (h : TOK1 hist t) (hpc : t'.pc = t.pc)
    {u : Nat} {w : Wid} {v : Nat} {l l' : List Hid} (h1 : t.iter = some (u, w, v, l))
    (h2 : t'.iter = some (u, w, v, l')) : TOK1 hist t' := by
  refine ⟨fun u w v e => h.1 u w v (hpc ▸ e), fun u' w' v' rest e => ?_⟩
  rw [h2] at e; cases e
  exact h.2 _ _ _ _ h1

structure Inv1 (s : State) : Prop where
  good : Good GoodAt1 s.hist
  reg : ∀ h w, h ∈ s.handlersOf w ↔ registered s.hist h w = true
  queue : ∀ u w v, QItem.ev u w v ∈ s.queue → Obs.enq w v u ∈ s.hist
  next : ∀ u ∈ enqUids s.hist, u < s.nextUid
  qsorted : (quids s.queue).Pairwise (· < ·)
  qnext : ∀ u ∈ quids s.queue, u < s.nextUid
  thr : ∀ (j : Nat) (t : Thread), s.threads[j]? = some t → TOK1 s.hist t

theorem Inv1.frame {s s' : State} (hI : Inv1 s) (hh : s'.hist = s.hist)
    (hH : ∀ w, s'.handlersOf w = s.handlersOf w) (hq : s'.queue = s.queue) (hn : s'.nextUid = s.nextUid)
    (ht : s'.threads = s.threads) : Inv1 s' := by
  constructor
  · rw [hh]; exact hI.good
  · intro h w; rw [hH, hh]; exact hI.reg h w
  · rw [hq, hh]; exact hI.queue
  · rw [hh, hn]; exact hI.next
  · rw [hq]; exact hI.qsorted
  · rw [hq, hn]; exact hI.qnext
  · rw [ht, hh]; exact hI.thr

/-- one more observation, anything but an `enq` -/
theorem Inv1.hist_step {s s' : State} {o : Obs} (hI : Inv1 s) (hh : s'.hist = s.hist ++ [o]) (hg : GoodAt1 s.hist o)
    (hH : ∀ h w, h ∈ s'.handlersOf w ↔ regStep h w (registered s.hist h w) o = true)
    (hq : s'.queue = s.queue) (hn : s'.nextUid = s.nextUid) (he : enqUids [o] = [])
    (ht : s'.threads = s.threads) : Inv1 s' := by
  constructor
  · rw [hh]; exact hI.good.snoc hg
  · intro h w; rw [hh, registered_snoc]; exact hH h w
  · rw [hq, hh]; intro u w v hm; exact List.mem_append_left _ (hI.queue u w v hm)
  · rw [hh, hn, enqUids_append, he]; simpa using hI.next
  · rw [hq]; exact hI.qsorted
  · rw [hq, hn]; exact hI.qnext
  · rw [ht, hh]; intro j t hj; exact (hI.thr j t hj).mono _

theorem Inv1.logN {s : State} {o : Obs} (hI : Inv1 s) (hr : regGhost o = false) (he : enqUids [o] = [])
    (hg : GoodAt1 s.hist o) : Inv1 (s.log o) := by
  refine hI.hist_step (o := o) rfl hg ?_ rfl rfl he rfl
  intro h w
  rw [regStep_neutral hr]
  exact hI.reg h w

theorem Inv1.setThread {s : State} (hI : Inv1 s) (j : Nat) (t' : Thread) (ht : TOK1 s.hist t') :
    Inv1 (s.setThread j t') := by
  constructor
  · exact hI.good
  · exact hI.reg
  · exact hI.queue
  · exact hI.next
  · exact hI.qsorted
  · exact hI.qnext
  · intro k t hk
    simp only [setThread_threads, List.getElem?_set] at hk
    split at hk
    · split at hk
      · cases hk; exact ht
      · cases hk
    · exact hI.thr k t hk

theorem Inv1.updThread {s : State} (hI : Inv1 s) (j : Nat) (f : Thread → Thread)
    (hf : ∀ t, s.threads[j]? = some t → TOK1 s.hist t → TOK1 s.hist (f t)) : Inv1 (s.updThread j f) := by
  rw [updThread_eq]
  split
  · rename_i t ht
    exact hI.setThread j _ (hf t ht (hI.thr j t ht))
  · exact hI

theorem Inv1.thread? {s : State} (hI : Inv1 s) {j : Nat} {t : Thread} (h : s.thread? j = some t) : TOK1 s.hist t :=
  hI.thr j t h

theorem Inv1.release {s : State} (hI : Inv1 s) : Inv1 s.release :=
  hI.frame (by simp) (by simp) (by simp) (by simp) (by simp)

theorem Inv1.updEm {s : State} (hI : Inv1 s) (e : Eid) (f : EmObj → EmObj) : Inv1 (s.updEm e f) :=
  hI.frame (by simp) (by simp) (by simp) (by simp) (by simp)

theorem Inv1.spawn {s : State} (hI : Inv1 s) (b : String) (k : Kind) : Inv1 (s.spawn b k).1 := by
  obtain ⟨nm, hnm⟩ := spawn_threads s b k
  constructor
  · exact hI.good
  · exact hI.reg
  · exact hI.queue
  · exact hI.next
  · exact hI.qsorted
  · exact hI.qnext
  · intro j t hj
    rw [hnm, List.getElem?_append] at hj
    split at hj
    · exact hI.thr j t (by simpa using hj)
    · rw [List.getElem?_singleton] at hj
      split at hj
      · cases hj
        refine ⟨?_, ?_⟩
        · intro u w v e; cases e
        · intro u w v rest e; cases e
      · cases hj

theorem TOK1_notif {hist : List Obs} {t : Thread} (h : TOK1 hist t) : TOK1 hist (notif t) := by
  unfold notif; split
  · exact h.of_eq rfl rfl
  · exact h

theorem Inv1.putItem {s : State} (hI : Inv1 s) (mk : Nat → QItem) (onEnq : Nat → Obs) (onDrop : Obs)
    (hd : regGhost onDrop = false) (hde : enqUids [onDrop] = []) (hdg : GoodAt1 s.hist onDrop)
    (hr : regGhost (onEnq s.nextUid) = false)
    (hcase : (mk s.nextUid = .stop ∧ enqUids [onEnq s.nextUid] = [] ∧ GoodAt1 s.hist (onEnq s.nextUid)) ∨
       (∃ w v, mk s.nextUid = .ev s.nextUid w v ∧ onEnq s.nextUid = .enq w v s.nextUid)) :
    Inv1 (s.putItem mk onEnq onDrop) := by
  have hb : Inv1 (putBase s (mk s.nextUid) (onEnq s.nextUid)) := by
    unfold putBase
    constructor
    · apply hI.good.snoc
      rcases hcase with ⟨_, _, h⟩ | ⟨w, v, _, h⟩
      · exact h
      · rw [h]; exact hI.next
    · intro h w
      simp only [log_hist, registered_snoc, regStep_neutral hr]
      exact hI.reg h w
    · intro u w v hm
      simp only [log_queue, List.mem_append, List.mem_singleton] at hm
      simp only [log_hist]
      rcases hm with hm | hm
      · exact List.mem_append_left _ (hI.queue u w v hm)
      · rcases hcase with ⟨h, _, _⟩ | ⟨w', v', h1, h2⟩
        · rw [h] at hm; cases hm
        · rw [h1] at hm; cases hm; rw [h2]; simp
    · intro u hu
      simp only [log_hist, enqUids_append, List.mem_append, log_nextUid] at hu ⊢
      rcases hu with hu | hu
      · exact Nat.lt_succ_of_lt (hI.next u hu)
      · rcases hcase with ⟨_, h, _⟩ | ⟨w', v', _, h2⟩
        · rw [h] at hu; cases hu
        · rw [h2] at hu; simp [enqUids] at hu; subst hu; exact Nat.lt_succ_self _
    · simp only [log_queue, quids, List.filterMap_append]
      rw [List.pairwise_append]
      refine ⟨hI.qsorted, ?_, ?_⟩
      · rcases hcase with ⟨h, _, _⟩ | ⟨w', v', h1, _⟩
        · rw [h]; simp
        · rw [h1]; simp
      · intro a ha b hb
        have ha' := hI.qnext a ha
        rcases hcase with ⟨h, _, _⟩ | ⟨w', v', h1, _⟩
        · rw [h] at hb; simp at hb
        · rw [h1] at hb; simp at hb; subst hb; exact ha'
    · intro u hu
      simp only [log_queue, quids, List.filterMap_append, List.mem_append, log_nextUid] at hu ⊢
      rcases hu with hu | hu
      · exact Nat.lt_succ_of_lt (hI.qnext u hu)
      · rcases hcase with ⟨h, _, _⟩ | ⟨w', v', h1, _⟩
        · rw [h] at hu; simp at hu
        · rw [h1] at hu; simp at hu; subst hu; exact Nat.lt_succ_self _
    · intro j t hj
      exact (hI.thr j t hj).mono _
  rcases putItem_cases s mk onEnq onDrop with h | h | ⟨d, h⟩
  · rw [h]; exact hI.logN hd hde hdg
  · rw [h]; exact hb
  · rw [h]; exact hb.updThread d notif (fun t _ ht => TOK1_notif ht)

theorem Inv1.pop {s : State} (hI : Inv1 s) {item : QItem} {rest : List QItem} (hq : s.queue = item :: rest)
    (l : Option QItem) : Inv1 { s with queue := rest, last := l } := by
  constructor
  · exact hI.good
  · exact hI.reg
  · intro u w v hm; exact hI.queue u w v (by rw [hq]; exact List.mem_cons_of_mem _ hm)
  · exact hI.next
  · have := hI.qsorted
    rw [hq] at this
    cases item with
    | stop => simpa [quids] using this
    | ev u w v => simp only [quids, List.filterMap_cons] at this; exact (List.pairwise_cons.mp this).2
  · intro u hu
    apply hI.qnext u
    rw [hq]
    obtain ⟨w, v, hm⟩ := mem_quids.mp hu
    exact mem_quids.mpr ⟨w, v, List.mem_cons_of_mem _ hm⟩
  · exact hI.thr

/-- `updThread` with a function that keeps `iter` and sets a pc other than `dLock` -/
theorem Inv1.updPc {s : State} (hI : Inv1 s) (j : Nat) (f : Thread → Thread)
    (h1 : ∀ t u w v, (f t).pc ≠ .dLock u w v) (h2 : ∀ t, (f t).iter = t.iter) : Inv1 (s.updThread j f) :=
  hI.updThread j f (fun t _ ht => ht.of_pc (h1 t) (Or.inl (h2 t)))

macro "updpc" : tactic =>
  `(tactic| (apply Inv1.updPc <;> first | assumption | (intro t u w v h; cases h) | (intro t; rfl)))

theorem Inv1.eLoop {s : State} (hI : Inv1 s) (ti : Nat) (e : Eid) : Inv1 (eLoop s ti e) := by
  unfold WD.Obs.eLoop
  split
  · exact hI
  · split
    · updpc
    · split <;> updpc

theorem inv1_dLoop_dGet (ti : Nat) : ∀ fuel,
    (∀ s, Inv1 s → Inv1 (dLoop fuel s ti)) ∧ (∀ s, Inv1 s → Inv1 (dGet fuel s ti)) := by
  intro fuel
  induction fuel with
  | zero => exact ⟨fun s h => by rw [dLoop.eq_1]; exact h, fun s h => by rw [dGet.eq_1]; exact h⟩
  | succ n ih =>
    refine ⟨fun s hI => ?_, fun s hI => ?_⟩
    · rw [dLoop.eq_2]
      split
      · updpc
      · exact ih.2 s hI
    · rw [dGet.eq_2]
      split
      · updpc
      · rename_i item rest hq
        try simp only []
        split
        · exact ih.1 _ (hI.pop hq _)
        · rename_i u w v
          apply (hI.pop hq _).updThread
          intro t _ ht
          refine ⟨?_, ht.2⟩
          intro u' w' v' e
          cases e
          exact hI.queue u w v (by rw [hq]; simp)

theorem Inv1.dLoop {s : State} (hI : Inv1 s) (fuel ti : Nat) : Inv1 (dLoop fuel s ti) :=
  (inv1_dLoop_dGet ti fuel).1 s hI
theorem Inv1.dGet {s : State} (hI : Inv1 s) (fuel ti : Nat) : Inv1 (dGet fuel s ti) :=
  (inv1_dLoop_dGet ti fuel).2 s hI

/-! ### handler-table updates together with their ghosts -/

theorem Inv1.regH {s s' : State} (hI : Inv1 s) (h : Hid) (w : Wid) (hh : s'.hist = s.hist ++ [.reg h w])
    (hH : s'.handlers = ainsert w (insertSorted h (s.handlersOf w)) s.handlers)
    (hq : s'.queue = s.queue) (hn : s'.nextUid = s.nextUid) (ht : s'.threads = s.threads) : Inv1 s' := by
  refine hI.hist_step hh trivial ?_ hq hn rfl ht
  intro h' w'
  rw [handlersOf_eq, hH, hOf_ainsert]
  simp only [regStep]
  have := hI.reg h' w'
  rw [handlersOf_eq] at this
  by_cases hw : w' = w
  · subst hw
    by_cases hh' : h' = h
    · subst hh'; simp [mem_insertSorted]
    · have : ¬ h = h' := fun e => hh' e.symm
      simp [mem_insertSorted, hh', this, handlersOf_eq, *]
  · have : ¬ w = w' := fun e => hw e.symm
    simp [hw, this, *]

theorem Inv1.unregH {s s' : State} (hI : Inv1 s) (h : Hid) (w : Wid) (hh : s'.hist = s.hist ++ [.unreg h w])
    (hH : s'.handlers = ainsert w ((s.handlersOf w).filter (· != h)) s.handlers)
    (hq : s'.queue = s.queue) (hn : s'.nextUid = s.nextUid) (ht : s'.threads = s.threads) : Inv1 s' := by
  refine hI.hist_step hh trivial ?_ hq hn rfl ht
  intro h' w'
  rw [handlersOf_eq, hH, hOf_ainsert]
  simp only [regStep]
  have := hI.reg h' w'
  rw [handlersOf_eq] at this
  by_cases hw : w' = w
  · subst hw
    by_cases hh' : h' = h
    · subst hh'; simp
    · have : ¬ h = h' := fun e => hh' e.symm
      simp [hh', this, handlersOf_eq, *]
  · have : ¬ w = w' := fun e => hw e.symm
    simp [hw, this, *]

theorem Inv1.unregWH {s s' : State} (hI : Inv1 s) (w : Wid) (hh : s'.hist = s.hist ++ [.unregW w])
    (hH : s'.handlers = aerase w s.handlers)
    (hq : s'.queue = s.queue) (hn : s'.nextUid = s.nextUid) (ht : s'.threads = s.threads) : Inv1 s' := by
  refine hI.hist_step hh trivial ?_ hq hn rfl ht
  intro h' w'
  rw [handlersOf_eq, hH, hOf_aerase]
  simp only [regStep]
  have := hI.reg h' w'
  rw [handlersOf_eq] at this
  by_cases hw : w' = w
  · subst hw; simp
  · have : ¬ w = w' := fun e => hw e.symm
    simp [hw, this, *]

theorem Inv1.unregAllH {s s' : State} (hI : Inv1 s) (hh : s'.hist = s.hist ++ [.unregAll])
    (hH : s'.handlers = [])
    (hq : s'.queue = s.queue) (hn : s'.nextUid = s.nextUid) (ht : s'.threads = s.threads) : Inv1 s' := by
  refine hI.hist_step hh trivial ?_ hq hn rfl ht
  intro h' w'
  rw [handlersOf_eq, hH]
  simp [regStep]

theorem Inv1.touch {s : State} (hI : Inv1 s) (w : Wid) :
    Inv1 (if (alookup w s.handlers).isNone then { s with handlers := ainsert w [] s.handlers } else s) := by
  split
  · rename_i h
    exact hI.frame rfl (fun w' => by simp only [handlersOf_eq]; exact hOf_touch _ _ _ h) rfl rfl rfl
  · exact hI

theorem Inv1.foldUpdEm {s : State} (hI : Inv1 s) (l : List Eid) (f : EmObj → EmObj) :
    Inv1 (l.foldl (fun acc e => acc.updEm e f) s) := by
  induction l generalizing s with
  | nil => exact hI
  | cons e l ih => exact ih (hI.updEm e f)

/-! ### the big mutual block -/

structure AllInv1 (fuel : Nat) : Prop where
  fin : ∀ s ti res, Inv1 s → Inv1 (finishOp fuel s ti res)
  nxt : ∀ s ti, Inv1 s → Inv1 (nextOp fuel s ti)
  sta : ∀ s ti op, Inv1 s → Inv1 (startOp fuel s ti op)
  ent : ∀ s ti op, Inv1 s → Inv1 (enterLocked fuel s ti op)
  lck : ∀ s ti op, Inv1 s → Inv1 (locked fuel s ti op)
  sfin : ∀ s ti h w e, Inv1 s → Inv1 (schedFinish fuel s ti h w e)
  ufin : ∀ s ti w, Inv1 s → Inv1 (unschedFinish fuel s ti w)
  uab : ∀ s ti b, Inv1 s → Inv1 (uallBody fuel s ti b)
  uajn : ∀ s ti es b, Inv1 s → Inv1 (uallJoinNext fuel s ti es b)
  stem : ∀ s ti es, Inv1 s → Inv1 (startEmitters fuel s ti es)
  cit : ∀ s ti, Inv1 s → Inv1 (continueIter fuel s ti)

theorem Inv1.lockFields {s : State} (hI : Inv1 s) (o : Option Nat) (c : Nat) :
    Inv1 { s with lockOwner := o, lockCount := c } := hI.frame rfl (fun _ => rfl) rfl rfl rfl

theorem allInv1 : ∀ fuel, AllInv1 fuel := by
  intro fuel
  induction fuel with
  | zero =>
    constructor <;> intros <;> first
      | (rw [finishOp.eq_1]; assumption) | (rw [nextOp.eq_1]; assumption) | (rw [startOp.eq_1]; assumption)
      | (rw [enterLocked.eq_1]; assumption) | (rw [locked.eq_1]; assumption) | (rw [schedFinish.eq_1]; assumption)
      | (rw [unschedFinish.eq_1]; assumption) | (rw [uallBody.eq_1]; assumption) | (rw [uallJoinNext.eq_1]; assumption)
      | (rw [startEmitters.eq_1]; assumption) | (rw [continueIter.eq_1]; assumption)
  | succ n ih =>
    constructor
    · -- finishOp
      intro s ti res hI
      unfold finishOp
      try simp only []
      split
      · exact hI
      · rename_i t ht
        try simp only []
        apply ih.nxt
        split
        · rename_i op _
          apply Inv1.setThread
          · exact (hI.logN rfl rfl (by trivial)).logN rfl rfl (by trivial)
          · have := (hI.thread? ht).mono ([.did op res] ++ [.ret t.label t.idx res])
            simp only [log_hist, List.append_assoc]
            exact this.of_eq rfl rfl
        · apply Inv1.setThread
          · exact hI.logN rfl rfl (by trivial)
          · have := (hI.thread? ht).mono [.ret t.label t.idx res]
            exact this.of_eq rfl rfl
    · -- nextOp
      intro s ti hI
      unfold nextOp
      try simp only []
      split
      · exact hI
      · rename_i t ht
        split
        · apply ih.sta
          exact hI.setThread _ _ ((hI.thread? ht).of_eq rfl rfl)
        · split
          · exact ih.cit _ _ hI
          · exact hI.setThread _ _ ((hI.thread? ht).of_pc (by intro u w v h; cases h) (Or.inl rfl))
    · -- startOp
      intro s ti op hI
      unfold startOp
      try simp only []
      split
      · split
        · exact ih.fin _ _ _ hI
        · exact ih.stem _ _ _ hI
      · split
        · exact ih.fin _ _ _ hI
        · split
          · exact ih.fin _ _ _ hI
          · updpc
      · exact ih.ent _ _ _ (hI.frame rfl (fun _ => rfl) rfl rfl rfl)
      · split
        · rename_i t ht
          apply Inv1.setThread
          · apply Inv1.logN _ rfl rfl (by trivial)
            split
            · exact hI.lockFields _ _
            · exact hI
          · have := (hI.thread? ht).mono [.died t.name]
            have h2 : (if s.lockOwner = some ti then ({ s with lockOwner := none, lockCount := 0 } : State) else s).hist = s.hist := by
              split <;> rfl
            simp only [log_hist, h2]
            exact this.of_pc (by intro u w v h; cases h) (Or.inr rfl)
        · exact hI
      · exact ih.ent _ _ _ hI
    · -- enterLocked
      intro s ti op hI
      unfold enterLocked
      try simp only []
      split
      · exact ih.lck _ _ _ (hI.frame rfl (fun _ => rfl) rfl rfl rfl)
      · updpc
    · -- locked
      intro s ti op hI
      unfold locked
      try simp only []
      split
      · -- schedule
        rename_i h w fault
        split
        · try simp only []
          apply ih.fin
          apply Inv1.release
          exact hI.regH h w rfl rfl rfl rfl rfl
        · split
          · exact ih.fin _ _ _ hI.release
          · try simp only []
            have hI1 : Inv1 ({ s with emObjs := s.emObjs ++ [({ wid := w, script := (alookup w s.emitScripts).getD [] } : EmObj)] } : State) :=
              hI.frame rfl (fun _ => rfl) rfl rfl rfl
            split
            · split
              · exact ih.fin _ _ _ hI1.release
              · apply Inv1.updPc
                · exact (hI1.spawn _ _).updEm _ _
                · intro t u w v h; cases h
                · intro t; rfl
            · exact ih.sfin _ _ _ _ _ hI1
      · -- unschedule
        rename_i w
        split
        · exact ih.fin _ _ _ hI.release
        · split
          · exact ih.fin _ _ _ hI.release
          · try simp only []
            rename_i e he hnone
            have hI1 : Inv1 ((({ s with handlers := aerase w s.handlers, regEm := s.regEm.filter (· != e) } : State).log (.unregW w)).updEm e (fun o => { o with stopped := true })) :=
              Inv1.updEm (Inv1.unregWH (s' := (({ s with handlers := aerase w s.handlers, regEm := s.regEm.filter (· != e) } : State).log (.unregW w))) hI w rfl rfl rfl rfl rfl) _ _
            split
            · apply Inv1.updPc
              · exact hI1
              · intro t u w v h; cases h
              · intro t; rfl
            · exact ih.ufin _ _ _ hI1
      · -- addHandler
        rename_i h w
        apply ih.fin
        apply Inv1.release
        exact hI.regH h w rfl rfl rfl rfl rfl
      · -- removeHandler
        rename_i h w
        split
        · apply ih.fin
          apply Inv1.release
          exact hI.unregH h w rfl rfl rfl rfl rfl
        · apply ih.fin
          apply Inv1.release
          exact hI.frame rfl (fun w' => by simp only [handlersOf_eq]; exact hOf_self _ _ _) rfl rfl rfl
      · exact ih.uab _ _ _ hI
      · exact ih.uab _ _ _ hI
      · exact hI
    · -- schedFinish
      intro s ti h w e hI
      unfold schedFinish
      try simp only []
      try simp only []
      apply ih.fin
      apply Inv1.release
      exact hI.regH h w rfl rfl rfl rfl rfl
    · -- unschedFinish
      intro s ti w hI
      unfold unschedFinish
      try simp only []
      split
      · apply ih.fin
        apply Inv1.release
        exact hI.frame rfl (fun _ => rfl) rfl rfl rfl
      · exact ih.fin _ _ _ hI.release
    · -- uallBody
      intro s ti b hI
      unfold uallBody
      try simp only []
      try simp only []
      apply ih.uajn
      apply Inv1.foldUpdEm
      exact hI.unregAllH rfl rfl rfl rfl rfl
    · -- uallJoinNext
      intro s ti es b hI
      unfold uallJoinNext
      try simp only []
      split
      · split
        · updpc
        · exact ih.uajn _ _ _ _ hI
      · try simp only []
        have hI1 : Inv1 ({ s with regEm := [], watches := [] } : State).release :=
          Inv1.release (hI.frame rfl (fun _ => rfl) rfl rfl rfl)
        split
        · apply ih.fin
          apply hI1.putItem _ _ _ rfl rfl (by trivial) rfl
          exact Or.inl ⟨rfl, rfl, by trivial⟩
        · exact ih.fin _ _ _ hI1
    · -- startEmitters
      intro s ti es hI
      unfold startEmitters
      try simp only []
      split
      · split
        · try simp only []
          apply Inv1.updPc
          · exact (hI.spawn _ _).updEm _ _
          · intro t u w v h; cases h
          · intro t; rfl
        · exact hI
      · try simp only []
        apply Inv1.updPc
        · exact (hI.spawn "D" .dispatcher).frame rfl (fun _ => rfl) rfl rfl rfl
        · intro t u w v h; cases h
        · intro t; rfl
    · -- continueIter
      intro s ti hI
      unfold continueIter
      try simp only []
      split
      · exact hI
      · rename_i t ht
        split
        · exact hI
        · rename_i u w v hit
          try simp only []
          apply Inv1.dLoop
          apply Inv1.release
          apply Inv1.setThread
          · exact hI.logN rfl rfl (by trivial)
          · exact ((hI.thread? ht).mono _).iter_none rfl rfl
        · rename_i u w v h rest hit
          try simp only []
          have hT := hI.thread? ht
          obtain ⟨henq, hs, hdisp⟩ := hT.2 _ _ _ _ hit
          have hI0 := hI.touch w
          have hh0 : (if (alookup w s.handlers).isNone then ({ s with handlers := ainsert w [] s.handlers } : State) else s).hist = s.hist := by
            split <;> rfl
          generalize (if (alookup w s.handlers).isNone then ({ s with handlers := ainsert w [] s.handlers } : State) else s) = s0 at hI0 hh0 ⊢
          split
          · rename_i hc
            apply ih.nxt
            apply Inv1.setThread
            · have hI0' : Inv1 ({ s0 with invoc := ainsert h ((alookup h s0.invoc).getD 0 + 1) s0.invoc } : State) :=
                hI0.frame rfl (fun _ => rfl) rfl rfl rfl
              apply hI0'.logN rfl rfl
              refine ⟨?_, ?_⟩
              · exact (hI0.reg h w).mp (by simpa using hc)
              · show _ ∈ s0.hist
                rw [hh0]; exact henq
            · have := hT.mono [.call h w v u]
              simp only [log_hist]
              show TOK1 (s0.hist ++ _) _
              rw [hh0]
              exact this.iter_some rfl hit rfl
          · rename_i hc
            apply ih.cit
            apply Inv1.setThread
            · apply hI0.logN rfl rfl
              refine ⟨w, hs, ?_, ?_⟩
              · rw [hh0]; exact hdisp
              · have := (hI0.reg h w)
                cases hr : registered s0.hist h w
                · rfl
                · exact absurd (by simpa using this.mpr hr) hc
            · have := hT.mono [.skip h u]
              simp only [log_hist]
              rw [hh0]
              exact this.iter_some rfl hit rfl

theorem Inv1.step {s s' : State} {ti : Nat} (hI : Inv1 s) (h : step s ti = some s') : Inv1 s' := by
  have A := allInv1 FUEL
  unfold WD.Obs.step at h
  split at h
  · cases h
  · split at h
    · cases h
    · rename_i t ht
      split at h
      · split at h <;> cases h
        · exact A.nxt _ _ hI
        · exact hI.dLoop _ _
        · exact hI.eLoop _ _
      · cases h; exact A.lck _ _ _ (hI.lockFields _ _)
      · cases h; exact A.sfin _ _ _ _ _ hI
      · cases h; exact A.ufin _ _ _ hI
      · cases h; exact A.uajn _ _ _ _ hI
      · cases h; exact A.uajn _ _ _ _ hI
      · cases h; exact A.stem _ _ _ hI
      · cases h; exact A.fin _ _ _ hI
      · cases h; exact A.fin _ _ _ hI
      · cases h; apply Inv1.dGet; exact hI.updThread _ _ (fun t _ ht => ht.of_eq rfl rfl)
      · rename_i u w v hpc
        cases h
        apply A.cit
        try simp only []
        have hI2 := (hI.lockFields (some ti) 1).touch w
        have hh2 : (if (alookup w s.handlers).isNone then ({ s with lockOwner := some ti, lockCount := 1, handlers := ainsert w [] s.handlers } : State) else { s with lockOwner := some ti, lockCount := 1 }).threads = s.threads := by
          split <;> rfl
        generalize (if (alookup w s.handlers).isNone then ({ s with lockOwner := some ti, lockCount := 1, handlers := ainsert w [] s.handlers } : State) else { s with lockOwner := some ti, lockCount := 1 }) = s2 at hI2 hh2 ⊢
        have hI3 : Inv1 (s2.log (.dispatch u w (s2.handlersOf w))) := hI2.logN rfl rfl (fun h => hI2.reg h w)
        apply hI3.updThread
        intro t' ht' hT'
        have : t' = t := by
          simp only [log_threads, hh2] at ht'
          have ht2 : s.threads[ti]? = some t := ht
          rw [ht2] at ht'; cases ht'; rfl
        subst this
        refine ⟨hT'.1, ?_⟩
        intro u' w' v' rest e
        cases e
        exact ⟨hT'.1 _ _ _ hpc, s2.handlersOf w, by simp⟩
      · split at h
        · split at h
          · split at h
            · cases h
              apply Inv1.eLoop
              apply (hI.updEm _ _).putItem _ _ _ rfl rfl (by trivial) rfl
              exact Or.inr ⟨_, _, rfl, rfl⟩
            · cases h; exact hI.eLoop _ _
          · cases h
        · cases h
      · split at h
        · cases h; exact hI.eLoop _ _
        · cases h
      · cases h

theorem Inv1.init (clients : List (List Op)) (cbs : List (Hid × List (List Op))) (emit : List (Wid × List Nat)) :
    Inv1 (init clients cbs emit) := by
  constructor
  · exact Good.nil _
  · intro h w; simp [WD.Obs.init, State.handlersOf]
  · intro u w v hm; simp [WD.Obs.init] at hm
  · intro u hu; simp [WD.Obs.init, enqUids] at hu
  · simp [WD.Obs.init, quids]
  · intro u hu; simp [WD.Obs.init, quids] at hu
  · intro j t hj
    simp only [WD.Obs.init, List.getElem?_map] at hj
    cases hz : (clients.zipIdx)[j]? with
    | none => simp [hz] at hj
    | some x =>
      simp [hz] at hj
      subst hj
      refine ⟨?_, ?_⟩
      · intro u w v e; cases e
      · intro u w v rest e; cases e

theorem Inv1.run {s : State} (hI : Inv1 s) (sched : List Nat) : Inv1 (run s sched) := by
  induction sched generalizing s with
  | nil => exact hI
  | cons ti sched ih =>
    simp only [WD.Obs.run, List.foldl_cons]
    apply ih
    cases hs : WD.Obs.step s ti with
    | none => exact hI
    | some s' => exact hI.step hs

theorem inv1_reach (clients : List (List Op)) (cbs : List (Hid × List (List Op))) (emit : List (Wid × List Nat))
    (sched : List Nat) : Inv1 (run (init clients cbs emit) sched) :=
  (Inv1.init clients cbs emit).run sched

theorem good1_enq_pairwise {hist : List Obs} (hg : Good GoodAt1 hist) : (enqUids hist).Pairwise (· < ·) := by
  induction hist using snoc_induction with
  | nil => simp [enqUids]
  | snoc l a ih =>
    have hl : Good GoodAt1 l := fun p o q e => hg p o (q ++ [a]) (by rw [e]; simp)
    rw [enqUids_append, List.pairwise_append]
    refine ⟨ih hl, ?_, ?_⟩
    · cases a <;> simp [enqUids]
    · intro x hx y hy
      have ha := hg l a [] rfl
      cases a <;> simp [enqUids] at hy
      subst hy
      exact ha x hx

end WD.ProofsObs
