/- the waits-for invariant along runs whose steps all complete, and what it says about states in which nothing can run -/
import WD.Proofs.Observer.GPass
set_option linter.unusedSimpArgs false
set_option linter.unusedVariables false
namespace WD.ProofsObs
open WD WD.Obs

theorem TG.iter_none {s : State} {t : Thread} (h : TG s t) (hpc : cbPc t.pc = false) (hj : t.pc ≠ .joinD) : t.iter = none := by
  cases hi : t.iter with
  | none => rfl
  | some x =>
    rcases h.cb (by simp [hi]) with h1 | h1
    · rw [hpc] at h1; cases h1
    · exact absurd h1.1 hj

/-- the stepping thread is a client or the dispatcher inside a callback: at a pc that is neither an emitter's nor one
    of the dispatcher's own -/
theorem TG.tm {s : State} {t : Thread} (h : TG s t) (hpc : epc t.pc = false) (hdj : djPc t.pc = false) : TM t :=
  ⟨fun e hk => (by rw [h.epcE e hk] at hpc; cases hpc), fun hi => h.disp (Or.inl hi), fun hk => by
    cases hi : t.iter with
    | some x => rfl
    | none => have := h.dj hk hi; rw [hdj] at this; cases this⟩

theorem TG.ts {s : State} {t : Thread} (h : TG s t) (hd : t.pc ≠ .done) (hs : ∀ h0 w e, t.pc ≠ .schedStarted h0 w e) : TS s t :=
  ⟨fun hk hS => h.sq hk hd hS, fun h0 w e hp => absurd hp (hs h0 w e)⟩

/-- an emitter thread reaches its loop head -/
theorem GX.eLoop {s : State} {ti : Nat} {t : Thread} (hG : GX s ti NoX) (ht : s.thread? ti = some t) (e : Eid)
    (hk : t.kind = .emitter e) (hi : t.iter = none) (hep : epc t.pc = true)
    (hobj : ∃ o, s.em? e = some o ∧ o.tidx.isSome = true) : GQ (eLoop s ti e) := by
  have mk : ∀ pc, epc pc = true → TG s { t with pc := pc } := by
    intro pc hp
    exact {
      disp := by
        rintro (h | h)
        · simp [hi] at h
        · cases pc <;> simp [isDpc, epc] at h hp
      cb := fun h => by simp [hi] at h
      epcE := fun _ _ => hp
      epcO := fun _ => ⟨e, hk⟩
      dj := fun h _ => by simp [hk] at h
      joinU := fun w e' h => by cases pc <;> simp [epc] at h hp
      joinA := fun es fs h => by cases pc <;> simp [epc] at h hp
      sched := fun h0 w e' h => by cases pc <;> simp [epc] at h hp
      emObj := fun e' h => by
        have : e' = e := by
          have h' : t.kind = .emitter e' := h
          rw [hk] at h'; cases h'; rfl
        subst this; exact hobj
      startEs := fun es h => by cases pc <;> simp [epc] at h hp
      regS := fun es fs h => by cases pc <;> simp [epc] at h hp
      q1 := fun h _ => by cases pc <;> simp [epc] at h hp
      sq := fun h _ _ => by simp [hk] at h
      stopA := fun h => by cases pc <;> simp [epc] at h hp
      stopJ := fun es h => by cases pc <;> simp [epc] at h hp }
  have hpe : ∀ (pc : Pc) h0 w e', t.pc = .schedStarted h0 w e' → AliveOk s e' ∨ pc = .schedStarted h0 w e' := by
    intro pc h0 w e' hp; rw [hp] at hep; cases hep
  unfold WD.Obs.eLoop
  split
  · rename_i hn
    obtain ⟨o, ho, _⟩ := hobj
    rw [ho] at hn; cases hn
  · split
    · exact hG.closeUpd ht _ rfl (mk .done rfl) (hpe _) (fun _ hx => hx.elim)
    · split
      · exact hG.closeUpd ht _ rfl (mk .eWait rfl) (hpe _) (fun _ hx => hx.elim)
      · exact hG.closeUpd ht _ rfl (mk .eEmit rfl) (hpe _) (fun _ hx => hx.elim)

theorem GQ.stepX {s s' : State} {ti : Nat} (hQ : LQ s) (hQg : GQ s) (h : stepX s ti = some s') : GQ s' := by
  have A := allG FUEL
  have D := gpass_d ti FUEL
  unfold WD.ProofsObs.stepX at h
  generalize FUEL = F at A D h
  split at h
  · cases h
  · rename_i hen
    split at h
    · cases h
    · rename_i t ht
      have hT := hQ.thr ti t ht
      have hTg := hQg.thr ti t ht
      have hO := hQ.open ht
      have hG := hQg.open ti
      split at h
      · -- begin
        rename_i hpc
        have hp : holdsPc t.pc = false := by rw [hpc]; rfl
        rw [depth_of_not_holds hp] at hO
        split at h
        · rename_i hk
          exact A.nxt _ _ _ _ h ht hO ⟨fun e he => (by rw [hk] at he; cases he), fun hi => hTg.disp (Or.inl hi),
            fun hd => (by rw [hk] at hd; cases hd)⟩ (hTg.ts (by rw [hpc]; simp) (by rw [hpc]; simp)) hG
        · rename_i hk
          exact D.1 _ _ _ h ht hk (hTg.iter_none (by rw [hpc]; rfl) (by rw [hpc]; simp)) (fun h0 w e hp' => by rw [hpc] at hp'; cases hp')
            (Or.inr (fun hS => hTg.sq hk (by rw [hpc]; simp) hS)) hG
        · rename_i e hk
          cases h
          exact hG.eLoop ht e hk (hTg.iter_none (by rw [hpc]; rfl) (by rw [hpc]; simp)) (by rw [hpc]; rfl) (hTg.emObj e hk)
      · -- acq
        rename_i op hpc
        have hn : s.lockOwner = none := by
          simp [enabled, ht, hpc] at hen
          cases ho : s.lockOwner <;> simp_all
        have hc : t.cur = some op := by have := hT.cur; rw [hpc] at this; exact this
        have hi := hQ.idepth_zero_of_free ht hn
        refine A.lck _ _ _ _ _ h ht hc ?_ ?_ (hTg.tm (by rw [hpc]; rfl) (by rw [hpc]; rfl)) ?_ (hG.frame rfl rfl rfl rfl rfl rfl rfl rfl)
        · rw [hi]; exact hQ.take ti hn
        · intro hop; subst hop; exact hTg.stopA hpc
        · exact (hTg.ts (by rw [hpc]; simp) (by rw [hpc]; simp)).frame rfl rfl rfl rfl rfl
      · -- schedStarted
        rename_i h0 w e hpc
        have hp : holdsPc t.pc = true := by rw [hpc]; rfl
        rw [depth_of_holds hp] at hO
        have hc := hT.cur; rw [hpc] at hc
        refine A.sfin _ _ _ _ _ _ _ h ht hc hO (hTg.tm (by rw [hpc]; rfl) (by rw [hpc]; rfl)) ?_ ?_ hG (hTg.sched h0 w e hpc)
        · intro hk hS; exact hTg.sq hk (by rw [hpc]; simp) hS
        · intro h1 w1 e1 hp1; rw [hpc] at hp1; cases hp1; exact Or.inl rfl
      · -- unschedJoin
        rename_i w e hpc
        have hp : holdsPc t.pc = true := by rw [hpc]; rfl
        rw [depth_of_holds hp] at hO
        have hc := hT.cur; rw [hpc] at hc
        exact A.ufin _ _ _ _ _ h ht hc.1 hc.2 hO (hTg.tm (by rw [hpc]; rfl) (by rw [hpc]; rfl))
          (hTg.ts (by rw [hpc]; simp) (by rw [hpc]; simp)) hG
      · -- uallJoin (e :: rest)
        rename_i e rest b hpc
        have hp : holdsPc t.pc = true := by rw [hpc]; rfl
        rw [depth_of_holds hp] at hO
        have hc := hT.cur; rw [hpc] at hc
        exact A.uajn _ _ _ _ _ _ h ht hc.1 hc.2 hO (fun hb => by subst hb; exact hTg.stopJ _ hpc)
          (hTg.tm (by rw [hpc]; rfl) (by rw [hpc]; rfl)) (hTg.ts (by rw [hpc]; simp) (by rw [hpc]; simp)) hG
          (fun x hx => hTg.joinA _ _ hpc x (List.mem_cons_of_mem _ hx)) (hTg.regS _ _ hpc)
      · -- uallJoin []
        rename_i b hpc
        have hp : holdsPc t.pc = true := by rw [hpc]; rfl
        rw [depth_of_holds hp] at hO
        have hc := hT.cur; rw [hpc] at hc
        exact A.uajn _ _ _ _ _ _ h ht hc.1 hc.2 hO (fun hb => by subst hb; exact hTg.stopJ _ hpc)
          (hTg.tm (by rw [hpc]; rfl) (by rw [hpc]; rfl)) (hTg.ts (by rw [hpc]; simp) (by rw [hpc]; simp)) hG
          (fun x hx => by cases hx) (hTg.regS _ _ hpc)
      · -- startEm
        rename_i es hpc
        have hp : holdsPc t.pc = false := by rw [hpc]; rfl
        rw [depth_of_not_holds hp] at hO
        have hc := hT.cur; rw [hpc] at hc
        exact A.stem _ _ _ _ _ h ht hc hO (hTg.tm (by rw [hpc]; rfl) (by rw [hpc]; rfl))
          (hTg.ts (by rw [hpc]; simp) (by rw [hpc]; simp)) hG (hTg.startEs es hpc)
      · -- startD
        rename_i hpc
        have hp : holdsPc t.pc = false := by rw [hpc]; rfl
        rw [depth_of_not_holds hp] at hO
        have hc := hT.cur; rw [hpc] at hc
        have hc2 : t.cur = some Op.start := hc
        refine A.fin _ _ _ _ _ h ht hO ?_ ?_ (hTg.tm (by rw [hpc]; rfl) (by rw [hpc]; rfl))
          (hTg.ts (by rw [hpc]; simp) (by rw [hpc]; simp)) hG
        · intro _ op' hc' h' w' hr
          rw [hc2] at hc'; cases hc'; simp [removes] at hr
        · intro _ hcs; rw [hc2] at hcs; cases hcs
      · -- joinD
        rename_i hpc
        have hp : holdsPc t.pc = false := by rw [hpc]; rfl
        rw [depth_of_not_holds hp] at hO
        have hc := hT.cur; rw [hpc] at hc
        have hc2 : t.cur = some Op.join := hc
        refine A.fin _ _ _ _ _ h ht hO ?_ ?_ (hTg.tm (by rw [hpc]; rfl) (by rw [hpc]; rfl))
          (hTg.ts (by rw [hpc]; simp) (by rw [hpc]; simp)) hG
        · intro _ op' hc' h' w' hr
          rw [hc2] at hc'; cases hc'; simp [removes] at hr
        · intro _ hcs; rw [hc2] at hcs; cases hcs
      · -- dWait
        rename_i hpc
        have hk : t.kind = .dispatcher := hTg.disp (Or.inr (by rw [hpc]; rfl))
        have ht2 := updThread_thread? (s := s) ti (fun t => { t with notified := false }) ht
        simp only [if_true] at ht2
        have hG2 : GX (s.updThread ti (fun t => { t with notified := false })) ti NoX := by
          rw [updThread_of_some _ ht]
          exact hG.setThreadMine ht _ rfl rfl
        refine D.2 _ _ _ h ht2 hk (hTg.iter_none (by rw [hpc]; rfl) (by rw [hpc]; simp)) ?_ ?_ hG2
        · intro h0 w e hp'
          have hp'' : t.pc = .schedStarted h0 w e := hp'
          rw [hpc] at hp''; cases hp''
        · intro hS
          rw [updThread_hist] at hS
          rw [updThread_queue']
          exact (hTg.sq hk (by rw [hpc]; simp) hS).imp id (fun x => x.mono (KP.updThread _ _ _ (fun _ => rfl)))
      · -- dLock
        rename_i u w v hpc
        try simp only [] at h
        have hk : t.kind = .dispatcher := hTg.disp (Or.inr (by rw [hpc]; rfl))
        have hn : s.lockOwner = none := by
          simp [enabled, ht, hpc] at hen
          cases ho : s.lockOwner <;> simp_all
        have hL2 : LX (if (alookup w s.handlers).isNone then ({ s with lockOwner := some ti, lockCount := 1, handlers := ainsert w [] s.handlers } : State) else { s with lockOwner := some ti, lockCount := 1 }) ti 1 := by
          split
          · exact (hQ.take ti hn).frame rfl rfl rfl rfl
          · exact hQ.take ti hn
        have hG2 : GX (if (alookup w s.handlers).isNone then ({ s with lockOwner := some ti, lockCount := 1, handlers := ainsert w [] s.handlers } : State) else { s with lockOwner := some ti, lockCount := 1 }) ti NoX := by
          split
          · exact hG.frame rfl rfl rfl rfl rfl rfl rfl rfl
          · exact hG.frame rfl rfl rfl rfl rfl rfl rfl rfl
        have hS2 : TS (if (alookup w s.handlers).isNone then ({ s with lockOwner := some ti, lockCount := 1, handlers := ainsert w [] s.handlers } : State) else { s with lockOwner := some ti, lockCount := 1 }) t := by
          have := hTg.ts (by rw [hpc]; simp) (by rw [hpc]; simp)
          split
          · exact this.frame rfl rfl rfl rfl rfl
          · exact this.frame rfl rfl rfl rfl rfl
        have ht2 : (if (alookup w s.handlers).isNone then ({ s with lockOwner := some ti, lockCount := 1, handlers := ainsert w [] s.handlers } : State) else { s with lockOwner := some ti, lockCount := 1 }).thread? ti = some t := by
          split <;> exact ht
        generalize (if (alookup w s.handlers).isNone then ({ s with lockOwner := some ti, lockCount := 1, handlers := ainsert w [] s.handlers } : State) else { s with lockOwner := some ti, lockCount := 1 }) = s2 at h hL2 ht2 hG2 hS2
        have ht3 : (s2.log (.dispatch u w (s2.handlersOf w))).thread? ti = some t := by rw [log_thread?]; exact ht2
        rw [updThread_of_some _ ht3] at h
        refine A.cit _ _ _ _ h (setThread_thread?_self _ ht3) ?_ ?_ ?_ ?_
        · exact (hL2.log (.dispatch u w (s2.handlersOf w)) trivial (Or.inl rfl)).setThreadMine _
        · exact ⟨fun e he => by simp [hk] at he, fun _ => hk, fun _ => rfl⟩
        · exact (hS2.frameLog (s' := s2.log (.dispatch u w (s2.handlersOf w))) rfl rfl rfl rfl _ rfl rfl).rel
            (Rel.setThread (t := t) ht3 _ rfl) rfl rfl
        · exact (hG2.log _ rfl (by simp [GoodAtS])).setThreadMine (t := t) ht3 _ rfl rfl
      · -- eEmit
        rename_i hpc
        split at h
        · split at h
          · split at h
            · cases h
              rename_i _ e _ _ o _ _ v rest _
              have hk : t.kind = .emitter e := by assumption
              have ht1 : (s.updEm e (fun o => { o with script := rest })).thread? ti = some t := by rw [updEm_thread?]; exact ht
              obtain ⟨t', ht', e1, e2, e3, e4⟩ := putItem_thread? (fun u => QItem.ev u o.wid v) (fun u => Obs.enq o.wid v u) (Obs.drop o.wid v) ht1
              have hG1 := (hG.updEm e (fun o => { o with script := rest }) (fun o h => h) (fun o => rfl)).putItem
                (fun u => QItem.ev u o.wid v) (fun u => Obs.enq o.wid v u) (Obs.drop o.wid v)
                (fun p u => ⟨by simp [GoodAtS], by simp [GoodAtS]⟩) (Or.inl (fun u => ⟨by simp, rfl, rfl⟩))
              have hi : t.iter = none := hTg.iter_none (by rw [hpc]; rfl) (by rw [hpc]; simp)
              refine hG1.eLoop ht' e (e4.trans hk) (e2.trans hi) (by rw [e1, hpc]; rfl) ?_
              obtain ⟨y, hy, hty⟩ := hTg.emObj e hk
              have hm1 := EmMono.updEm s e (fun o => { o with script := rest }) (fun o h => h) (fun o h => h)
              obtain ⟨y1, hy1, _, hty1⟩ := hm1 e y hy
              exact ⟨y1, by simpa [State.em?, putItem_emObjs] using hy1, hty1 hty⟩
            · cases h
              rename_i _ e hk _ _ _ _ _
              exact hG.eLoop ht e hk (hTg.iter_none (by rw [hpc]; rfl) (by rw [hpc]; simp)) (by rw [hpc]; rfl) (hTg.emObj e hk)
          · cases h
        · cases h
      · -- eWait
        rename_i hpc
        split at h
        · rename_i e hk
          cases h
          exact hG.eLoop ht e hk (hTg.iter_none (by rw [hpc]; rfl) (by rw [hpc]; simp)) (by rw [hpc]; rfl) (hTg.emObj e hk)
        · cases h
      · cases h

end WD.ProofsObs

namespace WD.ProofsObs
open WD WD.Obs

theorem GQ.init (clients : List (List Op)) (cbs : List (Hid × List (List Op))) (emit : List (Wid × List Nat)) :
    GQ (init clients cbs emit) := by
  have key : ∀ (j : Nat) (t : Thread), (WD.Obs.init clients cbs emit).threads[j]? = some t →
      t.pc = .begin ∧ t.iter = none ∧ t.kind = .client := by
    intro j t hj
    simp only [WD.Obs.init, List.getElem?_map] at hj
    cases hz : (clients.zipIdx)[j]? with
    | none => simp [hz] at hj
    | some x => simp [hz] at hj; subst hj; exact ⟨rfl, rfl, rfl⟩
  constructor
  · exact {
      em := by intro e o ei h; simp [WD.Obs.init, State.em?] at h
      didx := by intro d h; simp [WD.Obs.init] at h
      reg := by intro e h; simp [WD.Obs.init] at h
      alive := by intro e o h; simp [WD.Obs.init, State.em?] at h
      l1 := by intro h; simp [WD.Obs.init] at h
      l2 := by intro h; simp [WD.Obs.init] at h
      goodS := Good.nil _
      sq0 := by rintro (h | h) <;> simp [WD.Obs.init] at h
      dset := by
        rintro ⟨i, hi⟩
        simp only [kinds, List.getElem?_map] at hi
        cases hz : (WD.Obs.init clients cbs emit).threads[i]? with
        | none => simp [hz] at hi
        | some t => simp [hz, (key i t hz).2.2] at hi }
  · intro j t hj
    obtain ⟨h1, h2, h3⟩ := key j t hj
    refine ⟨?_, ?_, ?_, ?_, ?_, ?_, ?_, ?_, ?_, ?_, ?_, ?_, ?_, ?_, ?_⟩ <;> simp [h1, h2, h3, isDpc, epc, djPc]

/-- both invariants hold along every schedule all of whose steps complete -/
theorem lgq_reach (clients : List (List Op)) (cbs : List (Hid × List (List Op))) (emit : List (Wid × List Nat))
    (sched : List Nat) (hok : runOk (init clients cbs emit) sched = true) :
    LQ (run (init clients cbs emit) sched) ∧ GQ (run (init clients cbs emit) sched) :=
  run_induction (P := fun s => LQ s ∧ GQ s) (fun s s' ti hP h => ⟨LQ.stepX hP.1 h, GQ.stepX hP.1 hP.2 h⟩) sched _
    ⟨LQ.init clients cbs emit, GQ.init clients cbs emit⟩ hok

/-- nothing can run -/
def Quiescent (s : State) : Prop := ∀ ti, enabled s ti = false

/-- the pcs at which a thread may be left when nothing can run: ended, or in one of the three idle waits -/
def idlePc : Pc → Bool
  | .done | .joinD | .dWait | .eWait => true
  | _ => false

/-- a stopped emitter that somebody joins has ended, if nothing can run -/
theorem joined_emitter_done {s : State} (hG : GQ s) (hq : Quiescent s) {e : Eid} (hs : Stopped s e) {ei : Nat}
    (hti : (s.em? e).bind (·.tidx) = some ei) : s.threadDone ei = true := by
  obtain ⟨o, ho, hst⟩ := hs
  rw [ho] at hti
  simp only [Option.bind_some] at hti
  obtain ⟨t, ht, hk⟩ := hG.sg.em e o ei ho hti
  have hp := (hG.thr ei t ht).epcE e hk
  have hen := hq ei
  have ht' : s.thread? ei = some t := ht
  cases hpc : t.pc <;> simp [hpc, epc] at hp
  · simp [enabled, ht', hpc] at hen
  · simp [enabled, ht', hpc] at hen
  · simp [enabled, ht', hpc, hk, ho, hst] at hen
  · simp [State.threadDone, ht', hpc]

/-- the lock is free when nothing can run: whoever holds it could run -/
theorem owner_not_stuck {s : State} (hL : LQ s) (hG : GQ s) (h2 : ¬ TwoD s) (hq : Quiescent s) : s.lockOwner = none := by
  cases ho : s.lockOwner with
  | none => rfl
  | some o =>
    exfalso
    obtain ⟨t, ht, hd⟩ := hL.own o ho
    have ht' : s.thread? o = some t := ht
    have hT := hG.thr o t ht
    have hen := hq o
    cases hpc : t.pc with
    | schedStarted h w e => simp [enabled, ht', hpc] at hen
    | unschedJoin w e =>
      have hs := hT.joinU w e hpc
      cases hti : (s.em? e).bind (·.tidx) with
      | none => simp [enabled, ht', hpc, hti] at hen
      | some ei =>
        have := joined_emitter_done hG hq hs hti
        simp [enabled, ht', hpc, hti, this] at hen
    | uallJoin es fs =>
      cases es with
      | nil => simp [enabled, ht', hpc] at hen
      | cons e rest =>
        have hs := hT.joinA _ _ hpc e (List.mem_cons_self ..)
        cases hti : (s.em? e).bind (·.tidx) with
        | none => simp [enabled, ht', hpc, hti] at hen
        | some ei =>
          have := joined_emitter_done hG hq hs hti
          simp [enabled, ht', hpc, hti, this] at hen
    | _ =>
      -- not at a pc that holds the lock by itself: a callback is running
      have hi : t.iter.isSome = true := by
        cases hit : t.iter with
        | some x => rfl
        | none => simp [depth, idepth, hit, holdsPc, hpc] at hd
      rcases hT.cb hi with h1 | h1
      · simp [hpc, cbPc] at h1 <;> simp [enabled, ht', hpc] at hen
      · exact h2 h1.2

/-- C06, no deadlock: in a state in which nothing can run, every thread has ended or sits in one of the three idle
    waits — `observer.join()`, the dispatcher's `queue.get()`, an emitter's wait for its stop flag.  Nobody is left
    waiting for the lock or inside `emitter.join()` -/
theorem quiescent_idle {s : State} (hL : LQ s) (hG : GQ s) (h2 : ¬ TwoD s) (hq : Quiescent s) (ti : Nat) (t : Thread)
    (ht : s.thread? ti = some t) : idlePc t.pc = true := by
  have hfree := owner_not_stuck hL hG h2 hq
  have hen := hq ti
  have hT := hG.thr ti t ht
  cases hpc : t.pc with
  | done => rfl
  | joinD => rfl
  | dWait => rfl
  | eWait => rfl
  | acq op => simp [enabled, ht, hpc, hfree] at hen
  | dLock u w v => simp [enabled, ht, hpc, hfree] at hen
  | unschedJoin w e =>
    have hs := hT.joinU w e hpc
    cases hti : (s.em? e).bind (·.tidx) with
    | none => simp [enabled, ht, hpc, hti] at hen
    | some ei =>
      have := joined_emitter_done hG hq hs hti
      simp [enabled, ht, hpc, hti, this] at hen
  | uallJoin es fs =>
    cases es with
    | nil => simp [enabled, ht, hpc] at hen
    | cons e rest =>
      have hs := hT.joinA _ _ hpc e (List.mem_cons_self ..)
      cases hti : (s.em? e).bind (·.tidx) with
      | none => simp [enabled, ht, hpc, hti] at hen
      | some ei =>
        have := joined_emitter_done hG hq hs hti
        simp [enabled, ht, hpc, hti, this] at hen
  | _ => simp [enabled, ht, hpc] at hen

/-- C06, emitters: when nothing can run, an emitter thread that has not ended belongs to an emitter that is still
    registered (scheduled and not stopped); with an empty registry every emitter thread has ended -/
theorem quiescent_emitters {s : State} (hG : GQ s) (hq : Quiescent s) (ti : Nat) (t : Thread) (e : Eid)
    (ht : s.thread? ti = some t) (hk : t.kind = .emitter e) (hnd : t.pc ≠ .done) : e ∈ s.regEm := by
  have hT := hG.thr ti t ht
  have hen := hq ti
  obtain ⟨o, ho, hto⟩ := hT.emObj e hk
  have hp := hT.epcE e hk
  have hns : o.stopped = false := by
    cases hpc : t.pc <;> simp [hpc, epc] at hp
    · simp [enabled, ht, hpc] at hen
    · simp [enabled, ht, hpc] at hen
    · cases hst : o.stopped with
      | false => rfl
      | true => simp [enabled, ht, hpc, hk, ho, hst] at hen
    · exact absurd hpc hnd
  rcases hG.sg.alive e o ho hto with h | h | ⟨j, x, h0, w, hj, hpx⟩ | h
  · rw [hns] at h; cases h
  · exact h
  · have hj' : s.thread? j = some x := hj
    have := hq j
    simp [enabled, hj', hpx] at this
  · exact h.elim

/-- C06, dispatcher: once a `stop()` has returned, a dispatcher thread that cannot run has ended -/
theorem quiescent_dispatcher {s : State} (hG : GQ s) (h2 : ¬ TwoD s) (hq : Quiescent s)
    (hstop : Obs.did .stop "ok" ∈ s.hist) (ti : Nat) (t : Thread) (ht : s.thread? ti = some t) (hk : t.kind = .dispatcher)
    (hidle : idlePc t.pc = true) : t.pc = .done := by
  have hT := hG.thr ti t ht
  have hS : Sent s.hist := by
    obtain ⟨p, q, hpq⟩ := List.append_of_mem hstop
    have := hG.sg.goodS p _ q hpq rfl
    rw [hpq]; exact this.mono _
  cases hpc : t.pc with
  | done => rfl
  | dWait =>
    exfalso
    have hen := hq ti
    have hnf : t.notified = false := by simpa [enabled, ht, hpc] using hen
    have hq0 : s.queue = [] := (hT.q1 hpc hnf).resolve_right h2
    have := (hT.sq hk (by rw [hpc]; simp) hS).resolve_right h2
    rw [hq0] at this; cases this
  | eWait =>
    obtain ⟨e, he⟩ := hT.epcO (Or.inr hpc)
    rw [hk] at he; cases he
  | joinD =>
    exfalso
    cases hit : t.iter with
    | none => have := hT.dj hk hit; rw [hpc] at this; cases this
    | some x =>
      rcases hT.cb (by simp [hit]) with h1 | h1
      · rw [hpc] at h1; cases h1
      · exact h2 h1.2
  | _ => rw [hpc] at hidle; cases hidle

end WD.ProofsObs

namespace WD.ProofsObs
open WD WD.Obs

/-- C06, termination: once a `stop()` has returned and nothing has been scheduled since (the registry is empty), a state
    in which nothing can run is one in which every thread — clients, the dispatcher, every emitter — has ended -/
theorem stop_ends_everything {s : State} (hL : LQ s) (hG : GQ s) (h2 : ¬ TwoD s) (hq : Quiescent s)
    (hstop : Obs.did .stop "ok" ∈ s.hist) (hreg : s.regEm = []) (ti : Nat) (t : Thread) (ht : s.thread? ti = some t) :
    t.pc = .done := by
  have hidle := quiescent_idle hL hG h2 hq ti t ht
  have hT := hG.thr ti t ht
  cases hkind : t.kind with
  | dispatcher => exact quiescent_dispatcher hG h2 hq hstop ti t ht hkind hidle
  | emitter e =>
    cases hpc : t.pc with
    | done => rfl
    | _ =>
      have := quiescent_emitters hG hq ti t e ht hkind (by rw [hpc]; simp)
      rw [hreg] at this; cases this
  | client =>
    cases hpc : t.pc with
    | done => rfl
    | dWait => have := hT.disp (Or.inr (by rw [hpc]; rfl)); rw [hkind] at this; cases this
    | eWait => obtain ⟨e, he⟩ := hT.epcO (Or.inr hpc); rw [hkind] at he; cases he
    | joinD =>
      exfalso
      have hen := hq ti
      cases hd : s.dIdx with
      | none => simp [enabled, ht, hpc, hd] at hen
      | some d =>
        obtain ⟨td, htd, hkd⟩ := hG.sg.didx d hd
        have htd' : s.thread? d = some td := htd
        have hdone := quiescent_dispatcher hG h2 hq hstop d td htd' hkd (quiescent_idle hL hG h2 hq d td htd')
        simp [enabled, ht, hpc, hd, State.threadDone, htd', hdone] at hen
    | _ => rw [hpc] at hidle; cases hidle

end WD.ProofsObs
