/- the waits-for invariant along runs whose steps all complete, and what it says about states in which nothing can run -/
import WD.Proofs.Observer.GPass
set_option linter.unusedSimpArgs false
set_option linter.unusedVariables false
namespace WD.ProofsObs
open WD WD.Obs

theorem TG.tm {s : State} {t : Thread} (h : TG s t) (hpc : epc t.pc = false) : TM t :=
  ⟨fun e hk => (by rw [h.epcE e hk] at hpc; cases hpc), fun hi => h.disp (Or.inl hi)⟩

theorem TG.iter_none {s : State} {t : Thread} (h : TG s t) (hpc : cbPc t.pc = false) (hj : t.pc ≠ .joinD) : t.iter = none := by
  cases hi : t.iter with
  | none => rfl
  | some x =>
    rcases h.cb (by simp [hi]) with h1 | h1
    · rw [hpc] at h1; cases h1
    · exact absurd h1.1 hj

theorem GQ.eLoop {s : State} (hQ : GQ s) {ti : Nat} {t : Thread} (ht : s.thread? ti = some t) (e : Eid)
    (hk : t.kind = .emitter e) : GQ (eLoop s ti e) := by
  have hT := hQ.thr ti t ht
  have hi : t.iter = none := hT.iter_none (by have := hT.epcE e hk; cases hp : t.pc <;> simp [hp, epc, cbPc] at this ⊢)
    (by have := hT.epcE e hk; cases hp : t.pc <;> simp [hp, epc] at this ⊢)
  have hG := hQ.open ti
  have mk : ∀ pc, epc pc = true → TG s { t with pc := pc } := by
    intro pc hp
    refine ⟨?_, ?_, ?_, ?_, ?_, ?_⟩
    · rintro (h | h)
      · simp [hi] at h
      · cases pc <;> simp [isDpc, epc] at h hp
    · intro h; simp [hi] at h
    · intro _ _; exact hp
    · intro w e' h; cases pc <;> simp [epc] at h hp
    · intro es fs h; cases pc <;> simp [epc] at h hp
    · intro h0 w e' h; cases pc <;> simp [epc] at h hp
  unfold WD.Obs.eLoop
  split
  · exact hQ
  · split
    · exact hG.closeUpd ht _ rfl (mk .done rfl)
    · split
      · exact hG.closeUpd ht _ rfl (mk .eWait rfl)
      · exact hG.closeUpd ht _ rfl (mk .eEmit rfl)

theorem GX.toQ {s : State} {ti : Nat} {t : Thread} (hG : GX s ti) (ht : s.thread? ti = some t) (hT : TG s t) : GQ s :=
  hG.closeSame ht hT

theorem GQ.stepX {s s' : State} {ti : Nat} (hQ : LQ s) (hQg : GQ s) (h : stepX s ti = some s') : GQ s' := by
  have A := allG FUEL
  have D := gpass_d ti FUEL
  unfold WD.ProofsObs.stepX at h
  generalize FUEL = F at A D h
  split at h
  · cases h
  · rename_i hen
    split at h
    · cases h
    · rename_i t ht
      have hT := hQ.thr ti t ht
      have hTg := hQg.thr ti t ht
      have hO := hQ.open ht
      have hG := hQg.open ti
      split at h
      · -- begin
        rename_i hpc
        have hp : holdsPc t.pc = false := by rw [hpc]; rfl
        rw [depth_of_not_holds hp] at hO
        split at h
        · rename_i hk
          exact A.nxt _ _ _ _ h ht hO ⟨fun e he => (by rw [hk] at he; cases he), fun hi => hTg.disp (Or.inl hi)⟩ hG
        · rename_i hk
          exact D.1 _ _ _ h ht hk (hTg.iter_none (by rw [hpc]; rfl) (by rw [hpc]; simp)) hG
        · rename_i e hk
          cases h; exact hQg.eLoop ht e hk
      · -- acq
        rename_i op hpc
        have hn : s.lockOwner = none := by
          simp [enabled, ht, hpc] at hen
          cases ho : s.lockOwner <;> simp_all
        have hc : t.cur = some op := by have := hT.cur; rw [hpc] at this; exact this
        have hi := hQ.idepth_zero_of_free ht hn
        refine A.lck _ _ _ _ _ h ht hc ?_ (hTg.tm (by rw [hpc]; rfl)) (hG.frame rfl rfl rfl (fun _ h => Or.inl h))
        rw [hi]; exact hQ.take ti hn
      · -- schedStarted
        rename_i h0 w e hpc
        have hp : holdsPc t.pc = true := by rw [hpc]; rfl
        rw [depth_of_holds hp] at hO
        have hc := hT.cur; rw [hpc] at hc
        exact A.sfin _ _ _ _ _ _ _ h ht hc hO (hTg.tm (by rw [hpc]; rfl)) hG (hTg.sched h0 w e hpc)
      · -- unschedJoin
        rename_i w e hpc
        have hp : holdsPc t.pc = true := by rw [hpc]; rfl
        rw [depth_of_holds hp] at hO
        have hc := hT.cur; rw [hpc] at hc
        exact A.ufin _ _ _ _ _ h ht hc.1 hc.2 hO (hTg.tm (by rw [hpc]; rfl)) hG
      · -- uallJoin (e :: rest)
        rename_i e rest b hpc
        have hp : holdsPc t.pc = true := by rw [hpc]; rfl
        rw [depth_of_holds hp] at hO
        have hc := hT.cur; rw [hpc] at hc
        exact A.uajn _ _ _ _ _ _ h ht hc.1 hc.2 hO (hTg.tm (by rw [hpc]; rfl)) hG
          (fun x hx => hTg.joinA _ _ hpc x (List.mem_cons_of_mem _ hx))
      · -- uallJoin []
        rename_i b hpc
        have hp : holdsPc t.pc = true := by rw [hpc]; rfl
        rw [depth_of_holds hp] at hO
        have hc := hT.cur; rw [hpc] at hc
        exact A.uajn _ _ _ _ _ _ h ht hc.1 hc.2 hO (hTg.tm (by rw [hpc]; rfl)) hG (fun x hx => by cases hx)
      · -- startEm
        rename_i es hpc
        have hp : holdsPc t.pc = false := by rw [hpc]; rfl
        rw [depth_of_not_holds hp] at hO
        have hc := hT.cur; rw [hpc] at hc
        exact A.stem _ _ _ _ _ h ht hc hO (hTg.tm (by rw [hpc]; rfl)) hG
      · -- startD
        rename_i hpc
        have hp : holdsPc t.pc = false := by rw [hpc]; rfl
        rw [depth_of_not_holds hp] at hO
        have hc := hT.cur; rw [hpc] at hc
        refine A.fin _ _ _ _ _ h ht hO ?_ (hTg.tm (by rw [hpc]; rfl)) hG
        intro _ op' hc' h' w' hr
        have hc2 : t.cur = some Op.start := hc
        rw [hc2] at hc'; cases hc'; simp [removes] at hr
      · -- joinD
        rename_i hpc
        have hp : holdsPc t.pc = false := by rw [hpc]; rfl
        rw [depth_of_not_holds hp] at hO
        have hc := hT.cur; rw [hpc] at hc
        refine A.fin _ _ _ _ _ h ht hO ?_ (hTg.tm (by rw [hpc]; rfl)) hG
        intro _ op' hc' h' w' hr
        have hc2 : t.cur = some Op.join := hc
        rw [hc2] at hc'; cases hc'; simp [removes] at hr
      · -- dWait
        rename_i hpc
        have ht2 := updThread_thread? (s := s) ti (fun t => { t with notified := false }) ht
        simp only [if_true] at ht2
        exact D.2 _ _ _ h ht2 (hTg.disp (Or.inr (by rw [hpc]; rfl))) (hTg.iter_none (by rw [hpc]; rfl) (by rw [hpc]; simp))
          (hG.updThread_same ti _ (fun t => ⟨rfl, rfl, rfl⟩))
      · -- dLock
        rename_i u w v hpc
        try simp only [] at h
        have hk : t.kind = .dispatcher := hTg.disp (Or.inr (by rw [hpc]; rfl))
        have hn : s.lockOwner = none := by
          simp [enabled, ht, hpc] at hen
          cases ho : s.lockOwner <;> simp_all
        have hL2 : LX (if (alookup w s.handlers).isNone then ({ s with lockOwner := some ti, lockCount := 1, handlers := ainsert w [] s.handlers } : State) else { s with lockOwner := some ti, lockCount := 1 }) ti 1 := by
          split
          · exact (hQ.take ti hn).frame rfl rfl rfl rfl
          · exact hQ.take ti hn
        have hG2 : GX (if (alookup w s.handlers).isNone then ({ s with lockOwner := some ti, lockCount := 1, handlers := ainsert w [] s.handlers } : State) else { s with lockOwner := some ti, lockCount := 1 }) ti := by
          split
          · exact hG.frame rfl rfl rfl (fun _ h => Or.inl h)
          · exact hG.frame rfl rfl rfl (fun _ h => Or.inl h)
        have ht2 : (if (alookup w s.handlers).isNone then ({ s with lockOwner := some ti, lockCount := 1, handlers := ainsert w [] s.handlers } : State) else { s with lockOwner := some ti, lockCount := 1 }).thread? ti = some t := by
          split <;> exact ht
        generalize (if (alookup w s.handlers).isNone then ({ s with lockOwner := some ti, lockCount := 1, handlers := ainsert w [] s.handlers } : State) else { s with lockOwner := some ti, lockCount := 1 }) = s2 at h hL2 ht2 hG2
        have ht3 : (s2.log (.dispatch u w (s2.handlersOf w))).thread? ti = some t := by rw [log_thread?]; exact ht2
        rw [updThread_of_some _ ht3] at h
        refine A.cit _ _ _ _ h (setThread_thread?_self _ ht3) ?_ ?_ ?_
        · exact (hL2.log (.dispatch u w (s2.handlersOf w)) trivial (Or.inl rfl)).setThreadMine _
        · exact ⟨fun e he => by simp [hk] at he, fun _ => hk⟩
        · exact (hG2.log _).setThreadMine (t := t) ht3 _ rfl
      · -- eEmit
        rename_i hpc
        split at h
        · split at h
          · split at h
            · cases h
              rename_i _ e _ _ o _ _ v rest _
              have hk : t.kind = .emitter e := by assumption
              have ht1 : (s.updEm e (fun o => { o with script := rest })).thread? ti = some t := by rw [updEm_thread?]; exact ht
              obtain ⟨t', ht', e1, e2, e3, e4⟩ := putItem_thread? (fun u => QItem.ev u o.wid v) (fun u => Obs.enq o.wid v u) (Obs.drop o.wid v) ht1
              have hG1 := (hG.updEm e (fun o => { o with script := rest }) (fun o h => h) (fun o => rfl)).putItem
                (fun u => QItem.ev u o.wid v) (fun u => Obs.enq o.wid v u) (Obs.drop o.wid v)
              have hTg1 : TG ((s.updEm e (fun o => { o with script := rest })).putItem (fun u => QItem.ev u o.wid v) (fun u => Obs.enq o.wid v u) (Obs.drop o.wid v)) t' :=
                ((hTg.of_same e1 e2 e4).mono (EmMono.updEm s e (fun o => { o with script := rest }) (fun o h => h)) (KP.of_eq (updEm_threads _ _ _))).mono (EmMono.of_eq (putItem_emObjs _ _ _ _)) (KP.putItem _ _ _ _)
              exact (hG1.toQ ht' hTg1).eLoop ht' e (e4.trans hk)
            · cases h
              rename_i _ e hk _ _ _ _ _
              exact hQg.eLoop ht e hk
          · cases h
        · cases h
      · -- eWait
        split at h
        · rename_i e hk
          cases h; exact hQg.eLoop ht e hk
        · cases h
      · cases h

end WD.ProofsObs

namespace WD.ProofsObs
open WD WD.Obs

theorem GQ.init (clients : List (List Op)) (cbs : List (Hid × List (List Op))) (emit : List (Wid × List Nat)) :
    GQ (init clients cbs emit) := by
  have key : ∀ (j : Nat) (t : Thread), (WD.Obs.init clients cbs emit).threads[j]? = some t →
      t.pc = .begin ∧ t.iter = none ∧ t.kind = .client := by
    intro j t hj
    simp only [WD.Obs.init, List.getElem?_map] at hj
    cases hz : (clients.zipIdx)[j]? with
    | none => simp [hz] at hj
    | some x => simp [hz] at hj; subst hj; exact ⟨rfl, rfl, rfl⟩
  constructor
  · constructor
    · intro e o ei h; simp [WD.Obs.init, State.em?] at h
    · intro d h; simp [WD.Obs.init] at h
    · intro e h; simp [WD.Obs.init] at h
  · intro j t hj
    obtain ⟨h1, h2, h3⟩ := key j t hj
    refine ⟨?_, ?_, ?_, ?_, ?_, ?_⟩ <;> simp [h1, h2, h3, isDpc, epc]

/-- both invariants hold along every schedule all of whose steps complete -/
theorem lgq_reach (clients : List (List Op)) (cbs : List (Hid × List (List Op))) (emit : List (Wid × List Nat))
    (sched : List Nat) (hok : runOk (init clients cbs emit) sched = true) :
    LQ (run (init clients cbs emit) sched) ∧ GQ (run (init clients cbs emit) sched) :=
  run_induction (P := fun s => LQ s ∧ GQ s) (fun s s' ti hP h => ⟨LQ.stepX hP.1 h, GQ.stepX hP.1 hP.2 h⟩) sched _
    ⟨LQ.init clients cbs emit, GQ.init clients cbs emit⟩ hok

/-- nothing can run -/
def Quiescent (s : State) : Prop := ∀ ti, enabled s ti = false

/-- the pcs at which a thread may be left when nothing can run: ended, or in one of the three idle waits -/
def idlePc : Pc → Bool
  | .done | .joinD | .dWait | .eWait => true
  | _ => false

/-- a stopped emitter that somebody joins has ended, if nothing can run -/
theorem joined_emitter_done {s : State} (hG : GQ s) (hq : Quiescent s) {e : Eid} (hs : Stopped s e) {ei : Nat}
    (hti : (s.em? e).bind (·.tidx) = some ei) : s.threadDone ei = true := by
  obtain ⟨o, ho, hst⟩ := hs
  rw [ho] at hti
  simp only [Option.bind_some] at hti
  obtain ⟨t, ht, hk⟩ := hG.sg.em e o ei ho hti
  have hp := (hG.thr ei t ht).epcE e hk
  have hen := hq ei
  have ht' : s.thread? ei = some t := ht
  cases hpc : t.pc <;> simp [hpc, epc] at hp
  · simp [enabled, ht', hpc] at hen
  · simp [enabled, ht', hpc] at hen
  · simp [enabled, ht', hpc, hk, ho, hst] at hen
  · simp [State.threadDone, ht', hpc]

/-- a thread that holds the lock can run, if anything is to run at all: it is never stuck behind someone else -/
theorem owner_not_stuck {s : State} (hL : LQ s) (hG : GQ s) (h2 : ¬ TwoD s) (hq : Quiescent s) : s.lockOwner = none := by
  cases ho : s.lockOwner with
  | none => rfl
  | some o =>
    exfalso
    obtain ⟨t, ht, hd⟩ := hL.own o ho
    have ht' : s.thread? o = some t := ht
    have hT := hG.thr o t ht
    have hen := hq o
    cases hpc : t.pc with
    | schedStarted h w e => simp [enabled, ht', hpc] at hen
    | unschedJoin w e =>
      have hs := hT.joinU w e hpc
      cases hti : (s.em? e).bind (·.tidx) with
      | none => simp [enabled, ht', hpc, hti] at hen
      | some ei =>
        have := joined_emitter_done hG hq hs hti
        simp [enabled, ht', hpc, hti, this] at hen
    | uallJoin es fs =>
      cases es with
      | nil => simp [enabled, ht', hpc] at hen
      | cons e rest =>
        have hs := hT.joinA _ _ hpc e (List.mem_cons_self ..)
        cases hti : (s.em? e).bind (·.tidx) with
        | none => simp [enabled, ht', hpc, hti] at hen
        | some ei =>
          have := joined_emitter_done hG hq hs hti
          simp [enabled, ht', hpc, hti, this] at hen
    | _ =>
      -- not at a pc that holds the lock by itself: a callback is running
      have hi : t.iter.isSome = true := by
        cases hit : t.iter with
        | some x => rfl
        | none => simp [depth, idepth, hit, holdsPc, hpc] at hd
      rcases hT.cb hi with h1 | h1
      · simp [hpc, cbPc] at h1 <;> simp [enabled, ht', hpc] at hen
      · exact h2 h1.2

/-- C06, no deadlock: in a state in which nothing can run, every thread has ended or sits in one of the three idle
    waits — `observer.join()`, the dispatcher's `queue.get()`, an emitter's wait for its stop flag.  Nobody is left
    waiting for the lock or inside `emitter.join()` -/
theorem quiescent_idle {s : State} (hL : LQ s) (hG : GQ s) (h2 : ¬ TwoD s) (hq : Quiescent s) (ti : Nat) (t : Thread)
    (ht : s.thread? ti = some t) : idlePc t.pc = true := by
  have hfree := owner_not_stuck hL hG h2 hq
  have hen := hq ti
  have hT := hG.thr ti t ht
  cases hpc : t.pc with
  | done => rfl
  | joinD => rfl
  | dWait => rfl
  | eWait => rfl
  | acq op => simp [enabled, ht, hpc, hfree] at hen
  | dLock u w v => simp [enabled, ht, hpc, hfree] at hen
  | unschedJoin w e =>
    have hs := hT.joinU w e hpc
    cases hti : (s.em? e).bind (·.tidx) with
    | none => simp [enabled, ht, hpc, hti] at hen
    | some ei =>
      have := joined_emitter_done hG hq hs hti
      simp [enabled, ht, hpc, hti, this] at hen
  | uallJoin es fs =>
    cases es with
    | nil => simp [enabled, ht, hpc] at hen
    | cons e rest =>
      have hs := hT.joinA _ _ hpc e (List.mem_cons_self ..)
      cases hti : (s.em? e).bind (·.tidx) with
      | none => simp [enabled, ht, hpc, hti] at hen
      | some ei =>
        have := joined_emitter_done hG hq hs hti
        simp [enabled, ht, hpc, hti, this] at hen
  | _ => simp [enabled, ht, hpc] at hen

end WD.ProofsObs
