/- `SI` (one starting client ⇒ one dispatcher) is preserved by every completed step, hence holds along every run -/
import WD.Proofs.Observer.SPass
set_option linter.unusedSimpArgs false
set_option linter.unusedVariables false
namespace WD.ProofsObs
open WD WD.Obs

theorem SI.closeThread {c : Nat} {s : State} {ti : Nat} {t : Thread} {x : Option Nat} (hS : SI c s x)
    (ht : s.threads[ti]? = some t) (t' : Thread) (h1 : sem t'.pc = false) (h2 : dpc t'.pc = false)
    (h3 : t'.kind = t.kind) (h4 : t'.iter = t.iter ∨ t'.iter = none) (h5 : ∀ o ∈ t'.ops, o ∈ t.ops) :
    SI c (s.setThread ti t') none := by
  refine (hS.setThread ht t' h3 (by rw [h1]; intro h; cases h) (fun _ hm => h5 _ hm) ?_).toNone
  have := hS.kd ti t ht
  unfold KD at this ⊢
  rw [h2, h3]
  intro h
  rcases h with h | h
  · rcases h4 with e | e
    · exact this (Or.inl (by rw [← e]; exact h))
    · rw [e] at h; cases h
  · cases h

/-- the dispatcher thread's precondition for its loop head -/
def SD (c : Nat) (s : State) (ti : Nat) : Prop :=
  SI c s (some ti) ∧ ∀ t, s.threads[ti]? = some t → t.kind = .dispatcher

theorem spass_d (c ti : Nat) : ∀ fuel,
    (∀ s s', dLoopX fuel s ti = some s' → SD c s ti → SI c s' none) ∧
    (∀ s s', dGetX fuel s ti = some s' → SD c s ti → SI c s' none) := by
  intro fuel
  induction fuel with
  | zero =>
    refine ⟨?_, ?_⟩
    · intro s s' h; rw [dLoopX.eq_1] at h; cases h
    · intro s s' h; rw [dGetX.eq_1] at h; cases h
  | succ n ih =>
    refine ⟨?_, ?_⟩
    · intro s s' h hD
      unfold dLoopX at h
      try simp only [] at h
      split at h
      · cases h
        exact hD.1.closeUpd _ (fun t => rfl) (fun t => rfl) (fun t => rfl) (fun t => Or.inl rfl) (fun t o h => h)
      · exact ih.2 _ _ h hD
    · intro s s' h hD
      unfold dGetX at h
      try simp only [] at h
      split at h
      · cases h
        refine SI.toNone (x := some ti) ?_
        exact hD.1.updThreadD hD.2 _ (fun t => rfl) (fun t => rfl)
      · rename_i item rest hq
        have hD1 : SD c ({ s with queue := rest, last := (match s.last with | some l => if item.same l then none else some l | none => none) } : State) ti :=
          ⟨hD.1.frame rfl rfl, hD.2⟩
        split at h
        · exact ih.1 _ _ h hD1
        · cases h
          refine SI.toNone (x := some ti) ?_
          exact hD1.1.updThreadD hD1.2 _ (fun t => rfl) (fun t => rfl)

structure AllS (c : Nat) (fuel : Nat) : Prop where
  fin : ∀ s ti res s', finishOpX fuel s ti res = some s' → SI c s (some ti) → SI c s' none
  nxt : ∀ s ti s', nextOpX fuel s ti = some s' → SI c s (some ti) → SI c s' none
  sta : ∀ s ti op s', startOpX fuel s ti op = some s' → SI c s (some ti) →
    (op = .start → s.dIdx = none → ti = c) → SI c s' none
  ent : ∀ s ti op s', enterLockedX fuel s ti op = some s' → SI c s (some ti) → SI c s' none
  lck : ∀ s ti op s', lockedX fuel s ti op = some s' → SI c s (some ti) → SI c s' none
  sfin : ∀ s ti h w e s', schedFinishX fuel s ti h w e = some s' → SI c s (some ti) → SI c s' none
  ufin : ∀ s ti w s', unschedFinishX fuel s ti w = some s' → SI c s (some ti) → SI c s' none
  uab : ∀ s ti b s', uallBodyX fuel s ti b = some s' → SI c s (some ti) → SI c s' none
  uajn : ∀ s ti es b s', uallJoinNextX fuel s ti es b = some s' → SI c s (some ti) → SI c s' none
  cit : ∀ s ti s', continueIterX fuel s ti = some s' → SI c s (some ti) → SI c s' none

theorem allS (c : Nat) : ∀ fuel, AllS c fuel := by
  intro fuel
  induction fuel with
  | zero =>
    constructor <;> intros <;> simp_all [finishOpX.eq_1, nextOpX.eq_1, startOpX.eq_1, enterLockedX.eq_1, lockedX.eq_1,
      schedFinishX.eq_1, unschedFinishX.eq_1, uallBodyX.eq_1, uallJoinNextX.eq_1, continueIterX.eq_1]
  | succ n ih =>
    constructor
    · -- finishOp
      intro s ti res s' h hC
      unfold finishOpX at h
      try simp only [] at h
      split at h
      · cases h
      · rename_i t ht
        refine ih.nxt _ _ _ h ?_
        cases hc : t.cur with
        | none => exact (hC.log (.ret t.label t.idx res)).setThreadSame ht _ rfl rfl rfl (fun _ h => h)
        | some op => exact ((hC.log (.did op res)).log (.ret t.label t.idx res)).setThreadSame ht _ rfl rfl rfl (fun _ h => h)
    · -- nextOp
      intro s ti s' h hC
      unfold nextOpX at h
      try simp only [] at h
      split at h
      · cases h
      · rename_i t ht
        split at h
        · rename_i op rest hops
          refine ih.sta _ _ _ _ h (hC.setThreadSame ht _ rfl rfl rfl (fun o ho => by rw [hops]; exact List.mem_cons_of_mem _ ho)) ?_
          intro hop hd
          have hd' : s.dIdx = none := hd
          exact hC.a ti t ht (hC.c hd' ti t ht) (by rw [hops, hop]; exact List.mem_cons_self)
        · split at h
          · exact ih.cit _ _ _ h hC
          · cases h
            exact hC.closeThread ht _ rfl rfl rfl (Or.inl rfl) (fun _ h => h)
    · -- startOp
      intro s ti op s' h hC hst
      unfold startOpX at h
      try simp only [] at h
      split at h
      · split at h
        · exact ih.fin _ _ _ _ h hC
        · rename_i hns
          have hd : s.dIdx = none := by
            cases hz : s.dIdx with
            | none => rfl
            | some d => rw [hz] at hns; simp at hns
          exact SI.stem hC.toNone (hst rfl hd) hd h
      · split at h
        · exact ih.fin _ _ _ _ h hC
        · split at h
          · exact ih.fin _ _ _ _ h hC
          · cases h
            exact hC.closeUpd _ (fun t => rfl) (fun t => rfl) (fun t => rfl) (fun t => Or.inl rfl) (fun t o h => h)
      · exact ih.ent _ _ _ _ h (hC.frame rfl rfl)
      · split at h
        · cases h
          rename_i t ht
          have hC1 : SI c (if s.lockOwner = some ti then ({ s with lockOwner := none, lockCount := 0 } : State) else s) (some ti) := by
            split
            · exact hC.frame rfl rfl
            · exact hC
          have ht1 : (if s.lockOwner = some ti then ({ s with lockOwner := none, lockCount := 0 } : State) else s).threads[ti]? = some t := by
            split <;> exact ht
          generalize (if s.lockOwner = some ti then ({ s with lockOwner := none, lockCount := 0 } : State) else s) = s1 at hC1 ht1
          exact (hC1.log (.died t.name)).closeThread ht1 _ rfl rfl rfl (Or.inr rfl) (fun _ h => by cases h)
        · cases h
      · exact ih.ent _ _ _ _ h hC
    · -- enterLocked
      intro s ti op s' h hC
      unfold enterLockedX at h
      try simp only [] at h
      split at h
      · exact ih.lck _ _ _ _ h (hC.frame rfl rfl)
      · cases h
        exact hC.closeUpd _ (fun t => rfl) (fun t => rfl) (fun t => rfl) (fun t => Or.inl rfl) (fun t o h => h)
    · -- locked
      intro s ti op s' h hC
      unfold lockedX at h
      try simp only [] at h
      split at h
      · rename_i h0 w fault
        split at h
        · refine ih.fin _ _ _ _ h ?_
          apply SI.release
          exact hC.frame rfl rfl
        · split at h
          · exact ih.fin _ _ _ _ h hC.release
          · have hC1 : SI c ({ s with emObjs := s.emObjs ++ [({ wid := w, script := (alookup w s.emitScripts).getD [] } : EmObj)] } : State) (some ti) :=
              hC.frame rfl rfl
            split at h
            · split at h
              · exact ih.fin _ _ _ _ h hC1.release
              · cases h
                exact SI.closeUpd (SI.updEm (hC1.spawnE _ _) _ _) _ (fun t => rfl) (fun t => rfl) (fun t => rfl) (fun t => Or.inl rfl) (fun t o h => h)
            · exact ih.sfin _ _ _ _ _ _ h hC1
      · rename_i w
        split at h
        · exact ih.fin _ _ _ _ h hC.release
        · split at h
          · exact ih.fin _ _ _ _ h hC.release
          · rename_i e he hnone
            have hC2 : SI c ((({ s with handlers := aerase w s.handlers, regEm := s.regEm.filter (· != e) } : State).log (.unregW w)).updEm e (fun o => { o with stopped := true })) (some ti) :=
              SI.updEm (SI.log (hC.frame (s' := { s with handlers := aerase w s.handlers, regEm := s.regEm.filter (· != e) }) rfl rfl) _) _ _
            split at h
            · cases h
              exact hC2.closeUpd _ (fun t => rfl) (fun t => rfl) (fun t => rfl) (fun t => Or.inl rfl) (fun t o h => h)
            · exact ih.ufin _ _ _ _ h hC2
      · rename_i h0 w
        refine ih.fin _ _ _ _ h ?_
        apply SI.release
        exact hC.frame rfl rfl
      · rename_i h0 w
        split at h
        · refine ih.fin _ _ _ _ h ?_
          apply SI.release
          exact hC.frame rfl rfl
        · refine ih.fin _ _ _ _ h ?_
          apply SI.release
          exact hC.frame rfl rfl
      · exact ih.uab _ _ _ _ h hC
      · exact ih.uab _ _ _ _ h hC
      · cases h
    · -- schedFinish
      intro s ti h0 w e s' h hC
      unfold schedFinishX at h
      try simp only [] at h
      refine ih.fin _ _ _ _ h ?_
      apply SI.release
      exact hC.frame rfl rfl
    · -- unschedFinish
      intro s ti w s' h hC
      unfold unschedFinishX at h
      try simp only [] at h
      split at h
      · refine ih.fin _ _ _ _ h ?_
        apply SI.release
        exact hC.frame rfl rfl
      · exact ih.fin _ _ _ _ h hC.release
    · -- uallBody
      intro s ti b s' h hC
      unfold uallBodyX at h
      try simp only [] at h
      refine ih.uajn _ _ _ _ _ h ?_
      apply SI.foldUpdEm
      exact hC.frame rfl rfl
    · -- uallJoinNext
      intro s ti es b s' h hC
      unfold uallJoinNextX at h
      try simp only [] at h
      split at h
      · split at h
        · cases h
          exact hC.closeUpd _ (fun t => rfl) (fun t => rfl) (fun t => rfl) (fun t => Or.inl rfl) (fun t o h => h)
        · exact ih.uajn _ _ _ _ _ h hC
      · have hC1 : SI c ({ s with regEm := [], watches := [] } : State).release (some ti) :=
          SI.release (hC.frame rfl rfl)
        split at h
        · refine ih.fin _ _ _ _ h ?_
          exact hC1.putItem _ _ _
        · exact ih.fin _ _ _ _ h hC1
    · -- continueIter
      intro s ti s' h hC
      unfold continueIterX at h
      try simp only [] at h
      split at h
      · cases h
      · rename_i t ht
        split at h
        · cases h
        · rename_i u w v hit
          have hkt : t.kind = .dispatcher := hC.kd ti t ht (Or.inl (by rw [hit]; rfl))
          refine (spass_d c ti n).1 _ _ h ⟨?_, ?_⟩
          · apply SI.release
            exact (hC.log (.dispatchEnd u)).setThreadD ht hkt _ rfl id
          · intro t2 ht2
            have ht2' : ((s.log (.dispatchEnd u)).setThread ti { t with iter := none }).release.thread? ti = some t2 := ht2
            rw [release_thread?, setThread_thread?_self _ (by simpa using ht)] at ht2'
            cases ht2'; exact hkt
        · rename_i u w v h0 rest hit
          have hkt : t.kind = .dispatcher := hC.kd ti t ht (Or.inl (by rw [hit]; rfl))
          have hC0 : SI c (if (alookup w s.handlers).isNone then ({ s with handlers := ainsert w [] s.handlers } : State) else s) (some ti) := by
            split
            · exact hC.frame rfl rfl
            · exact hC
          have ht0 : (if (alookup w s.handlers).isNone then ({ s with handlers := ainsert w [] s.handlers } : State) else s).threads[ti]? = some t := by
            split <;> exact ht
          generalize (if (alookup w s.handlers).isNone then ({ s with handlers := ainsert w [] s.handlers } : State) else s) = s0 at h hC0 ht0
          split at h
          · refine ih.nxt _ _ _ h ?_
            have hC0' : SI c ({ s0 with invoc := ainsert h0 ((alookup h0 s0.invoc).getD 0 + 1) s0.invoc } : State) (some ti) :=
              hC0.frame rfl rfl
            exact (hC0'.log (.call h0 w v u)).setThreadD ht0 hkt _ rfl id
          · refine ih.cit _ _ _ h ?_
            exact (hC0.log (.skip h0 u)).setThreadD ht0 hkt _ rfl id

theorem SI.eLoop {c : Nat} {s : State} (hS : SI c s none) (ti : Nat) (e : Eid) : SI c (eLoop s ti e) none := by
  unfold WD.Obs.eLoop
  split
  · exact hS
  · split
    · exact hS.closeUpd _ (fun t => rfl) (fun t => rfl) (fun t => rfl) (fun t => Or.inl rfl) (fun t o h => h)
    · split
      · exact hS.closeUpd _ (fun t => rfl) (fun t => rfl) (fun t => rfl) (fun t => Or.inl rfl) (fun t o h => h)
      · exact hS.closeUpd _ (fun t => rfl) (fun t => rfl) (fun t => rfl) (fun t => Or.inl rfl) (fun t o h => h)

theorem SI.stepX {c : Nat} {s s' : State} {ti : Nat} (hS : SI c s none) (h : stepX s ti = some s') : SI c s' none := by
  have A := allS c FUEL
  have D := spass_d c ti FUEL
  unfold WD.ProofsObs.stepX at h
  generalize FUEL = F at A D h
  split at h
  · cases h
  · split at h
    · cases h
    · rename_i t ht
      have ht' : s.threads[ti]? = some t := ht
      have hW : sem t.pc = false → SI c s (some ti) := fun hp => hS.weaken ti (fun t2 ht2 => by rw [ht'] at ht2; cases ht2; exact hp)
      split at h
      · rename_i hpc
        have hW' := hW (by rw [hpc]; rfl)
        split at h
        · exact A.nxt _ _ _ h hW'
        · rename_i hk
          exact D.1 _ _ h ⟨hW', fun t2 ht2 => by rw [ht'] at ht2; cases ht2; exact hk⟩
        · cases h; exact hS.eLoop _ _
      · rename_i op hpc
        exact A.lck _ _ _ _ h ((hW (by rw [hpc]; rfl)).frame rfl rfl)
      · rename_i hpc; exact A.sfin _ _ _ _ _ _ h (hW (by rw [hpc]; rfl))
      · rename_i hpc; exact A.ufin _ _ _ _ h (hW (by rw [hpc]; rfl))
      · rename_i hpc; exact A.uajn _ _ _ _ _ h (hW (by rw [hpc]; rfl))
      · rename_i hpc; exact A.uajn _ _ _ _ _ h (hW (by rw [hpc]; rfl))
      · rename_i es hpc
        obtain ⟨h1, h2⟩ := hS.b ti t ht' (by rw [hpc]; rfl)
        exact SI.stem hS h1 h2 h
      · rename_i hpc; exact A.fin _ _ _ _ h (hW (by rw [hpc]; rfl))
      · rename_i hpc; exact A.fin _ _ _ _ h (hW (by rw [hpc]; rfl))
      · rename_i hpc
        have hW' := hW (by rw [hpc]; rfl)
        have hkt : t.kind = .dispatcher := hS.kd ti t ht' (Or.inr (by rw [hpc]; rfl))
        refine D.2 _ _ h ⟨?_, ?_⟩
        · rw [updThread_of_some _ ht]
          exact hW'.setThreadSame ht' _ rfl rfl rfl (fun _ h => h)
        · intro t2 ht2
          have ht2' : (s.updThread ti (fun t => { t with notified := false })).thread? ti = some t2 := ht2
          rw [updThread_thread? _ _ ht] at ht2'
          simp only [if_true] at ht2'
          cases ht2'; exact hkt
      · rename_i u w v hpc
        try simp only [] at h
        have hW' := hW (by rw [hpc]; rfl)
        have hkt : t.kind = .dispatcher := hS.kd ti t ht' (Or.inr (by rw [hpc]; rfl))
        have hC2 : SI c (if (alookup w s.handlers).isNone then ({ s with lockOwner := some ti, lockCount := 1, handlers := ainsert w [] s.handlers } : State) else { s with lockOwner := some ti, lockCount := 1 }) (some ti) := by
          split
          · exact hW'.frame rfl rfl
          · exact hW'.frame rfl rfl
        have ht2 : (if (alookup w s.handlers).isNone then ({ s with lockOwner := some ti, lockCount := 1, handlers := ainsert w [] s.handlers } : State) else { s with lockOwner := some ti, lockCount := 1 }).thread? ti = some t := by
          split <;> exact ht
        generalize (if (alookup w s.handlers).isNone then ({ s with lockOwner := some ti, lockCount := 1, handlers := ainsert w [] s.handlers } : State) else { s with lockOwner := some ti, lockCount := 1 }) = s2 at h hC2 ht2
        have ht3 : (s2.log (.dispatch u w (s2.handlersOf w))).thread? ti = some t := by rw [log_thread?]; exact ht2
        rw [updThread_of_some _ ht3] at h
        refine A.cit _ _ _ h ?_
        exact (hC2.log _).setThreadD ht2 hkt _ rfl id
      · split at h
        · split at h
          · split at h
            · cases h
              apply SI.eLoop
              exact (hS.updEm _ _).putItem _ _ _
            · cases h; exact hS.eLoop _ _
          · cases h
        · cases h
      · split at h
        · cases h; exact hS.eLoop _ _
        · cases h
      · cases h

theorem SI.init (clients : List (List Op)) (cbs : List (Hid × List (List Op))) (emit : List (Wid × List Nat)) (c : Nat)
    (hc : ∀ (i : Nat) (ops : List Op), clients[i]? = some ops → Op.start ∈ ops → i = c) :
    SI c (init clients cbs emit) none := by
  have key : ∀ (j : Nat) (t : Thread), (WD.Obs.init clients cbs emit).threads[j]? = some t →
      t.pc = .begin ∧ t.iter = none ∧ t.kind = .client ∧ clients[j]? = some t.ops := by
    intro j t hj
    simp only [WD.Obs.init, List.getElem?_map] at hj
    cases hz : (clients.zipIdx)[j]? with
    | none => simp [hz] at hj
    | some x =>
      simp [hz] at hj; subst hj
      refine ⟨rfl, rfl, rfl, ?_⟩
      rw [List.getElem?_zipIdx] at hz
      cases hq : clients[j]? with
      | none => simp [hq] at hz
      | some o => simp [hq] at hz; rw [← hz]
  constructor
  · intro j t hj _ hm
    exact hc j t.ops (key j t hj).2.2.2 hm
  · intro j t hj hp
    rw [(key j t hj).1] at hp; cases hp
  · intro _ j t hj
    rw [(key j t hj).2.2.1]; intro h; cases h
  · intro i j hi hj
    exfalso
    simp only [kinds, List.getElem?_map] at hi
    cases hz : (WD.Obs.init clients cbs emit).threads[i]? with
    | none => simp [hz] at hi
    | some u => simp [hz] at hi; rw [(key i u hz).2.2.1] at hi; cases hi
  · intro j t hx; cases hx
  · intro j t hj hh
    rw [(key j t hj).1, (key j t hj).2.1] at hh; simp [dpc] at hh

/-- `start()` in the script of at most one client (callbacks may contain it too): at most one dispatcher thread, along
    every schedule all of whose steps complete -/
theorem oneD_of_single_starter (clients : List (List Op)) (cbs : List (Hid × List (List Op)))
    (emit : List (Wid × List Nat)) (sched : List Nat) (c : Nat)
    (hc : ∀ (i : Nat) (ops : List Op), clients[i]? = some ops → Op.start ∈ ops → i = c)
    (hok : runOk (init clients cbs emit) sched = true) : oneD (run (init clients cbs emit) sched) :=
  (run_induction (P := fun s => SI c s none) (fun s s' ti hP h => SI.stepX hP h) sched _
    (SI.init clients cbs emit c hc) hok).d

theorem exists_two_of_filter {α : Type} (p : α → Bool) : ∀ (l : List α), 2 ≤ (l.filter p).length →
    ∃ (i j : Nat) (a b : α), i < j ∧ l[i]? = some a ∧ l[j]? = some b ∧ p a = true ∧ p b = true := by
  intro l
  induction l with
  | nil => intro h; simp at h
  | cons x xs ih =>
    intro h
    simp only [List.filter_cons] at h
    by_cases hx : p x = true
    · simp only [hx, if_true, List.length_cons] at h
      have hpos : 0 < (xs.filter p).length := by omega
      obtain ⟨b, hb⟩ := List.exists_mem_of_length_pos hpos
      obtain ⟨hbx, hpb⟩ := List.mem_filter.mp hb
      obtain ⟨j, hj⟩ := List.getElem?_of_mem hbx
      exact ⟨0, j + 1, x, b, by omega, rfl, by simpa using hj, hx, hpb⟩
    · simp only [hx, if_false] at h
      obtain ⟨i, j, a, b, hij, ha, hb, pa, pb⟩ := ih (by simpa [hx] using h)
      exact ⟨i + 1, j + 1, a, b, by omega, by simpa using ha, by simpa using hb, pa, pb⟩

/-- the executable form of `oneD` -/
theorem count_of_oneD {s : State} (h : oneD s) : (s.threads.filter (fun t => t.kind == .dispatcher)).length ≤ 1 := by
  apply Classical.byContradiction
  intro hn
  obtain ⟨i, j, a, b, hij, ha, hb, pa, pb⟩ := exists_two_of_filter (fun t => t.kind == .dispatcher) s.threads (by omega)
  have := h i j (by simp [kinds, List.getElem?_map, ha]; simpa using pa) (by simp [kinds, List.getElem?_map, hb]; simpa using pb)
  omega

end WD.ProofsObs
