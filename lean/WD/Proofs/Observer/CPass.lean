/- the dispatch invariant is preserved by every completed step -/
import WD.Proofs.Observer.CInv
set_option linter.unusedSimpArgs false
set_option linter.unusedVariables false
namespace WD.ProofsObs
open WD WD.Obs

theorem cpass_d (ti : Nat) : ∀ fuel,
    (∀ s s', dLoopX fuel s ti = some s' → CX s (some ti) → CX s' none) ∧
    (∀ s s', dGetX fuel s ti = some s' → CX s (some ti) → CX s' none) := by
  intro fuel
  induction fuel with
  | zero =>
    refine ⟨?_, ?_⟩
    · intro s s' h; rw [dLoopX.eq_1] at h; cases h
    · intro s s' h; rw [dGetX.eq_1] at h; cases h
  | succ n ih =>
    refine ⟨?_, ?_⟩
    · intro s s' h hC
      unfold dLoopX at h
      try simp only [] at h
      split at h
      · cases h
        exact hC.closeUpd _ (fun t => rfl) (fun t => Or.inl rfl)
      · exact ih.2 _ _ h hC
    · intro s s' h hC
      unfold dGetX at h
      try simp only [] at h
      split at h
      · cases h
        exact hC.closeUpd _ (fun t => rfl) (fun t => Or.inl rfl)
      · rename_i item rest hq
        split at h
        · exact ih.1 _ _ h (hC.pop hq _)
        · cases h
          exact hC.popEv hq _ _ (fun t => ⟨rfl, rfl⟩)

structure AllC (fuel : Nat) : Prop where
  fin : ∀ s ti res s', finishOpX fuel s ti res = some s' → CX s (some ti) → CX s' none
  nxt : ∀ s ti s', nextOpX fuel s ti = some s' → CX s (some ti) → CX s' none
  sta : ∀ s ti op s', startOpX fuel s ti op = some s' → CX s (some ti) → CX s' none
  ent : ∀ s ti op s', enterLockedX fuel s ti op = some s' → CX s (some ti) → CX s' none
  lck : ∀ s ti op s', lockedX fuel s ti op = some s' → CX s (some ti) → CX s' none
  sfin : ∀ s ti h w e s', schedFinishX fuel s ti h w e = some s' → CX s (some ti) → CX s' none
  ufin : ∀ s ti w s', unschedFinishX fuel s ti w = some s' → CX s (some ti) → CX s' none
  uab : ∀ s ti b s', uallBodyX fuel s ti b = some s' → CX s (some ti) → CX s' none
  uajn : ∀ s ti es b s', uallJoinNextX fuel s ti es b = some s' → CX s (some ti) → CX s' none
  stem : ∀ s ti es s', startEmittersX fuel s ti es = some s' → CX s (some ti) → CX s' none
  cit : ∀ s ti s', continueIterX fuel s ti = some s' → CX s (some ti) → CX s' none

theorem CX.logT {s : State} {x : Option Nat} (hC : CX s x) (o : Obs) (hg : ∀ p, GoodAtC p o)
    (ho : notDisp o = true) : CX (s.log o) x := hC.log o (hg _) ho

theorem allC : ∀ fuel, AllC fuel := by
  intro fuel
  induction fuel with
  | zero =>
    constructor <;> intros <;> simp_all [finishOpX.eq_1, nextOpX.eq_1, startOpX.eq_1, enterLockedX.eq_1, lockedX.eq_1,
      schedFinishX.eq_1, unschedFinishX.eq_1, uallBodyX.eq_1, uallJoinNextX.eq_1, startEmittersX.eq_1, continueIterX.eq_1]
  | succ n ih =>
    constructor
    · -- finishOp
      intro s ti res s' h hC
      unfold finishOpX at h
      try simp only [] at h
      split at h
      · cases h
      · rename_i t ht
        refine ih.nxt _ _ _ h ?_
        apply CX.setThreadMine
        · apply CX.log _ _ (by trivial) rfl
          split
          · exact hC.log _ trivial rfl
          · exact hC
        · have hit := hC.it ti t ht
          have : IT (match t.cur with | some op => s.log (.did op res) | none => s).hist t := by
            split
            · exact hit.mono _
            · exact hit
          exact (this.mono _).of_iter rfl
    · -- nextOp
      intro s ti s' h hC
      unfold nextOpX at h
      try simp only [] at h
      split at h
      · cases h
      · rename_i t ht
        split at h
        · exact ih.sta _ _ _ _ h (hC.setThreadMine _ ((hC.it ti t ht).of_iter rfl))
        · split at h
          · exact ih.cit _ _ _ h hC
          · cases h
            exact hC.closeSet _ rfl (Or.inr ⟨t, ht, rfl⟩)
    · -- startOp
      intro s ti op s' h hC
      unfold startOpX at h
      try simp only [] at h
      split at h
      · split at h
        · exact ih.fin _ _ _ _ h hC
        · exact ih.stem _ _ _ _ h hC
      · split at h
        · exact ih.fin _ _ _ _ h hC
        · split at h
          · exact ih.fin _ _ _ _ h hC
          · cases h
            exact hC.closeUpd _ (fun t => rfl) (fun t => Or.inl rfl)
      · exact ih.ent _ _ _ _ h (hC.frame rfl rfl rfl rfl)
      · split at h
        · cases h
          apply CX.closeSet _ _ rfl (Or.inl rfl)
          apply CX.log _ _ (by trivial) rfl
          split
          · exact hC.frame rfl rfl rfl rfl
          · exact hC
        · cases h
      · exact ih.ent _ _ _ _ h hC
    · -- enterLocked
      intro s ti op s' h hC
      unfold enterLockedX at h
      try simp only [] at h
      split at h
      · exact ih.lck _ _ _ _ h (hC.frame rfl rfl rfl rfl)
      · cases h
        exact hC.closeUpd _ (fun t => rfl) (fun t => Or.inl rfl)
    · -- locked
      intro s ti op s' h hC
      unfold lockedX at h
      try simp only [] at h
      split at h
      · rename_i h0 w fault
        split at h
        · refine ih.fin _ _ _ _ h ?_
          apply CX.release
          exact hC.hist_step (o := .reg h0 w) rfl rfl rfl rfl trivial rfl
        · split at h
          · exact ih.fin _ _ _ _ h hC.release
          · have hC1 : CX ({ s with emObjs := s.emObjs ++ [({ wid := w, script := (alookup w s.emitScripts).getD [] } : EmObj)] } : State) (some ti) :=
              hC.frame rfl rfl rfl rfl
            split at h
            · split at h
              · exact ih.fin _ _ _ _ h hC1.release
              · cases h
                exact CX.closeUpd (CX.updEm (hC1.spawn _ _) _ _) _ (fun t => rfl) (fun t => Or.inl rfl)
            · exact ih.sfin _ _ _ _ _ _ h hC1
      · rename_i w
        split at h
        · exact ih.fin _ _ _ _ h hC.release
        · split at h
          · exact ih.fin _ _ _ _ h hC.release
          · rename_i e he hnone
            have hC2 : CX ((({ s with handlers := aerase w s.handlers, regEm := s.regEm.filter (· != e) } : State).log (.unregW w)).updEm e (fun o => { o with stopped := true })) (some ti) :=
              CX.updEm (hC.hist_step (o := .unregW w) (s' := (({ s with handlers := aerase w s.handlers, regEm := s.regEm.filter (· != e) } : State).log (.unregW w))) rfl rfl rfl rfl trivial rfl) _ _
            split at h
            · cases h
              exact hC2.closeUpd _ (fun t => rfl) (fun t => Or.inl rfl)
            · exact ih.ufin _ _ _ _ h hC2
      · rename_i h0 w
        refine ih.fin _ _ _ _ h ?_
        apply CX.release
        exact hC.hist_step (o := .reg h0 w) rfl rfl rfl rfl trivial rfl
      · rename_i h0 w
        split at h
        · refine ih.fin _ _ _ _ h ?_
          apply CX.release
          exact hC.hist_step (o := .unreg h0 w) rfl rfl rfl rfl trivial rfl
        · refine ih.fin _ _ _ _ h ?_
          apply CX.release
          exact hC.frame rfl rfl rfl rfl
      · exact ih.uab _ _ _ _ h hC
      · exact ih.uab _ _ _ _ h hC
      · cases h
    · -- schedFinish
      intro s ti h0 w e s' h hC
      unfold schedFinishX at h
      try simp only [] at h
      refine ih.fin _ _ _ _ h ?_
      apply CX.release
      exact hC.hist_step (o := .reg h0 w) rfl rfl rfl rfl trivial rfl
    · -- unschedFinish
      intro s ti w s' h hC
      unfold unschedFinishX at h
      try simp only [] at h
      split at h
      · refine ih.fin _ _ _ _ h ?_
        apply CX.release
        exact hC.frame rfl rfl rfl rfl
      · exact ih.fin _ _ _ _ h hC.release
    · -- uallBody
      intro s ti b s' h hC
      unfold uallBodyX at h
      try simp only [] at h
      refine ih.uajn _ _ _ _ _ h ?_
      apply CX.foldUpdEm
      exact hC.hist_step (o := .unregAll) rfl rfl rfl rfl trivial rfl
    · -- uallJoinNext
      intro s ti es b s' h hC
      unfold uallJoinNextX at h
      try simp only [] at h
      split at h
      · split at h
        · cases h
          exact hC.closeUpd _ (fun t => rfl) (fun t => Or.inl rfl)
        · exact ih.uajn _ _ _ _ _ h hC
      · have hC1 : CX ({ s with regEm := [], watches := [] } : State).release (some ti) :=
          CX.release (hC.frame rfl rfl rfl rfl)
        split at h
        · refine ih.fin _ _ _ _ h ?_
          exact hC1.putItem _ _ _ rfl rfl trivial trivial (Or.inl rfl)
        · exact ih.fin _ _ _ _ h hC1
    · -- startEmitters
      intro s ti es s' h hC
      unfold startEmittersX at h
      try simp only [] at h
      split at h
      · split at h
        · cases h
          exact CX.closeUpd (CX.updEm (hC.spawn _ _) _ _) _ (fun t => rfl) (fun t => Or.inl rfl)
        · cases h
      · cases h
        refine CX.closeUpd (s := { (s.spawn "D" .dispatcher).1 with dIdx := some (s.spawn "D" .dispatcher).2 }) ?_ _ (fun t => rfl) (fun t => Or.inl rfl)
        exact (hC.spawn "D" .dispatcher).frame rfl rfl rfl rfl
    · -- continueIter
      intro s ti s' h hC
      unfold continueIterX at h
      try simp only [] at h
      split at h
      · cases h
      · rename_i t ht
        have hit0 := hC.it ti t ht
        split at h
        · cases h
        · rename_i u w v hit
          refine (cpass_d ti n).1 _ _ h ?_
          apply CX.release
          apply CX.setThreadMine _ _ (IT.of_none rfl)
          apply hC.log _ _ rfl
          obtain ⟨p, hs, q, h1, h2⟩ := hit0 u w v [] hit
          exact ⟨p, w, hs, q, h1, h2⟩
        · rename_i u w v h0 rest hit
          have hC0 : CX (if (alookup w s.handlers).isNone then ({ s with handlers := ainsert w [] s.handlers } : State) else s) (some ti) := by
            split
            · exact hC.frame rfl rfl rfl rfl
            · exact hC
          have hh0 : (if (alookup w s.handlers).isNone then ({ s with handlers := ainsert w [] s.handlers } : State) else s).hist = s.hist := by
            split <;> rfl
          generalize (if (alookup w s.handlers).isNone then ({ s with handlers := ainsert w [] s.handlers } : State) else s) = s0 at h hC0 hh0
          split at h
          · refine ih.nxt _ _ _ h ?_
            apply CX.setThreadMine
            · exact CX.log (s := { s0 with invoc := ainsert h0 ((alookup h0 s0.invoc).getD 0 + 1) s0.invoc }) (hC0.frame rfl rfl rfl rfl) (.call h0 w v u) trivial rfl
            · show IT (s0.hist ++ [.call h0 w v u]) _
              rw [hh0]
              exact hit0.advance hit rfl (Or.inl rfl)
          · refine ih.cit _ _ _ h ?_
            apply CX.setThreadMine
            · exact hC0.log (.skip h0 u) trivial rfl
            · show IT (s0.hist ++ [.skip h0 u]) _
              rw [hh0]
              exact hit0.advance hit rfl (Or.inr rfl)

end WD.ProofsObs
