/- who waits for whom: emitter threads, joins, and the dispatcher inside a callback (for C06's global statements) -/
import WD.Proofs.Observer.OStep
set_option linter.unusedSimpArgs false
set_option linter.unusedVariables false
namespace WD.ProofsObs
open WD WD.Obs

/-- program counters of an emitter thread -/
def epc : Pc → Bool
  | .begin | .eEmit | .eWait | .done => true
  | _ => false

/-- where a thread that runs a callback (the dispatcher, holding the lock) can be between two of its steps -/
def cbPc : Pc → Bool
  | .schedStarted .. | .unschedJoin .. | .uallJoin .. | .startEm _ | .startD => true
  | _ => false

def isDpc : Pc → Bool
  | .dWait | .dLock .. => true
  | _ => false

/-- two different dispatcher threads exist (`observer.start()` took effect twice: impossible with real threads) -/
def TwoD (s : State) : Prop :=
  ∃ i j : Nat, i ≠ j ∧ (kinds s)[i]? = some Kind.dispatcher ∧ (kinds s)[j]? = some Kind.dispatcher

theorem TwoD.mono {s s' : State} (hk : KP s s') (h : TwoD s) : TwoD s' := by
  obtain ⟨i, j, hij, hi, hj⟩ := h
  obtain ⟨r, hr⟩ := hk
  refine ⟨i, j, hij, ?_, ?_⟩
  · rw [← hr]
    have := (List.getElem?_eq_some_iff.mp hi).1
    rw [List.getElem?_append_left this]; exact hi
  · rw [← hr]
    have := (List.getElem?_eq_some_iff.mp hj).1
    rw [List.getElem?_append_left this]; exact hj

theorem not_twoD_of_oneD {s : State} (h : oneD s) : ¬ TwoD s := by
  rintro ⟨i, j, hij, hi, hj⟩
  exact hij (h i j hi hj)

/-- the emitter object exists and its stop flag is set -/
def Stopped (s : State) (e : Eid) : Prop := ∃ o, s.em? e = some o ∧ o.stopped = true

/-- per-thread facts -/
structure TG (s : State) (t : Thread) : Prop where
  disp : (t.iter.isSome = true ∨ isDpc t.pc = true) → t.kind = .dispatcher
  cb : t.iter.isSome = true → cbPc t.pc = true ∨ (t.pc = .joinD ∧ TwoD s)
  epcE : ∀ e, t.kind = .emitter e → epc t.pc = true
  joinU : ∀ w e, t.pc = .unschedJoin w e → Stopped s e
  joinA : ∀ es fs, t.pc = .uallJoin es fs → ∀ e ∈ es, Stopped s e
  sched : ∀ h w e, t.pc = .schedStarted h w e → ∃ o, s.em? e = some o

/-- facts about the tables -/
structure SG (s : State) : Prop where
  em : ∀ e o ei, s.em? e = some o → o.tidx = some ei → ∃ t, s.threads[ei]? = some t ∧ t.kind = .emitter e
  didx : ∀ d, s.dIdx = some d → ∃ t, s.threads[d]? = some t ∧ t.kind = .dispatcher
  reg : ∀ e ∈ s.regEm, ∃ o, s.em? e = some o

/-- while thread `ti` is in the middle of a step -/
structure GX (s : State) (ti : Nat) : Prop where
  sg : SG s
  others : ∀ (j : Nat) (t : Thread), j ≠ ti → s.threads[j]? = some t → TG s t

/-- between steps -/
structure GQ (s : State) : Prop where
  sg : SG s
  thr : ∀ (j : Nat) (t : Thread), s.threads[j]? = some t → TG s t

/-- the emitter objects only grow, and a stop flag once set stays -/
def EmMono (s s' : State) : Prop :=
  ∀ e o, s.em? e = some o → ∃ o', s'.em? e = some o' ∧ (o.stopped = true → o'.stopped = true)

theorem EmMono.refl (s : State) : EmMono s s := fun e o h => ⟨o, h, id⟩
theorem EmMono.of_eq {s s' : State} (h : s'.emObjs = s.emObjs) : EmMono s s' := by
  intro e o he; exact ⟨o, by simpa [State.em?, h] using he, id⟩
theorem EmMono.trans {a b c : State} (h1 : EmMono a b) (h2 : EmMono b c) : EmMono a c := by
  intro e o he
  obtain ⟨o1, ho1, hs1⟩ := h1 e o he
  obtain ⟨o2, ho2, hs2⟩ := h2 e o1 ho1
  exact ⟨o2, ho2, fun h => hs2 (hs1 h)⟩

theorem Stopped.mono {s s' : State} {e : Eid} (hm : EmMono s s') (h : Stopped s e) : Stopped s' e := by
  obtain ⟨o, ho, hs⟩ := h
  obtain ⟨o', ho', hs'⟩ := hm e o ho
  exact ⟨o', ho', hs' hs⟩

theorem TG.mono {s s' : State} {t : Thread} (h : TG s t) (hm : EmMono s s') (hk : KP s s') : TG s' t :=
  ⟨h.disp, fun hi => (h.cb hi).imp id (fun x => ⟨x.1, x.2.mono hk⟩), h.epcE, fun w e hp => (h.joinU w e hp).mono hm, fun es fs hp e he => (h.joinA es fs hp e he).mono hm,
   fun h0 w e hp => by
     obtain ⟨o, ho⟩ := h.sched h0 w e hp
     obtain ⟨o', ho', _⟩ := hm e o ho
     exact ⟨o', ho'⟩⟩

/-- `TG` of a thread record with the same pc, iter and kind -/
theorem TG.of_same {s : State} {t t' : Thread} (h : TG s t) (hpc : t'.pc = t.pc) (hit : t'.iter = t.iter) (hk : t'.kind = t.kind) :
    TG s t' := by
  refine ⟨?_, ?_, ?_, ?_, ?_, ?_⟩
  · rw [hpc, hit, hk]; exact h.disp
  · rw [hpc, hit]; exact h.cb
  · rw [hpc, hk]; exact h.epcE
  · rw [hpc]; exact h.joinU
  · rw [hpc]; exact h.joinA
  · rw [hpc]; exact h.sched

/-- a fresh thread -/
theorem TG.fresh (s : State) (nm : String) (k : Kind) : TG s { name := nm, kind := k, pc := .begin } := by
  refine ⟨?_, ?_, ?_, ?_, ?_, ?_⟩ <;> simp [isDpc, cbPc, epc]

/- ---------------- the state changes a step is made of ---------------- -/

/-- nothing the invariant looks at changes -/
theorem GX.frame {s s' : State} {ti : Nat} (hG : GX s ti) (ht : s'.threads = s.threads) (he : s'.emObjs = s.emObjs)
    (hd : s'.dIdx = s.dIdx) (hr : ∀ e ∈ s'.regEm, e ∈ s.regEm ∨ ∃ o, s.em? e = some o) : GX s' ti := by
  have hem : ∀ e, s'.em? e = s.em? e := fun e => by simp [State.em?, he]
  constructor
  · constructor
    · intro e o ei h1 h2; rw [hem] at h1; rw [ht]; exact hG.sg.em e o ei h1 h2
    · intro d h; rw [hd] at h; rw [ht]; exact hG.sg.didx d h
    · intro e h; rw [hem]
      rcases hr e h with h1 | h1
      · exact hG.sg.reg e h1
      · exact h1
  · intro j t hj hjt
    rw [ht] at hjt
    exact (hG.others j t hj hjt).mono (EmMono.of_eq he) (KP.of_eq ht)

theorem GX.log {s : State} {ti : Nat} (hG : GX s ti) (o : Obs) : GX (s.log o) ti :=
  hG.frame rfl rfl rfl (fun _ h => Or.inl h)

theorem GX.release {s : State} {ti : Nat} (hG : GX s ti) : GX s.release ti := by
  apply hG.frame <;> (unfold State.release; split) <;> first | rfl | exact fun _ h => Or.inl h

theorem GX.setThreadMine {s : State} {ti : Nat} {t : Thread} (hG : GX s ti) (ht : s.thread? ti = some t) (t' : Thread)
    (hk : t'.kind = t.kind) : GX (s.setThread ti t') ti := by
  have ht' : s.threads[ti]? = some t := ht
  have hlt := (List.getElem?_eq_some_iff.mp ht').1
  constructor
  · constructor
    · intro e o ei h1 h2
      obtain ⟨x, hx, hxk⟩ := hG.sg.em e o ei h1 h2
      simp only [setThread_threads, List.getElem?_set]
      split
      · rename_i e1; subst e1
        rw [ht'] at hx; cases hx
        exact ⟨t', by simp [hlt], hk.trans hxk⟩
      · exact ⟨x, hx, hxk⟩
    · intro d h
      obtain ⟨x, hx, hxk⟩ := hG.sg.didx d h
      simp only [setThread_threads, List.getElem?_set]
      split
      · rename_i e1; subst e1
        rw [ht'] at hx; cases hx
        exact ⟨t', by simp [hlt], hk.trans hxk⟩
      · exact ⟨x, hx, hxk⟩
    · exact hG.sg.reg
  · intro j tj hj hjt
    simp only [setThread_threads, getElem?_set_ne' _ _ _ _ hj] at hjt
    exact (hG.others j tj hj hjt).mono (fun e o h => ⟨o, h, id⟩) (KP.setThread ht' t' hk)

/-- an update of some thread (possibly `ti`) that keeps pc, iter and kind -/
theorem GX.updThread_same {s : State} {ti : Nat} (hG : GX s ti) (k : Nat) (f : Thread → Thread)
    (hf : ∀ t, (f t).pc = t.pc ∧ (f t).iter = t.iter ∧ (f t).kind = t.kind) : GX (s.updThread k f) ti := by
  rw [updThread_eq]
  split
  · rename_i tk htk
    have hlt := (List.getElem?_eq_some_iff.mp htk).1
    constructor
    · constructor
      · intro e o ei h1 h2
        obtain ⟨x, hx, hxk⟩ := hG.sg.em e o ei h1 h2
        simp only [setThread_threads, List.getElem?_set]
        split
        · rename_i e1; subst e1
          rw [htk] at hx; cases hx
          exact ⟨f tk, by simp [hlt], (hf tk).2.2.trans hxk⟩
        · exact ⟨x, hx, hxk⟩
      · intro d h
        obtain ⟨x, hx, hxk⟩ := hG.sg.didx d h
        simp only [setThread_threads, List.getElem?_set]
        split
        · rename_i e1; subst e1
          rw [htk] at hx; cases hx
          exact ⟨f tk, by simp [hlt], (hf tk).2.2.trans hxk⟩
        · exact ⟨x, hx, hxk⟩
      · exact hG.sg.reg
    · intro j t hj hjt
      simp only [setThread_threads, List.getElem?_set] at hjt
      split at hjt
      · rename_i hkj
        subst hkj
        have hjt' : f tk = t := by
          first
            | exact Option.some.inj hjt
            | (split at hjt
               · exact Option.some.inj hjt
               · cases hjt)
        subst hjt'
        exact ((hG.others k tk hj htk).of_same (hf tk).1 (hf tk).2.1 (hf tk).2.2).mono (fun e o h => ⟨o, h, id⟩) (KP.setThread htk _ (hf tk).2.2)
      · exact (hG.others j t hj hjt).mono (fun e o h => ⟨o, h, id⟩) (KP.setThread htk _ (hf tk).2.2)
  · exact hG

theorem GX.spawn {s : State} {ti : Nat} (hG : GX s ti) (b : String) (k : Kind) : GX (s.spawn b k).1 ti := by
  obtain ⟨nm, hnm⟩ := spawn_threads s b k
  have hem : ∀ e, (s.spawn b k).1.em? e = s.em? e := fun e => rfl
  constructor
  · constructor
    · intro e o ei h1 h2
      obtain ⟨x, hx, hxk⟩ := hG.sg.em e o ei h1 h2
      refine ⟨x, ?_, hxk⟩
      have := (List.getElem?_eq_some_iff.mp hx).1
      rw [hnm, List.getElem?_append_left this]; exact hx
    · intro d h
      obtain ⟨x, hx, hxk⟩ := hG.sg.didx d h
      refine ⟨x, ?_, hxk⟩
      have := (List.getElem?_eq_some_iff.mp hx).1
      rw [hnm, List.getElem?_append_left this]; exact hx
    · exact hG.sg.reg
  · intro j t hj hjt
    rw [hnm, List.getElem?_append] at hjt
    split at hjt
    · exact (hG.others j t hj hjt).mono (fun e o h => ⟨o, h, id⟩) (KP.spawn s b k)
    · rw [List.getElem?_singleton] at hjt
      split at hjt
      · cases hjt; exact TG.fresh _ _ _
      · cases hjt

theorem em?_updEm (s : State) (e e' : Eid) (f : EmObj → EmObj) :
    (s.updEm e f).em? e' = if e' = e then (s.em? e).map f else s.em? e' := by
  rw [updEm_eq]
  cases h : s.emObjs[e]? with
  | none =>
    simp only [State.em?]
    split
    · rename_i e1; subst e1; simp [h]
    · rfl
  | some o =>
    simp only [State.em?, List.getElem?_set]
    have hlt := (List.getElem?_eq_some_iff.mp h).1
    by_cases e1 : e' = e
    · subst e1
      have : s.emObjs[e'] = o := by
        have := List.getElem?_eq_getElem hlt; rw [h] at this; exact (Option.some.inj this).symm
      simp [h, hlt, this]
    · simp [e1, Ne.symm e1]

theorem EmMono.updEm (s : State) (e : Eid) (f : EmObj → EmObj) (hf : ∀ o, o.stopped = true → (f o).stopped = true) :
    EmMono s (s.updEm e f) := by
  intro e' o ho
  rw [em?_updEm]
  by_cases e1 : e' = e
  · subst e1; simp only [if_true, ho, Option.map_some]; exact ⟨f o, rfl, hf o⟩
  · simp only [e1, if_false]; exact ⟨o, ho, id⟩

/-- an update of an emitter object that keeps its thread and never clears its stop flag -/
theorem GX.updEm {s : State} {ti : Nat} (hG : GX s ti) (e : Eid) (f : EmObj → EmObj)
    (hs : ∀ o, o.stopped = true → (f o).stopped = true) (ht : ∀ o, (f o).tidx = o.tidx) : GX (s.updEm e f) ti := by
  constructor
  · constructor
    · intro e' o ei h1 h2
      rw [em?_updEm] at h1
      rw [updEm_threads]
      by_cases e1 : e' = e
      · subst e1
        simp only [if_true] at h1
        cases h0 : s.em? e' with
        | none => simp [h0] at h1
        | some o0 =>
          simp only [h0, Option.map_some, Option.some.injEq] at h1
          subst h1
          rw [ht] at h2
          exact hG.sg.em e' o0 ei h0 h2
      · simp only [e1, if_false] at h1
        exact hG.sg.em e' o ei h1 h2
    · intro d h
      rw [updEm_threads]
      exact hG.sg.didx d (by rw [updEm_eq] at h; split at h <;> exact h)
    · intro e' h
      have h' : e' ∈ s.regEm := by rw [updEm_eq] at h; split at h <;> exact h
      obtain ⟨o, ho⟩ := hG.sg.reg e' h'
      obtain ⟨o', ho', _⟩ := EmMono.updEm s e f hs e' o ho
      exact ⟨o', ho'⟩
  · intro j t hj hjt
    rw [updEm_threads] at hjt
    exact (hG.others j t hj hjt).mono (EmMono.updEm s e f hs) (KP.of_eq (updEm_threads s e f))

theorem GX.foldUpdEm {s : State} {ti : Nat} (hG : GX s ti) (l : List Eid) (f : EmObj → EmObj)
    (hs : ∀ o, o.stopped = true → (f o).stopped = true) (ht : ∀ o, (f o).tidx = o.tidx) :
    GX (l.foldl (fun acc e => acc.updEm e f) s) ti := by
  induction l generalizing s with
  | nil => exact hG
  | cons e l ih => exact ih (hG.updEm e f hs ht)

/-- `unschedule_all` sets the stop flag of every registered emitter -/
theorem foldStop_stopped (s : State) (l : List Eid) (e : Eid) (he : e ∈ l) (hex : ∃ o, s.em? e = some o) :
    Stopped (l.foldl (fun acc e => acc.updEm e (fun o => { o with stopped := true })) s) e := by
  induction l generalizing s with
  | nil => cases he
  | cons x l ih =>
    simp only [List.foldl_cons]
    have hm : ∀ (s0 : State) (l0 : List Eid), EmMono s0 (l0.foldl (fun acc e => acc.updEm e (fun o => { o with stopped := true })) s0) := by
      intro s0 l0
      induction l0 generalizing s0 with
      | nil => exact EmMono.refl _
      | cons y l0 ih0 => exact (EmMono.updEm s0 y _ (fun o h => rfl)).trans (ih0 _)
    rcases List.mem_cons.mp he with h | h
    · subst h
      obtain ⟨o, ho⟩ := hex
      have h1 : Stopped (s.updEm e (fun o => { o with stopped := true })) e :=
        ⟨{ o with stopped := true }, by rw [em?_updEm]; simp [ho], rfl⟩
      exact h1.mono (hm _ _)
    · apply ih _ h
      obtain ⟨o, ho⟩ := hex
      obtain ⟨o', ho', _⟩ := EmMono.updEm s x (fun o => { o with stopped := true }) (fun o h => rfl) e o ho
      exact ⟨o', ho'⟩

theorem foldUpdEm_regEm (s : State) (l : List Eid) (f : EmObj → EmObj) :
    (l.foldl (fun acc e => acc.updEm e f) s).regEm = s.regEm := by
  induction l generalizing s with
  | nil => rfl
  | cons e l ih =>
    simp only [List.foldl_cons]; rw [ih]
    rw [updEm_eq]; split <;> rfl

theorem updThread_emObjs (s : State) (k : Nat) (f : Thread → Thread) : (s.updThread k f).emObjs = s.emObjs := by
  rw [updThread_eq]; split <;> rfl

theorem putItem_emObjs (s : State) (mk : Nat → QItem) (onEnq : Nat → Obs) (onDrop : Obs) :
    (s.putItem mk onEnq onDrop).emObjs = s.emObjs := by
  rcases putItem_cases s mk onEnq onDrop with h | h | ⟨k, h⟩
  · rw [h]; rfl
  · rw [h]; rfl
  · rw [h, updThread_emObjs]; rfl

theorem GX.putItem {s : State} {ti : Nat} (hG : GX s ti) (mk : Nat → QItem) (onEnq : Nat → Obs) (onDrop : Obs) :
    GX (s.putItem mk onEnq onDrop) ti := by
  have hb : GX (putBase s (mk s.nextUid) (onEnq s.nextUid)) ti := hG.frame rfl rfl rfl (fun _ h => Or.inl h)
  rcases putItem_cases s mk onEnq onDrop with h | h | ⟨k, h⟩
  · rw [h]; exact hG.log _
  · rw [h]; exact hb
  · rw [h]; exact hb.updThread_same k notif (fun t => ⟨(notif_same t).1, (notif_same t).2.1, notif_kind t⟩)

/-- the step of `ti` ends: its record gets its final shape -/
theorem GX.close {s : State} {ti : Nat} {t : Thread} (hG : GX s ti) (ht : s.thread? ti = some t) (t' : Thread)
    (hk : t'.kind = t.kind) (hT : TG s t') : GQ (s.setThread ti t') := by
  have ht' : s.threads[ti]? = some t := ht
  have hlt := (List.getElem?_eq_some_iff.mp ht').1
  have hX := hG.setThreadMine ht t' hk
  refine ⟨hX.sg, ?_⟩
  intro j tj hj
  by_cases e : j = ti
  · subst e
    simp only [setThread_threads] at hj
    simp [hlt] at hj; subst hj
    exact hT.mono (fun e o h => ⟨o, h, id⟩) (KP.setThread ht' t' hk)
  · exact hX.others j tj e hj

theorem GX.closeUpd {s : State} {ti : Nat} {t : Thread} (hG : GX s ti) (ht : s.thread? ti = some t)
    (f : Thread → Thread) (hk : (f t).kind = t.kind) (hT : TG s (f t)) : GQ (s.updThread ti f) := by
  have ht' : s.threads[ti]? = some t := ht
  rw [updThread_eq, ht']
  exact hG.close ht _ hk hT

/-- the step ends without another change of `ti`'s record -/
theorem GX.closeSame {s : State} {ti : Nat} {t : Thread} (hG : GX s ti) (ht : s.thread? ti = some t) (hT : TG s t) : GQ s := by
  refine ⟨hG.sg, ?_⟩
  intro j tj hj
  by_cases e : j = ti
  · subst e
    have ht' : s.threads[j]? = some t := ht
    rw [ht'] at hj; cases hj; exact hT
  · exact hG.others j tj e hj

theorem GQ.open {s : State} (hQ : GQ s) (ti : Nat) : GX s ti :=
  ⟨hQ.sg, fun j t _ hj => hQ.thr j t hj⟩

theorem emitterOf_exists {s : State} {w : Wid} {e : Eid} (h : s.emitterOf w = some e) : ∃ o, s.em? e = some o := by
  unfold State.emitterOf at h
  have := List.find?_some h
  cases he : s.em? e with
  | none => simp [he] at this
  | some o => exact ⟨o, rfl⟩

/-- a new emitter object (no thread yet) -/
theorem GX.appendEm {s : State} {ti : Nat} (hG : GX s ti) (o : EmObj) (ho : o.tidx = none) :
    GX ({ s with emObjs := s.emObjs ++ [o] } : State) ti := by
  have hmono : EmMono s ({ s with emObjs := s.emObjs ++ [o] } : State) := by
    intro e x hx
    refine ⟨x, ?_, id⟩
    have hx' : s.emObjs[e]? = some x := hx
    have := (List.getElem?_eq_some_iff.mp hx').1
    show (s.emObjs ++ [o])[e]? = some x
    rw [List.getElem?_append_left this]; exact hx'
  constructor
  · constructor
    · intro e x ei h1 h2
      have h1' : (s.emObjs ++ [o])[e]? = some x := h1
      rw [List.getElem?_append] at h1'
      split at h1'
      · exact hG.sg.em e x ei h1' h2
      · rw [List.getElem?_singleton] at h1'
        split at h1'
        · cases h1'; rw [ho] at h2; cases h2
        · cases h1'
    · exact hG.sg.didx
    · intro e h
      obtain ⟨x, hx⟩ := hG.sg.reg e h
      obtain ⟨x', hx', _⟩ := hmono e x hx
      exact ⟨x', hx'⟩
  · intro j t hj hjt
    exact (hG.others j t hj hjt).mono hmono (KP.of_eq rfl)

/-- `Thread.start` of emitter `e`: a new thread, remembered in the emitter object -/
theorem GX.linkEm {s : State} {ti : Nat} (hG : GX s ti) (b : String) (e : Eid) :
    GX ((s.spawn b (.emitter e)).1.updEm e (fun o => { o with started := true, tidx := some (s.spawn b (.emitter e)).2 })) ti := by
  obtain ⟨nm, hnm⟩ := spawn_threads s b (.emitter e)
  have hS := hG.spawn b (.emitter e)
  have hmono := EmMono.updEm (s.spawn b (.emitter e)).1 e (fun o => { o with started := true, tidx := some (s.spawn b (.emitter e)).2 }) (fun o h => h)
  constructor
  · constructor
    · intro e' o ei h1 h2
      rw [em?_updEm] at h1
      rw [updEm_threads]
      by_cases e1 : e' = e
      · subst e1
        simp only [if_true] at h1
        cases h0 : (s.spawn b (.emitter e')).1.em? e' with
        | none => simp [h0] at h1
        | some o0 =>
          simp only [h0, Option.map_some, Option.some.injEq] at h1
          subst h1
          simp only [spawn_snd, Option.some.injEq] at h2
          subst h2
          refine ⟨{ name := nm, kind := .emitter e', pc := .begin }, ?_, rfl⟩
          rw [hnm]; simp
      · simp only [e1, if_false] at h1
        exact hS.sg.em e' o ei h1 h2
    · intro d h
      rw [updEm_threads]
      exact hS.sg.didx d (by rw [updEm_eq] at h; split at h <;> exact h)
    · intro e' h
      have h' : e' ∈ (s.spawn b (.emitter e)).1.regEm := by rw [updEm_eq] at h; split at h <;> exact h
      obtain ⟨o, ho⟩ := hS.sg.reg e' h'
      obtain ⟨o', ho', _⟩ := hmono e' o ho
      exact ⟨o', ho'⟩
  · intro j t hj hjt
    rw [updEm_threads] at hjt
    exact (hS.others j t hj hjt).mono hmono (KP.of_eq (updEm_threads _ _ _))

/-- `Thread.start` of the dispatcher -/
theorem GX.spawnD {s : State} {ti : Nat} (hG : GX s ti) :
    GX ({ (s.spawn "D" .dispatcher).1 with dIdx := some (s.spawn "D" .dispatcher).2 } : State) ti := by
  obtain ⟨nm, hnm⟩ := spawn_threads s "D" .dispatcher
  have hS := hG.spawn "D" .dispatcher
  constructor
  · constructor
    · exact hS.sg.em
    · intro d h
      simp only [spawn_snd, Option.some.injEq] at h
      subst h
      refine ⟨{ name := nm, kind := .dispatcher, pc := .begin }, ?_, rfl⟩
      show (s.spawn "D" .dispatcher).1.threads[s.threads.length]? = _
      rw [hnm]; simp
    · exact hS.sg.reg
  · intro j t hj hjt
    exact (hS.others j t hj hjt).mono (fun e o h => ⟨o, h, id⟩) (KP.of_eq rfl)

/-- building `TG` for the record a step leaves behind -/
theorem TG.of {s : State} {t : Thread} (hne : ∀ e, t.kind ≠ .emitter e)
    (hd : (t.iter.isSome = true ∨ isDpc t.pc = true) → t.kind = .dispatcher)
    (hcb : t.iter.isSome = true → cbPc t.pc = true ∨ (t.pc = .joinD ∧ TwoD s))
    (hju : ∀ w e, t.pc = .unschedJoin w e → Stopped s e) (hja : ∀ es fs, t.pc = .uallJoin es fs → ∀ e ∈ es, Stopped s e)
    (hsc : ∀ h w e, t.pc = .schedStarted h w e → ∃ o, s.em? e = some o) :
    TG s t :=
  ⟨hd, hcb, fun e h => absurd h (hne e), hju, hja, hsc⟩

end WD.ProofsObs
